"""Small KNX bus / device model behind the XH stub interface (C43, C44).

    async def scenario(loop):
        h = await XH.create(loop); h.connect()
        bus = SimBus(h, [SimDevice("1.1.5", prog=True), SimDevice("1.1.9", conn="refuses")])
        ... run real management procedures against h.xknx ...
        bus.log      # every frame seen on the simulated bus (virtual time, tick, direction, decoded)
        bus.devices  # final device state (address, prog, restarts, level, ...)

The bus reacts to what the client sends (StubInterface.on_sent) and feeds frames back
through the full cEMI receive path (XH.inject_ind), a little later in virtual time so
that the L_Data.con of the request is seen first - like a TP line behind a gateway.

Nothing here decides a property. The device model follows the KNX transport layer
(03_03_04: T_Connect / T_Disconnect / numbered data with T_ACK, sequence counters modulo
16, repeated frame re-acknowledged, anything else ignored) and the broadcast services of
03_05_02 NM_IndividualAddress_* as far as the management procedures of xknx use them.
It never imports xknx.management.

`FrameInjector` is the raw frame source for C43: it builds transport frames and injects
them, recording synchronous exceptions out of the receive path.
"""

from __future__ import annotations

from typing import Any

from xknx.telegram import GroupAddress, IndividualAddress, Telegram, apci, tpci

FREE_KEY = 0xFFFFFFFF
CLIENT = "1.1.250"  # XH sets xknx.current_address to this


def _tpci_name(t: Any) -> str:
    return type(t).__name__


def describe(telegram: Telegram | None) -> dict[str, Any]:
    """JSON-able description of a telegram (for logs / failure details)."""
    if telegram is None:
        return {"undecodable": True}
    d: dict[str, Any] = {
        "src": str(telegram.source_address),
        "dst": str(telegram.destination_address),
        "tpci": _tpci_name(telegram.tpci),
    }
    if telegram.tpci.numbered:
        d["seq"] = telegram.tpci.sequence_number
    if telegram.payload is not None:
        d["apci"] = type(telegram.payload).__name__
    return d


class SimDevice:
    """One device on the simulated bus."""

    def __init__(
        self,
        address: str,
        serial: bytes = b"\x00\x00\x00\x00\x00\x01",
        prog: bool = False,
        conn: str = "answers",  # "answers" | "refuses" (T_Disconnect on T_Connect) | "silent" (ignores point-to-point) | "naks" (T_NAK to every data frame) | "wrongack" (T_ACK with the following number) | "otherservice" (T_ACK + a response of another service)
        levels: dict[int, int] | None = None,  # access key -> level; FREE_KEY entry = level without key
        mask: int = 0x07B0,
        serial_fault: str | None = None,  # None | "answers-any" (answers every serial read with its own serial) | "echo" (claims the asked serial)
        name: str | None = None,
        latency: str | None = None,  # None: the bus default | "con": replies handled in the loop iteration of the L_Data.con | "iter": a few iterations later, same virtual instant | "20ms"
    ) -> None:
        if latency not in (None, "con", "iter", "20ms"):
            raise ValueError(f"unknown latency {latency!r}")
        self.latency = latency
        self.address = IndividualAddress(address)
        self.initial_address = IndividualAddress(address)
        self.serial = bytes(serial)
        self.prog = prog
        self.conn = conn
        self.levels = dict(levels or {FREE_KEY: 15})
        self.levels.setdefault(FREE_KEY, 15)
        self.mask = mask
        self.serial_fault = serial_fault
        self.name = name or f"dev@{address}"
        # transport layer state
        self.peer: IndividualAddress | None = None
        self.rcv = 0
        self.snd = 0
        self.level = self.levels[FREE_KEY]
        self.restarts = 0
        self.address_writes = 0
        self.authorized: list[tuple[int, int]] = []  # (key, level) in order

    @property
    def responsive(self) -> bool:
        """Reacts to point-to-point frames (so NM_IndividualAddress_Check can see it)."""
        return self.conn != "silent"

    def state(self) -> dict[str, Any]:
        return {
            "name": self.name,
            "address": str(self.address),
            "initial": str(self.initial_address),
            "serial": self.serial.hex(),
            "prog": self.prog,
            "conn": self.conn,
            "latency": self.latency,
            "restarts": self.restarts,
            "address_writes": self.address_writes,
            "level": self.level,
        }


class SimBus:
    """Bus with devices, attached to an XH harness."""

    def __init__(self, h: Any, devices: list[SimDevice], delay: float = 0.02, step: float = 0.002) -> None:
        self.h = h
        self.loop = h.loop
        self.devices = list(devices)
        self.delay = delay
        self.step = step
        self.log: list[dict[str, Any]] = []
        self.errors: list[str] = []
        self.rx_exceptions: list[dict[str, Any]] = []  # exceptions raised synchronously by the client's receive path
        self._pending = 0
        self._k = 0
        h.stub.on_sent = self._on_sent

    # -- client -> bus -------------------------------------------------------
    def _on_sent(self, cemi: Any) -> None:
        try:
            telegram = cemi.data.telegram()
        except Exception as e:  # noqa: BLE001
            self.errors.append(f"cannot decode client frame: {e!r}")
            return
        rec = {"t": round(self.loop.time(), 6), "tick": self.loop.tick, "dir": "c2b", **describe(telegram), "telegram": telegram}
        self.log.append(rec)
        self._k = 0
        for dev in list(self.devices):
            try:
                self._react(dev, telegram)
            except Exception as e:  # noqa: BLE001
                self.errors.append(f"device model error: {e!r}")

    def _react(self, dev: SimDevice, tg: Telegram) -> None:
        t = tg.tpci
        dst = tg.destination_address
        src = tg.source_address
        if isinstance(t, tpci.TDataBroadcast):
            self._broadcast(dev, tg)
            return
        if not isinstance(dst, IndividualAddress) or dst != dev.address:
            return
        if dev.conn == "silent":
            return
        if isinstance(t, tpci.TConnect):
            if dev.conn == "refuses":
                self._emit(dev, Telegram(destination_address=src, tpci=tpci.TDisconnect()))
                return
            if dev.peer is not None and dev.peer != src:
                self._emit(dev, Telegram(destination_address=src, tpci=tpci.TDisconnect()))
                return
            dev.peer, dev.rcv, dev.snd = src, 0, 0
            dev.level = dev.levels[FREE_KEY]
            return
        if dev.peer is None or dev.peer != src:
            return
        if isinstance(t, tpci.TDisconnect):
            dev.peer = None
            return
        if isinstance(t, (tpci.TAck, tpci.TNak)):
            return
        if isinstance(t, tpci.TDataConnected) and dev.conn == "naks":
            # faulty / busy device: every numbered data frame is answered with T_NAK, nothing is processed
            self._emit(dev, Telegram(destination_address=src, tpci=tpci.TNak(t.sequence_number)))
            return
        if isinstance(t, tpci.TDataConnected):
            n = t.sequence_number
            if n == dev.rcv and dev.conn == "wrongack":
                # acknowledges with the following number, then serves the request as usual
                self._emit(dev, Telegram(destination_address=src, tpci=tpci.TAck((n + 1) & 0xF)))
                dev.rcv = (dev.rcv + 1) & 0xF
                self._service(dev, tg)
            elif n == dev.rcv and dev.conn == "otherservice":
                # acknowledges, then answers with a service the request did not ask for
                self._emit(dev, Telegram(destination_address=src, tpci=tpci.TAck(n)))
                dev.rcv = (dev.rcv + 1) & 0xF
                if isinstance(tg.payload, apci.AuthorizeRequest):
                    self._respond(dev, src, apci.DeviceDescriptorResponse(descriptor=0, value=dev.mask))
                elif isinstance(tg.payload, apci.Restart):
                    self._service(dev, tg)
                else:
                    self._respond(dev, src, apci.AuthorizeResponse(level=dev.level))
            elif n == dev.rcv:
                self._emit(dev, Telegram(destination_address=src, tpci=tpci.TAck(n)))
                dev.rcv = (dev.rcv + 1) & 0xF
                self._service(dev, tg)
            elif n == (dev.rcv - 1) & 0xF:
                self._emit(dev, Telegram(destination_address=src, tpci=tpci.TAck(n)))
            return

    def _respond(self, dev: SimDevice, dst: Any, payload: Any) -> None:
        self._emit(dev, Telegram(destination_address=dst, tpci=tpci.TDataConnected(dev.snd), payload=payload))
        dev.snd = (dev.snd + 1) & 0xF

    def _service(self, dev: SimDevice, tg: Telegram) -> None:
        p = tg.payload
        src = tg.source_address
        if isinstance(p, apci.DeviceDescriptorRead):
            if p.descriptor == 0:
                self._respond(dev, src, apci.DeviceDescriptorResponse(descriptor=0, value=dev.mask))
        elif isinstance(p, apci.AuthorizeRequest):
            level = dev.levels.get(p.key, dev.levels[FREE_KEY])
            dev.level = level
            dev.authorized.append((p.key, level))
            self._respond(dev, src, apci.AuthorizeResponse(level=level))
        elif isinstance(p, apci.Restart):
            dev.restarts += 1
            dev.prog = False
            dev.peer = None
            self.log.append({"t": round(self.loop.time(), 6), "tick": self.loop.tick, "dir": "event", "event": "restart", "device": dev.name, "address": str(dev.address)})

    def _broadcast(self, dev: SimDevice, tg: Telegram) -> None:
        p = tg.payload
        bc = GroupAddress(0)
        if isinstance(p, apci.IndividualAddressRead):
            if dev.prog:
                self._emit(dev, Telegram(destination_address=bc, tpci=tpci.TDataBroadcast(), payload=apci.IndividualAddressResponse()))
        elif isinstance(p, apci.IndividualAddressWrite):
            if dev.prog:
                self._set_address(dev, p.address, "IndividualAddressWrite")
        elif isinstance(p, apci.IndividualAddressSerialRead):
            if p.serial == dev.serial or dev.serial_fault == "answers-any":
                self._emit(dev, Telegram(destination_address=bc, tpci=tpci.TDataBroadcast(), payload=apci.IndividualAddressSerialResponse(serial=dev.serial, address=dev.address)))
            elif dev.serial_fault == "echo":
                self._emit(dev, Telegram(destination_address=bc, tpci=tpci.TDataBroadcast(), payload=apci.IndividualAddressSerialResponse(serial=p.serial, address=dev.address)))
        elif isinstance(p, apci.IndividualAddressSerialWrite):
            if p.serial == dev.serial:
                self._set_address(dev, p.address, "IndividualAddressSerialWrite")

    def _set_address(self, dev: SimDevice, address: IndividualAddress, why: str) -> None:
        old = dev.address
        dev.address = IndividualAddress(address.raw)
        dev.address_writes += 1
        dev.peer = None
        self.log.append({"t": round(self.loop.time(), 6), "tick": self.loop.tick, "dir": "event", "event": "address-change", "device": dev.name, "old": str(old), "new": str(dev.address), "why": why})

    # -- bus -> client -------------------------------------------------------
    ITERATIONS_LATER = 4  # "iter" latency: after the task that sent the frame has resumed from its L_Data.con wait

    def _emit(self, dev: SimDevice, telegram: Telegram) -> None:
        src = str(dev.address)
        k = self._k
        self._k += 1
        self._pending += 1
        lat = getattr(dev, "latency", None)
        if lat == "con":
            self.loop.call_soon(self._deliver, dev.name, src, telegram)
            return
        if lat == "iter":
            self._after_iterations(self.ITERATIONS_LATER, dev.name, src, telegram)
            return
        when = (0.02 + k * 0.002) if lat == "20ms" else (self.delay + k * self.step)
        if when > 0:
            self.loop.call_later(when, self._deliver, dev.name, src, telegram)
        else:
            self.loop.call_soon(self._deliver, dev.name, src, telegram)

    def _after_iterations(self, n: int, name: str, src: str, telegram: Telegram) -> None:
        if n <= 0:
            self._deliver(name, src, telegram)
        else:
            self.loop.call_soon(self._after_iterations, n - 1, name, src, telegram)

    def _deliver(self, name: str, src: str, telegram: Telegram) -> None:
        self._pending -= 1
        telegram.source_address = IndividualAddress(src)
        rec = {"t": round(self.loop.time(), 6), "tick": self.loop.tick, "dir": "b2c", "device": name, **describe(telegram), "telegram": telegram}
        self.log.append(rec)
        try:
            self.h.inject_ind(telegram, src=src)
        except Exception as e:  # noqa: BLE001 - receive path raised synchronously: observation for the oracle
            rec["raised"] = e
            self.rx_exceptions.append({"t": rec["t"], "frame": describe(telegram), "exception": e})

    # -- queries -------------------------------------------------------------
    def sent(self, apci_type: type | None = None, tpci_type: type | None = None) -> list[dict[str, Any]]:
        """Frames the client put on the bus, filtered by payload / TPCI class."""
        out = []
        for r in self.log:
            if r["dir"] != "c2b":
                continue
            tg = r["telegram"]
            if apci_type is not None and not isinstance(tg.payload, apci_type):
                continue
            if tpci_type is not None and not isinstance(tg.tpci, tpci_type):
                continue
            out.append(r)
        return out

    def public_log(self) -> list[dict[str, Any]]:
        """Log without live objects (JSON-able)."""
        return [{k: v for k, v in r.items() if k not in ("telegram", "raised")} for r in self.log]

    def collisions(self, responsive_only: bool = True) -> list[tuple[str, list[str]]]:
        """Addresses currently held by more than one (responsive) device."""
        by: dict[str, list[str]] = {}
        for d in self.devices:
            if responsive_only and not d.responsive:
                continue
            by.setdefault(str(d.address), []).append(d.name)
        return sorted((a, names) for a, names in by.items() if len(names) > 1)


class FrameInjector:
    """Raw transport-frame source (C43): inject through the cEMI receive path, keep a log."""

    def __init__(self, h: Any) -> None:
        self.h = h
        self.loop = h.loop
        self.log: list[dict[str, Any]] = []

    @staticmethod
    def ack(n: int) -> Telegram:
        return Telegram(destination_address=IndividualAddress(CLIENT), tpci=tpci.TAck(n & 0xF))

    @staticmethod
    def nak(n: int) -> Telegram:
        return Telegram(destination_address=IndividualAddress(CLIENT), tpci=tpci.TNak(n & 0xF))

    @staticmethod
    def disconnect() -> Telegram:
        return Telegram(destination_address=IndividualAddress(CLIENT), tpci=tpci.TDisconnect())

    @staticmethod
    def connect() -> Telegram:
        return Telegram(destination_address=IndividualAddress(CLIENT), tpci=tpci.TConnect())

    @staticmethod
    def data(n: int, payload: Any) -> Telegram:
        return Telegram(destination_address=IndividualAddress(CLIENT), tpci=tpci.TDataConnected(n & 0xF), payload=payload)

    def inject(self, src: str, telegram: Telegram, via_cemi: bool = True, **meta: Any) -> dict[str, Any]:
        """Deliver one frame now; returns its log record (with 'raised' if the receive path raised)."""
        telegram.source_address = IndividualAddress(src)
        rec: dict[str, Any] = {"i": len(self.log), "t": round(self.loop.time(), 6), "tick": self.loop.tick, **describe(telegram), **meta, "raised": None}
        self.log.append(rec)
        try:
            if via_cemi:
                self.h.inject_ind(telegram, src=src)
            else:
                from xknx.telegram import TelegramDirection

                telegram.direction = TelegramDirection.INCOMING
                self.h.xknx.management.process(telegram)
        except Exception as e:  # noqa: BLE001 - observation, judged by the check
            rec["raised"] = e
        return rec
