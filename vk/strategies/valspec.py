"""Value specs for the "value offered for sending" checks (C11, C45).

A *spec* is a JSON-native description of a Python value, so that a generated case can be
stored in a replay file and rebuilt exactly:

    JSON natives (None, bool, int, finite float, str)  -> themselves
    list                                               -> list of materialised items
    {"$": "f", "v": "inf" | "-inf" | "nan"}            -> non-finite float
    {"$": "b", "hex": "..."}                           -> bytes
    {"$": "t", "v": [...]}                             -> tuple
    {"$": "d", "v": {...}}                             -> dict (mapping)
    {"$": "e", "c": "<EnumClass>", "n": "<MEMBER>"}    -> enum member
    {"$": "o", "c": "<DataClass>", "k": {...}}         -> dataclass instance built with keywords
    {"$": "time" | "date" | "datetime", "v": [...]}    -> datetime.time / date / datetime
    {"$": "opaque"}                                    -> object()

`mat(spec)` builds the value (raises `Unbuildable` when the constructor itself refuses the
arguments - such a case never reaches the code under test).  `kind(spec)` is a coarse type label.

The module also holds the per-DPT boundary grids and Hypothesis strategies (as specs) used to
offer values across and beyond each type's range.
"""

from __future__ import annotations

import datetime
import enum
import math
import typing
from typing import Any

from hypothesis import strategies as st

import xknx.dpt as _dpt_pkg
from xknx.dpt import DPTBase, DPTComplex, DPTEnum, DPTNumeric, DPTString
from xknx.dpt.dpt import DPTComplexData


class Unbuildable(Exception):
    """The value described by a spec cannot be constructed at all."""


# --------------------------------------------------------------------------- registries

_ENUMS: dict[str, type[enum.Enum]] = {}
_DATA: dict[str, type] = {}


def _collect() -> None:
    import importlib
    import pkgutil

    for m in pkgutil.iter_modules(_dpt_pkg.__path__):
        if m.name.startswith("dpt"):
            mod = importlib.import_module(f"xknx.dpt.{m.name}")
            for name, obj in vars(mod).items():
                if isinstance(obj, type):
                    if issubclass(obj, enum.Enum) and len(obj) > 0:
                        _ENUMS.setdefault(name, obj)
                    elif issubclass(obj, DPTComplexData) and obj is not DPTComplexData:
                        _DATA.setdefault(name, obj)
    from xknx.remote_value import RemoteValueStep, RemoteValueUpDown
    from xknx.remote_value.remote_value_setpoint_shift import SetpointShiftMode

    _ENUMS["RemoteValueStep.Direction"] = RemoteValueStep.Direction
    _ENUMS["RemoteValueUpDown.Direction"] = RemoteValueUpDown.Direction
    _ENUMS["SetpointShiftMode"] = SetpointShiftMode


_collect()


def enum_spec(member: enum.Enum) -> dict:
    cls = type(member)
    name = cls.__qualname__ if cls.__qualname__ in _ENUMS else cls.__name__
    if name not in _ENUMS:
        _ENUMS[name] = cls
    return {"$": "e", "c": name, "n": member.name}


def F(x: float) -> Any:
    """Spec of a float (tags the non-finite ones)."""
    if isinstance(x, float) and (math.isnan(x) or math.isinf(x)):
        return {"$": "f", "v": "nan" if math.isnan(x) else ("inf" if x > 0 else "-inf")}
    return x


INF = F(float("inf"))
NINF = F(float("-inf"))
NAN = F(float("nan"))


def T(*items: Any) -> dict:
    return {"$": "t", "v": list(items)}


def D(**items: Any) -> dict:
    return {"$": "d", "v": dict(items)}


def B(raw: bytes) -> dict:
    return {"$": "b", "hex": bytes(raw).hex()}


def O(cls: str, **kw: Any) -> dict:
    return {"$": "o", "c": cls, "k": dict(kw)}


OPAQUE = {"$": "opaque"}


def mat(spec: Any) -> Any:
    """Materialise a spec."""
    if spec is None or isinstance(spec, (bool, int, float, str)):
        return spec
    if isinstance(spec, (list, tuple)):
        return [mat(x) for x in spec]
    if isinstance(spec, bytes):  # the runner turns {"hex":..} into bytes; accept that form too
        return spec
    if isinstance(spec, dict):
        tag = spec.get("$")
        try:
            if tag == "f":
                return float(spec["v"])
            if tag == "b":
                return bytes.fromhex(spec["hex"])
            if tag == "t":
                return tuple(mat(x) for x in spec["v"])
            if tag == "d":
                return {k: mat(v) for k, v in spec["v"].items()}
            if tag == "e":
                return _ENUMS[spec["c"]][spec["n"]]
            if tag == "o":
                return _DATA[spec["c"]](**{k: mat(v) for k, v in spec["k"].items()})
            if tag == "time":
                return datetime.time(*spec["v"])
            if tag == "date":
                return datetime.date(*spec["v"])
            if tag == "datetime":
                return datetime.datetime(*spec["v"])
            if tag == "opaque":
                return object()
        except Unbuildable:
            raise
        except Exception as e:  # noqa: BLE001 - constructor refused
            raise Unbuildable(f"{type(e).__name__}: {e}") from e
        raise Unbuildable(f"unknown spec tag {tag!r}")
    raise Unbuildable(f"not a spec: {type(spec).__name__}")


def kind(spec: Any) -> str:
    if spec is None:
        return "none"
    if isinstance(spec, bool):
        return "bool"
    if isinstance(spec, int):
        return "int"
    if isinstance(spec, float):
        return "float"
    if isinstance(spec, str):
        return "str"
    if isinstance(spec, (list, tuple)):
        return "list"
    if isinstance(spec, bytes):
        return "bytes"
    if isinstance(spec, dict):
        tag = spec.get("$")
        return {"f": "sfloat", "b": "bytes", "t": "tuple", "d": "dict", "e": "enum", "o": "obj"}.get(tag, str(tag))
    return "?"


def is_number(spec: Any) -> bool:
    """int / float (also non-finite) / bool: type-correct for any numeric parameter."""
    return kind(spec) in ("bool", "int", "float", "sfloat")


def is_real_number(spec: Any) -> bool:
    return kind(spec) in ("int", "float", "sfloat")


# --------------------------------------------------------------------------- generic wide values

_INTS = [0, 1, -1, 2, 7, 8, 63, 64, 100, 101, 127, 128, 150, 254, 255, 256, 257, 300, 382, 1000, -5, -128, -129, 32767, 32768,
         65535, 65536, 655350, 2**31 - 1, 2**31, 2**32 - 1, 2**32, 2**63 - 1, 2**63, 2**64, -(2**31), -(2**31) - 1, -(2**63) - 1, 10**30]
_FLOATS = [0.5, -0.5, 0.004, 1.5, 63.5, 99.9, 100.4, 100.6, 254.6, 255.4, 255.6, -0.4, -0.6, 1e10, -1e10, 3.5e38, 1e308, -1e308, 5e-324]

GENERIC_GRID: list[Any] = (
    [None, True, False]
    + _INTS
    + _FLOATS
    + [INF, NINF, NAN]
    + ["", "1", "21.5", "on", "abc", "-1", "300", "ä" * 20, "A" * 14, "A" * 15, "nan", "inf"]
    + [B(b""), B(b"\x01"), B(b"\x01\x02"), B(b"\xff" * 14), B(bytes(253)), B(bytes(254)), B(bytes(300))]
    + [[], [0], [1], [255], [256], [300], [-1], [1, 2], [1, 2, 3], [0] * 14, [0] * 253, [0] * 254, [1.0], [1.5], [None], ["1"], [True], [1, [2]], [[1]], [INF]]
    + [T(), T(0), T(1), T(300), T(-1), T(1, 2), T(1, 2, 3), T(300, 1, 1), T(1, 1, -1), T(10, 20, 300, 5), T(1.5, 2, 3), T(1, T(2))]
    + [D(), D(a=1), D(value=1), [D()], OPAQUE]
    + [{"$": "time", "v": [1, 2, 3]}, {"$": "date", "v": [2024, 2, 29]}, {"$": "datetime", "v": [2024, 2, 29, 1, 2, 3]}]
)


_SPECIAL = [INF, NINF, NAN]


def _mk_number(t: tuple) -> Any:
    """Cheap number generator: a few primitive draws, arithmetic here (nested one_of / flatmap
    strategies cost ~1 ms per draw, which dominated the run)."""
    mode, small, k, f = t
    if mode == 0:
        return small
    if mode == 1:
        return 2**k
    if mode == 2:
        return 2**k - 1
    if mode == 3:
        return -(2**k)
    if mode == 4:
        return small + (0.5, 0.4, 0.6, -0.4)[k % 4]
    if mode == 5:
        return F(f)
    if mode == 6:
        return _FLOATS[small % len(_FLOATS)]
    if mode == 7:
        return _INTS[small % len(_INTS)]
    if mode == 8:
        return _SPECIAL[small % 3]
    if mode == 9:
        return bool(small % 2)
    if mode == 10:
        return small * 2**k
    return F(f % 1000.0 - 300.0) if f == f else small


def numbers_strategy() -> st.SearchStrategy:
    return st.tuples(st.integers(0, 11), st.integers(-300, 300), st.integers(0, 70), st.floats(allow_nan=False, allow_infinity=False)).map(_mk_number)


def _ints_strategy() -> st.SearchStrategy:
    return st.tuples(st.sampled_from([0, 0, 1, 2, 3, 7, 10]), st.integers(-300, 300), st.integers(0, 70), st.just(0.0)).map(_mk_number)


def scalar_strategy() -> st.SearchStrategy:
    return st.one_of(
        numbers_strategy(),
        st.none(),
        st.text(max_size=20),
        st.sampled_from(["1", "21.5", "on", "off", "-1", "300", "nan", "inf", "1e3", " 5 ", "0x10", "auto", "comfort"]),
    )


def generic_strategy() -> st.SearchStrategy:
    """Wide, type-agnostic values: scalars, byte strings, (nested) sequences, mappings."""
    scal = scalar_strategy()
    seq_items = st.one_of(st.integers(0, 255), _ints_strategy(), scal)
    seqs = st.lists(seq_items, max_size=6)
    long_seqs = st.sampled_from([252, 253, 254, 255, 300]).map(lambda n: [0] * n)
    nested = st.lists(st.one_of(seq_items, seqs), max_size=4)
    byts = st.one_of(st.binary(max_size=16), st.sampled_from([252, 253, 254, 255, 300]).map(bytes)).map(B)
    maps = st.dictionaries(st.sampled_from(["a", "value", "red", "control", "x"]), scal, max_size=3).map(lambda d: D(**d))
    return st.one_of(
        scal,
        scal,
        seqs,
        seqs.map(lambda xs: T(*xs)),
        long_seqs,
        nested,
        byts,
        maps,
        st.just(OPAQUE),
        st.sampled_from(GENERIC_GRID),
    )


# --------------------------------------------------------------------------- DPT families


def all_dpts() -> list[type[DPTBase]]:
    seen: dict[type, None] = {}
    for c in DPTBase.dpt_class_tree():
        seen.setdefault(c, None)
    return list(seen)


def dpt_by_name(name: str) -> type[DPTBase]:
    for c in all_dpts():
        if c.__name__ == name:
            return c
    raise KeyError(name)


def family(dpt: type[DPTBase]) -> str:
    if issubclass(dpt, DPTNumeric):
        return "numeric"
    if issubclass(dpt, DPTEnum):
        return "enum"
    if issubclass(dpt, DPTComplex):
        return "complex"
    if issubclass(dpt, DPTString):
        return "string"
    return "other"


def _num(x: float) -> Any:
    """ints stay ints; floats that are whole become ints only when exact."""
    return F(x)


_F32_MAX = 3.4028234663852886e38


def _finite_bounds(lo: float, hi: float) -> tuple[float, float]:
    """Types declaring an infinite range (IEEE float payloads) are generated around float32 limits."""
    if isinstance(lo, float) and math.isinf(lo):
        lo = -_F32_MAX
    if isinstance(hi, float) and math.isinf(hi):
        hi = _F32_MAX
    return lo, hi


def numeric_grid(lo: float, hi: float, res: float) -> list[Any]:
    """Boundary values of a numeric range [lo, hi] with step res."""
    lo, hi = _finite_bounds(lo, hi)
    out: list[Any] = []
    mid = lo + (hi - lo) / 2
    if isinstance(lo, int) and isinstance(hi, int):
        mid = (lo + hi) // 2
    for base, sign in ((lo, -1), (hi, +1)):
        out += [base, base + sign * res, base + sign * 2 * res, base + sign * 1, base + sign * 0.4 * res, base + sign * 0.6 * res,
                base - sign * res, base + sign * 1000 * res, base * 2 if base else sign * 2, base * 10 if base else sign * 10]
    out += [mid, mid + res / 2, mid + 0.3 * res, 0, 1, -1, float(lo), float(hi)]
    seen = []
    for v in out:
        s = _num(v)
        if s not in seen:
            seen.append(s)
    return seen


def numeric_strategy(lo: float, hi: float, res: float) -> st.SearchStrategy:
    lo, hi = _finite_bounds(lo, hi)
    span = hi - lo
    inside = st.one_of(
        st.floats(min_value=float(lo), max_value=float(hi), allow_nan=False),
        st.integers(math.ceil(lo), math.floor(hi)) if math.ceil(lo) <= math.floor(hi) else st.just(lo),
    )
    near = st.sampled_from([lo, hi]).flatmap(
        lambda b: st.one_of(
            st.integers(-5, 5).map(lambda k: b + k * res),
            st.floats(-3, 3, allow_nan=False).map(lambda k: b + k * res),
            st.integers(-3, 3).map(lambda k: b + k),
        )
    )
    beyond = st.one_of(
        st.floats(allow_nan=False, allow_infinity=False).filter(lambda v: v < lo or v > hi),
        st.floats(1.0, 20.0).map(lambda k: hi + k * (span or 1)),
        st.floats(1.0, 20.0).map(lambda k: lo - k * (span or 1)),
        st.sampled_from([INF, NINF, NAN]),
        _ints_strategy(),
    )
    return st.one_of(inside, near, near, beyond).map(_num)


def dpt_range(dpt: type[DPTBase]) -> tuple[float, float, float] | None:
    if issubclass(dpt, DPTNumeric):
        return (dpt.value_min, dpt.value_max, dpt.resolution)
    return None


def _enum_of(dpt: type[DPTEnum]) -> type[enum.Enum]:
    return dpt.data_type


def enum_grid(dpt: type[DPTEnum]) -> list[Any]:
    et = _enum_of(dpt)
    out: list[Any] = []
    raws = [m.value for m in et if isinstance(m.value, int)]
    for m in et:
        out += [enum_spec(m), m.name.lower(), m.name, m.value]
    hi = max(raws) if raws else 0
    out += [hi + 1, -1, 63, 64, 255, 256, 2**31, "nope", "", True, False, None, 0.0, 1.5, INF, [0], D(value=0)]
    # a member of a *different* enum
    for other in _ENUMS.values():
        if other is not et:
            out.append(enum_spec(next(iter(other))))
            break
    seen = []
    for v in out:
        if v not in seen:
            seen.append(v)
    return seen


def enum_strategy(dpt: type[DPTEnum]) -> st.SearchStrategy:
    et = _enum_of(dpt)
    members = list(et)
    return st.one_of(
        st.sampled_from(members).map(enum_spec),
        st.sampled_from(members).map(lambda m: m.name.lower()),
        st.sampled_from(members).map(lambda m: m.name),
        st.sampled_from(members).map(lambda m: m.value),
        st.integers(-3, 300),
        st.text(max_size=8),
        st.sampled_from(sorted(_ENUMS)).flatmap(lambda n: st.sampled_from(list(_ENUMS[n])).map(enum_spec)),
    )


# ---- complex -------------------------------------------------------------------


def _field_enums(data_type: type) -> dict[str, type[enum.Enum]]:
    out: dict[str, type[enum.Enum]] = {}
    schema_cls = getattr(data_type, "_dict_schema_fields_class", None) or data_type
    try:
        hints = typing.get_type_hints(schema_cls)
    except Exception:  # noqa: BLE001
        return out
    for name, hint in hints.items():
        cands = [hint, *typing.get_args(hint)]
        for c in cands:
            if isinstance(c, type) and issubclass(c, enum.Enum):
                out[name] = c
    return out


def _field_valid(f: dict, enums: dict[str, type[enum.Enum]], as_obj: bool) -> list[Any]:
    t = f["type"]
    if t == "boolean":
        return [True, False]
    if t == "enum":
        opts = f.get("options", [])
        et = enums.get(f["name"])
        if as_obj and et is not None:
            return [enum_spec(m) for m in et]
        return list(opts)
    if t in ("integer", "float"):
        lo = f.get("value_min", 0)
        hi = f.get("value_max", 255)
        mid = (lo + hi) // 2 if t == "integer" else (lo + hi) / 2
        vals = [lo, hi, mid]
        if t == "integer" and hi - lo >= 3:
            vals += [lo + 1, hi - 1]
        return vals
    if t == "string":
        return ["", "a"]
    return [None]


def _field_bad(f: dict) -> list[Any]:
    t = f["type"]
    bad: list[Any] = [None, "x", "1", [1], D(a=1), INF, NAN, -1, 256, 2**31, 2**64, 1.5, True]
    if t in ("integer", "float"):
        lo = f.get("value_min", 0)
        hi = f.get("value_max", 255)
        res = f.get("resolution", 1)
        bad += [lo - 1, hi + 1, lo - res, hi + res, F(lo - 0.4 * res), F(hi + 0.4 * res), F(hi + 0.6 * res), hi * 2 + 1, F(float(hi)), F(lo + 0.5)]
    if t == "enum":
        bad += ["nope", "", 0, 1, 7]
    if t == "boolean":
        bad += [0, 1, 2, "true", "on"]
    return bad


def complex_schema(dpt: type[DPTComplex]) -> list[dict]:
    return [dict(f) for f in dpt.get_dict_schema()]


def complex_grid(dpt: type[DPTComplex]) -> list[Any]:
    """Dict-form and object-form values: a valid baseline, every valid field value, every
    field perturbed out of range / to a wrong type, missing and extra keys."""
    schema = complex_schema(dpt)
    enums = _field_enums(dpt.data_type)
    cname = dpt.data_type.__name__
    out: list[Any] = []
    for as_obj in (False, True):
        wrap = (lambda kw: O(cname, **kw)) if as_obj else (lambda kw: D(**kw))
        base = {f["name"]: _field_valid(f, enums, as_obj)[0] for f in schema}
        out.append(wrap(base))
        for f in schema:
            for v in _field_valid(f, enums, as_obj)[1:]:
                out.append(wrap({**base, f["name"]: v}))
            for v in _field_bad(f):
                out.append(wrap({**base, f["name"]: v}))
            if not as_obj:
                out.append(wrap({k: v for k, v in base.items() if k != f["name"]}))
        if not as_obj:
            out.append(wrap({**base, "unknown_key": 1}))
            out.append(wrap({f["name"]: None for f in schema}))
            only_req = {f["name"]: base[f["name"]] for f in schema if f["required"]}
            out.append(wrap(only_req))
    # positional-ish shapes a caller might try
    out += [T(*[base[f["name"]] for f in schema]), [base[f["name"]] for f in schema], 0, 1, 255, "x", None, True]
    return out


def complex_strategy(dpt: type[DPTComplex]) -> st.SearchStrategy:
    schema = complex_schema(dpt)
    enums = _field_enums(dpt.data_type)
    cname = dpt.data_type.__name__

    def field_strategy(f: dict, as_obj: bool) -> st.SearchStrategy:
        valid = st.sampled_from(_field_valid(f, enums, as_obj))
        if f["type"] in ("integer", "float"):
            lo, hi, res = f.get("value_min", 0), f.get("value_max", 255), f.get("resolution", 1)
            valid = st.one_of(valid, numeric_strategy(lo, hi, res))
            if f["type"] == "integer":
                valid = st.one_of(valid, st.integers(int(lo), int(hi)))
        return st.one_of(valid, valid, valid, st.sampled_from(_field_bad(f)), scalar_strategy())

    def build(as_obj: bool) -> st.SearchStrategy:
        fields = {f["name"]: field_strategy(f, as_obj) for f in schema}
        full = st.fixed_dictionaries(fields)
        if as_obj:
            return full.map(lambda kw: O(cname, **kw))
        optional = [f["name"] for f in schema]
        partial = st.tuples(full, st.sets(st.sampled_from(optional), max_size=2)).map(lambda t: {k: v for k, v in t[0].items() if k not in t[1]})
        return st.one_of(full, full, partial).map(lambda kw: D(**kw))

    return st.one_of(build(False), build(True))


STRING_GRID: list[Any] = ["", "a", "A" * 13, "A" * 14, "A" * 15, "A" * 100, "ä" * 14, "ä" * 7, "€uro", "\x00", "a\x00b", "😀" * 4, "😀" * 14, "ÿ" * 14, "Ā", " ", "\n",
                          0, 1, -1, 1.5, None, True, [1], D(a=1), B(b"abc"), INF]


def string_strategy() -> st.SearchStrategy:
    return st.one_of(
        st.text(max_size=16),
        st.text(alphabet=st.characters(max_codepoint=255), max_size=16),
        st.text(alphabet=st.characters(min_codepoint=32, max_codepoint=126), min_size=12, max_size=16),
        st.sampled_from(STRING_GRID),
    )


def dpt_grid(dpt: type[DPTBase]) -> list[Any]:
    """Deterministic boundary values (specs) for one DPT class."""
    fam = family(dpt)
    if fam == "numeric":
        return numeric_grid(dpt.value_min, dpt.value_max, dpt.resolution)
    if fam == "enum":
        return enum_grid(dpt)  # type: ignore[arg-type]
    if fam == "complex":
        return complex_grid(dpt)  # type: ignore[arg-type]
    if fam == "string":
        return list(STRING_GRID)
    return []


def dpt_strategy(dpt: type[DPTBase]) -> st.SearchStrategy:
    fam = family(dpt)
    if fam == "numeric":
        return numeric_strategy(dpt.value_min, dpt.value_max, dpt.resolution)
    if fam == "enum":
        return enum_strategy(dpt)  # type: ignore[arg-type]
    if fam == "complex":
        return complex_strategy(dpt)  # type: ignore[arg-type]
    if fam == "string":
        return string_strategy()
    return generic_strategy()


def dpt_native(dpt: type[DPTBase], spec: Any) -> bool:
    """Is the spec of a type a caller of this DPT's encoder may legitimately pass
    (numbers for numeric types; member / name / raw int for enums; mapping or the type's own
    data class for complex types; str for text types)?  Says nothing about the range."""
    fam = family(dpt)
    k = kind(spec)
    if fam == "numeric":
        return k in ("bool", "int", "float", "sfloat")
    if fam == "enum":
        return k in ("int", "str", "bool") or (k == "enum" and _ENUMS.get(spec["c"]) is dpt.data_type)  # type: ignore[attr-defined]
    if fam == "complex":
        return k == "dict" or (k == "obj" and _DATA.get(spec["c"]) is dpt.data_type)  # type: ignore[attr-defined]
    if fam == "string":
        return k == "str"
    return False


# --------------------------------------------------------------------------- value programs
#
# One static Hypothesis strategy for *all* targets: a "program" is target-agnostic data that a
# target resolves against its own range / schema / grid into a value spec.  (A strategy per
# target - 1000+ of them - costs tens of milliseconds each to build and validate.)


def _num_program() -> st.SearchStrategy:
    return st.tuples(
        st.sampled_from(["in", "in-int", "lo", "hi", "lo-frac", "hi-frac", "below", "above", "abs"]),
        st.integers(-6, 6),
        st.floats(0, 1, allow_nan=False),
        numbers_strategy(),
    )


def raw_strategy() -> st.SearchStrategy:
    """Values for the helpers called without a DPT: 6-bit ints, byte lists / tuples / bytes."""
    return st.one_of(
        st.integers(-2, 70),
        st.lists(st.integers(0, 255), max_size=16),
        st.lists(st.integers(0, 255), max_size=16).map(lambda xs: T(*xs)),
        st.lists(st.integers(-3, 300), max_size=6),
        st.binary(max_size=16).map(B),
        st.integers(250, 260).map(lambda n: [0] * n),
    )


def datetime_strategy() -> st.SearchStrategy:
    return st.one_of(
        st.times().map(lambda t: {"$": "time", "v": [t.hour, t.minute, t.second, t.microsecond]}),
        st.dates().map(lambda d: {"$": "date", "v": [d.year, d.month, d.day]}),
        st.datetimes().map(lambda d: {"$": "datetime", "v": [d.year, d.month, d.day, d.hour, d.minute, d.second]}),
    )


def program_strategy() -> st.SearchStrategy:
    num = _num_program()
    scal = scalar_strategy()
    field_mod = st.tuples(st.integers(0, 15), st.sampled_from(["valid", "bad", "num", "scalar"]), st.integers(0, 40), num, scal)
    return st.one_of(
        st.tuples(st.just("generic"), generic_strategy()),
        st.tuples(st.just("grid"), st.integers(0, 2000)),
        st.tuples(st.just("num"), num),
        st.tuples(st.just("num"), num),
        st.tuples(st.just("fields"), st.booleans(), st.integers(0, 7), st.lists(field_mod, max_size=3), st.lists(st.integers(0, 15), max_size=2)),
        st.tuples(st.just("seq"), st.lists(num, min_size=4, max_size=4), st.booleans()),
        st.tuples(st.just("text"), string_strategy()),
        st.tuples(st.just("special"), st.just("raw"), raw_strategy()),
        st.tuples(st.just("special"), st.just("datetime"), datetime_strategy()),
    )


def resolve_num(prog: tuple, rng: tuple[float, float, float] | None) -> Any:
    where, k, frac, absolute = prog
    if rng is None or where == "abs":
        return _num(absolute) if not isinstance(absolute, dict) else absolute
    lo, hi, res = rng
    lo, hi = _finite_bounds(lo, hi)
    span = (hi - lo) or 1
    if where == "in":
        v = lo + frac * (hi - lo)
    elif where == "in-int":
        v = round(lo + frac * (hi - lo))
    elif where == "lo":
        v = lo + k * res
    elif where == "hi":
        v = hi + k * res
    elif where == "lo-frac":
        v = lo + (k + frac) * res
    elif where == "hi-frac":
        v = hi + (k + frac) * res
    elif where == "below":
        v = lo - (1 + 20 * frac) * span
    else:
        v = hi + (1 + 20 * frac) * span
    if isinstance(v, float) and v.is_integer() and abs(v) < 2**53 and k % 2 == 0:
        v = int(v)
    return _num(v)


_SCHEMA_CACHE: dict[type, tuple[list[dict], dict, str]] = {}


def _schema_of(dpt: type[DPTComplex]) -> tuple[list[dict], dict, str]:
    if dpt not in _SCHEMA_CACHE:
        _SCHEMA_CACHE[dpt] = (complex_schema(dpt), _field_enums(dpt.data_type), dpt.data_type.__name__)
    return _SCHEMA_CACHE[dpt]


def resolve_fields(prog: tuple, dpt: type[DPTComplex]) -> Any:
    """('fields', as_obj, base_pick, [(fpos, mode, a, numprog, scalar)], drops) -> dict / object spec."""
    _, as_obj, base_pick, mods, drops = prog
    schema, enums, cname = _schema_of(dpt)
    kw: dict[str, Any] = {}
    for i, f in enumerate(schema):
        valid = _field_valid(f, enums, as_obj)
        kw[f["name"]] = valid[(base_pick + i) % len(valid)]
    for fpos, mode, a, numprog, scalar in mods:
        f = schema[fpos % len(schema)]
        if mode == "valid":
            valid = _field_valid(f, enums, as_obj)
            kw[f["name"]] = valid[a % len(valid)]
        elif mode == "bad":
            bad = _field_bad(f)
            kw[f["name"]] = bad[a % len(bad)]
        elif mode == "num":
            rng = (f.get("value_min", 0), f.get("value_max", 255), f.get("resolution", 1)) if f["type"] in ("integer", "float") else (0, 1, 1)
            kw[f["name"]] = resolve_num(numprog, rng)
        else:
            kw[f["name"]] = scalar
    if as_obj:
        return O(cname, **kw)
    for dpos in drops:
        kw.pop(schema[dpos % len(schema)]["name"], None)
    return D(**kw)
