"""Plain KNXnet/IP frames of every service type (inputs for C29 / C30 histories).

Valid frames are *built* with the xknx encoders (inputs only, never verdicts); services
without a body class in xknx and unknown service codes are written by hand.
`catalogue()` maps a stable name to `(service_code, frame_bytes, parseable)`.
"""

from __future__ import annotations

from functools import lru_cache

DISCOVERY_SERVICES = (0x0201, 0x0202, 0x0203, 0x0204, 0x020B, 0x020C)  # search / description (Core 03.08.02 §7.6-7.7)
FORBIDDEN_WRAPPED = (0x0950, 0x0740, 0x0741, 0x0742, 0x0743)  # KNX IP Secure 03.08.09 §2.2.1.2.2.2, §2.2.1.4.7


def _hand(service: int, body: bytes) -> bytes:
    return b"\x06\x10" + service.to_bytes(2, "big") + (6 + len(body)).to_bytes(2, "big") + body


def cemi_ind(i: int = 0) -> bytes:
    """L_Data.ind GroupValueWrite from 1.1.9 to 1/1/<i> (by hand)."""
    return bytes((0x29, 0x00, 0xBC, 0xE0, 0x11, 0x09, 0x09, i & 0xFF, 0x02, 0x00, 0x80 | (i & 0x3F)))


@lru_cache(maxsize=1)
def catalogue() -> dict[str, tuple[int, bytes, bool]]:
    from xknx.knxip import (
        HPAI,
        ConnectionStateRequest,
        ConnectionStateResponse,
        ConnectRequest,
        ConnectRequestType,
        ConnectResponse,
        ConnectResponseData,
        DescriptionRequest,
        DescriptionResponse,
        DeviceConfigurationAck,
        DeviceConfigurationRequest,
        DisconnectRequest,
        DisconnectResponse,
        KNXIPFrame,
        RoutingBusy,
        RoutingIndication,
        RoutingLostMessage,
        SearchRequest,
        SearchRequestExtended,
        SearchResponse,
        SearchResponseExtended,
        SessionAuthenticate,
        SessionRequest,
        SessionResponse,
        SessionStatus,
        TunnellingAck,
        TunnellingFeatureGet,
        TunnellingRequest,
    )
    from xknx.knxip.knxip_enum import SecureSessionStatusCode
    from xknx.telegram import IndividualAddress

    hp = HPAI("10.0.0.1", 3671)
    bodies = {
        "search_request": SearchRequest(discovery_endpoint=hp),
        "search_response": SearchResponse(control_endpoint=hp),
        "description_request": DescriptionRequest(control_endpoint=hp),
        "description_response": DescriptionResponse(),
        "search_request_extended": SearchRequestExtended(discovery_endpoint=hp),
        "search_response_extended": SearchResponseExtended(control_endpoint=hp),
        "connect_request": ConnectRequest(),
        "connect_response": ConnectResponse(
            communication_channel=1,
            data_endpoint=hp,
            crd=ConnectResponseData(request_type=ConnectRequestType.TUNNEL_CONNECTION, individual_address=IndividualAddress("1.1.7")),
        ),
        "connectionstate_request": ConnectionStateRequest(communication_channel_id=1),
        "connectionstate_response": ConnectionStateResponse(communication_channel_id=1),
        "disconnect_request": DisconnectRequest(communication_channel_id=1),
        "disconnect_response": DisconnectResponse(communication_channel_id=1),
        "device_configuration_request": DeviceConfigurationRequest(communication_channel_id=1, sequence_counter=0, raw_cemi=bytes.fromhex("fc000b015301")),
        "device_configuration_ack": DeviceConfigurationAck(communication_channel_id=1, sequence_counter=0),
        "tunnelling_request": TunnellingRequest(communication_channel_id=1, sequence_counter=0, raw_cemi=cemi_ind(1)),
        "tunnelling_ack": TunnellingAck(communication_channel_id=1, sequence_counter=0),
        "tunnelling_feature_get": TunnellingFeatureGet(communication_channel_id=1, sequence_counter=0),
        "routing_indication": RoutingIndication(raw_cemi=cemi_ind(2)),
        "routing_lost_message": RoutingLostMessage(lost_messages=3),
        "routing_busy": RoutingBusy(wait_time=50),
        "session_request": SessionRequest(ecdh_client_public_key=bytes(range(32))),
        "session_response": SessionResponse(secure_session_id=1, ecdh_server_public_key=bytes(range(32)), message_authentication_code=bytes(16)),
        "session_authenticate": SessionAuthenticate(user_id=2, message_authentication_code=bytes(16)),
        "session_status_keepalive": SessionStatus(status=SecureSessionStatusCode.STATUS_KEEPALIVE),
        "session_status_close": SessionStatus(status=SecureSessionStatusCode.STATUS_CLOSE),
    }
    out: dict[str, tuple[int, bytes, bool]] = {}
    for name, body in bodies.items():
        raw = KNXIPFrame.init_from_body(body).to_knx()
        out[name] = (int.from_bytes(raw[2:4], "big"), raw, True)
    # by hand -----------------------------------------------------------------
    out["tunnelling_feature_response"] = (0x0423, _hand(0x0423, bytes.fromhex("0401000001000001")), True)
    out["tunnelling_feature_set"] = (0x0424, _hand(0x0424, bytes.fromhex("0401000008000001")), True)
    out["tunnelling_feature_info"] = (0x0425, _hand(0x0425, bytes.fromhex("0401000003000001")), True)
    out["timer_notify_zero_mac"] = (0x0955, _hand(0x0955, bytes(6) + bytes.fromhex("00fa12345678") + b"\xaf\xfe" + bytes(16)), True)
    out["secure_wrapper_garbage"] = (0x0950, _hand(0x0950, b"\x00\x00" + bytes(5) + b"\x09" + bytes.fromhex("00fa12345678affe") + bytes(8) + bytes(16)), True)
    out["routing_system_broadcast"] = (0x0533, _hand(0x0533, cemi_ind(3)), False)
    out["remote_diag_request"] = (0x0740, _hand(0x0740, bytes.fromhex("08010a0000010e57") + b"\x02\x01"), False)
    out["remote_diag_response"] = (0x0741, _hand(0x0741, b"\x02\x01\x00\x00"), False)
    out["remote_config_request"] = (0x0742, _hand(0x0742, bytes.fromhex("08010a0000010e57") + b"\x02\x01"), False)
    out["remote_reset_request"] = (0x0743, _hand(0x0743, b"\x02\x01\x00\x00"), False)
    out["unknown_service_0999"] = (0x0999, _hand(0x0999, b"\x01\x02\x03\x04"), False)
    out["object_server_f080"] = (0xF080, _hand(0xF080, b"\x01\x02"), False)
    return out


def selftest() -> None:
    """The catalogue covers every service code xknx knows; valid entries parse and re-serialise unchanged."""
    from xknx.exceptions import CouldNotParseKNXIP
    from xknx.knxip import KNXIPFrame
    from xknx.knxip.knxip_enum import KNXIPServiceType

    cat = catalogue()
    codes = {c for c, _, _ in cat.values()}
    missing = [s.name for s in KNXIPServiceType if s.value not in codes]
    assert not missing, f"catalogue misses service types {missing}"
    for name, (code, raw, ok) in cat.items():
        assert int.from_bytes(raw[4:6], "big") == len(raw), name
        try:
            f, rest = KNXIPFrame.from_knx(raw)
        except CouldNotParseKNXIP:
            assert not ok, f"{name} expected to parse"
            continue
        assert ok, f"{name} expected not to parse"
        assert rest == b"" and f.to_knx() == raw, f"{name} does not re-serialise unchanged"
