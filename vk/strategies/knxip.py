"""Hypothesis strategies and by-construction mutators for KNXnet/IP frames (C20, C21, C22).

Bodies are generated as *specs* - plain JSON-able dicts ``{"cls": "TunnellingAck", ...}``
(enum members as their integer codes, octet strings as bytes) - and turned into xknx
objects by ``build(spec)``. Specs make failing inputs replayable, let the oracle build
fresh, unshared instances (``to_knx`` of some classes mutates the object) and let it
build the *wire-normal* form (``build(spec, wire=True)``: odd-length variable data of
generic DIBs and tunnelling-feature values with their pad octet), which is what a
parser can possibly return.

Only field values that the specification allows on the wire are generated (sound
generator); the implicit preconditions of each class are listed next to its strategy.

The C20 part (``walk_marks`` + ``mutations``) works on serialised valid frames only and
does not import the parser: structure-length and enum-code octet positions are found by
walking the frame with the layouts of KNX 03_08_02 Core / 03_08_04 Tunnelling / AN159 /
AN184 written down here.
"""

from __future__ import annotations

from typing import Any, Iterator

from hypothesis import strategies as st

# ---------------------------------------------------------------------------
# code tables (independent of xknx enums; written from the specification)

SERVICE = {
    "SearchRequest": 0x0201,
    "SearchResponse": 0x0202,
    "DescriptionRequest": 0x0203,
    "DescriptionResponse": 0x0204,
    "ConnectRequest": 0x0205,
    "ConnectResponse": 0x0206,
    "ConnectionStateRequest": 0x0207,
    "ConnectionStateResponse": 0x0208,
    "DisconnectRequest": 0x0209,
    "DisconnectResponse": 0x020A,
    "SearchRequestExtended": 0x020B,
    "SearchResponseExtended": 0x020C,
    "DeviceConfigurationRequest": 0x0310,
    "DeviceConfigurationAck": 0x0311,
    "TunnellingRequest": 0x0420,
    "TunnellingAck": 0x0421,
    "TunnellingFeatureGet": 0x0422,
    "TunnellingFeatureResponse": 0x0423,
    "TunnellingFeatureSet": 0x0424,
    "TunnellingFeatureInfo": 0x0425,
    "RoutingIndication": 0x0530,
    "RoutingLostMessage": 0x0531,
    "RoutingBusy": 0x0532,
    "SecureWrapper": 0x0950,
    "SessionRequest": 0x0951,
    "SessionResponse": 0x0952,
    "SessionAuthenticate": 0x0953,
    "SessionStatus": 0x0954,
    "TimerNotify": 0x0955,
}
SERVICE_BY_CODE = {v: k for k, v in SERVICE.items()}
# defined by the specification but without a body class in xknx
UNIMPLEMENTED_SERVICES = (0x0533, 0x0740, 0x0741, 0x0742, 0x0743)
KNOWN_SERVICE_CODES = frozenset(SERVICE.values()) | frozenset(UNIMPLEMENTED_SERVICES)

ERROR_CODES = (0x00, 0x01, 0x02, 0x04, 0x0F, 0x21, 0x22, 0x23, 0x24, 0x25, 0x26, 0x27, 0x28, 0x29, 0x2D, 0x2E)
CONNECTION_TYPES = (0x03, 0x04, 0x06, 0x07, 0x08)
TUNNEL_CONNECTION = 0x04
TUNNEL_LAYERS = (0x02, 0x04, 0x80)
HOST_PROTOCOLS = (0x01, 0x02)
KNX_MEDIA = (0x02, 0x04, 0x10, 0x20)
SERVICE_FAMILIES = (0x02, 0x03, 0x04, 0x05, 0x06, 0x07, 0x08, 0x09)
DIB_TYPES = (0x01, 0x02, 0x03, 0x04, 0x05, 0x06, 0x07, 0x08, 0xFE)
DIB_GENERIC_TYPES = (0x03, 0x04, 0x05, 0x08, 0xFE)  # known codes without a dedicated class
SESSION_STATUS = (0x00, 0x01, 0x02, 0x03, 0x04, 0x05)
SRP_INVALID, SRP_PROG_MODE, SRP_MAC, SRP_SERVICE, SRP_DIBS = 0, 1, 2, 3, 4
FEATURE_TYPES = (0x01, 0x02, 0x03, 0x04, 0x05, 0x06, 0x07, 0x08)
FEATURE_VALUE_LEN = {0x01: 2, 0x02: 2, 0x03: 1, 0x04: 2, 0x05: 1, 0x06: 2, 0x07: 2, 0x08: 1}
RETURN_CODES = (0x00, 0xF1, 0xF2, 0xF3, 0xF4, 0xF5, 0xF6, 0xF7, 0xF8, 0xF9, 0xFA, 0xFB, 0xFC, 0xFD, 0xFE, 0xFF)

# ---------------------------------------------------------------------------
# elementary strategies

u8 = st.integers(0, 255)
u16 = st.integers(0, 65535)


def octets(n: int) -> st.SearchStrategy[bytes]:
    return st.binary(min_size=n, max_size=n)


@st.composite
def ip_addrs(draw) -> str:
    kind = draw(st.integers(0, 5))
    if kind == 0:
        return "0.0.0.0"  # route back
    if kind == 1:
        return "224.0.23.12"
    if kind == 2:
        return "255.255.255.255"
    return ".".join(str(draw(u8)) for _ in range(4))


@st.composite
def hpais(draw) -> dict:
    return {"ip": draw(ip_addrs()), "port": draw(st.sampled_from((0, 3671, 65535)) | u16), "proto": draw(st.sampled_from(HOST_PROTOCOLS))}


@st.composite
def cris(draw) -> dict:
    ct = draw(st.sampled_from(CONNECTION_TYPES) | st.just(TUNNEL_CONNECTION))
    if ct == TUNNEL_CONNECTION:
        # individual_address None -> basic CRI (4 octets), else extended CRI (6 octets)
        return {"type": ct, "layer": draw(st.sampled_from(TUNNEL_LAYERS)), "ia": draw(st.none() | u16)}
    # layer / address are not on the wire for other connection types
    return {"type": ct}


@st.composite
def crds(draw) -> dict:
    rt = draw(st.sampled_from(CONNECTION_TYPES) | st.just(TUNNEL_CONNECTION))
    if rt == TUNNEL_CONNECTION:
        return {"type": rt, "ia": draw(u16)}  # tunnel CRD always carries the address
    return {"type": rt}


def _hexcolon(b: bytes) -> str:
    return b.hex(":")


# printable + upper half of ISO 8859-1 plus a few controls; device names are NUL padded on
# the wire, so a name cannot end in NUL (precondition of the 30 octet field)
_latin1 = st.characters(min_codepoint=1, max_codepoint=255)


@st.composite
def dib_device_infos(draw) -> dict:
    n = draw(st.sampled_from((0, 1, 29, 30)) | st.integers(0, 30))
    name = draw(st.text(_latin1, min_size=n, max_size=n))
    return {
        "dib": "device_info",
        "medium": draw(st.sampled_from(KNX_MEDIA)),
        "prog": draw(st.booleans()),
        "ia": draw(u16),
        "project": draw(st.integers(0, 4095)),
        "installation": draw(st.integers(0, 15)),
        "serial": _hexcolon(draw(octets(6))),
        "mcast": draw(ip_addrs()),
        "mac": _hexcolon(draw(octets(6))),
        "name": name,
    }


@st.composite
def dib_families(draw, secured: bool | None = None) -> dict:
    if secured is None:
        secured = draw(st.booleans())
    n = draw(st.sampled_from((0, 1, 126)) | st.integers(0, 8))  # 2 + 2n <= 254
    raw = draw(octets(2 * n))  # one cheap draw: family code index, version
    fams = [[SERVICE_FAMILIES[raw[2 * i] % len(SERVICE_FAMILIES)], raw[2 * i + 1]] for i in range(n)]
    return {"dib": "secured_families" if secured else "families", "families": fams}


@st.composite
def dib_tunneling_infos(draw) -> dict:
    n = draw(st.sampled_from((0, 1, 62)) | st.integers(0, 6))  # 4 + 4n <= 252
    base, stride = draw(u16), 2 * draw(st.integers(0, 500)) + 1  # odd stride: n distinct addresses mod 2^16
    status = draw(octets(n))  # status bits usable|authorized|free
    slots = [[(base + i * stride) & 0xFFFF, status[i] & 7] for i in range(n)]
    return {"dib": "tunneling_info", "apdu": draw(st.sampled_from((248, 0, 65535)) | u16), "slots": slots}


@st.composite
def dib_generics(draw) -> dict:
    # structure length octet: 2 + len + pad <= 254 ; odd data is padded with one 00h
    n = draw(st.sampled_from((0, 1, 2, 251, 252)) | st.integers(0, 40))
    return {"dib": "generic", "dtc": draw(st.sampled_from(DIB_GENERIC_TYPES)), "data": draw(octets(n))}


def dibs() -> st.SearchStrategy[dict]:
    return st.one_of(dib_device_infos(), dib_families(), dib_tunneling_infos(), dib_generics())


def dib_lists(max_size: int = 5) -> st.SearchStrategy[list]:
    return st.lists(dibs(), min_size=0, max_size=max_size)


@st.composite
def srps(draw) -> dict:
    t = draw(st.sampled_from((SRP_INVALID, SRP_PROG_MODE, SRP_MAC, SRP_SERVICE, SRP_DIBS)))
    m = draw(st.booleans())
    if t == SRP_MAC:
        data = draw(octets(6))
    elif t == SRP_SERVICE:
        data = bytes((draw(st.sampled_from(SERVICE_FAMILIES)), draw(u8)))
    elif t == SRP_DIBS:
        # 1..n description types; an odd count is completed with description type 0
        n = draw(st.sampled_from((1, 2, 3, 252)) | st.integers(1, 12))
        data = bytes(DIB_TYPES[b % len(DIB_TYPES)] for b in draw(octets(n)))
    else:
        data = b""  # no payload defined
    return {"type": t, "mandatory": m, "data": data}


def cemis(max_size: int = 250) -> st.SearchStrategy[bytes]:
    return st.binary(min_size=0, max_size=max_size)


# ---------------------------------------------------------------------------
# body specs, one strategy per body class


@st.composite
def _feature(draw, cls: str) -> dict:
    ft = draw(st.sampled_from(FEATURE_TYPES))
    spec: dict[str, Any] = {"cls": cls, "ch": draw(u8), "seq": draw(u8), "feature": ft}
    if cls == "TunnellingFeatureGet":
        return spec  # never carries a value
    n = draw(st.just(FEATURE_VALUE_LEN[ft]) | st.integers(1, 6))
    if cls == "TunnellingFeatureResponse":
        spec["status"] = draw(st.sampled_from(ERROR_CODES))
        rc = draw(st.just(0) | st.sampled_from(RETURN_CODES))
        spec["rc"] = rc
        if rc != 0 and draw(st.booleans()):
            n = 0  # value may be omitted with a negative return code
    spec["data"] = draw(octets(n))
    return spec


def body_strategy(cls: str) -> st.SearchStrategy[dict]:
    f = st.fixed_dictionaries
    j = st.just
    ec = st.sampled_from(ERROR_CODES)
    if cls == "SearchRequest":
        return f({"cls": j(cls), "hpai": hpais()})
    if cls == "SearchRequestExtended":
        return f({"cls": j(cls), "hpai": hpais(), "srps": st.lists(srps(), max_size=5)})
    if cls in ("SearchResponse", "SearchResponseExtended"):
        return f({"cls": j(cls), "hpai": hpais(), "dibs": dib_lists()})
    if cls == "DescriptionRequest":
        return f({"cls": j(cls), "hpai": hpais()})
    if cls == "DescriptionResponse":
        return f({"cls": j(cls), "dibs": dib_lists()})
    if cls == "ConnectRequest":
        return f({"cls": j(cls), "control": hpais(), "data": hpais(), "cri": cris()})
    if cls == "ConnectResponse":
        return f({"cls": j(cls), "ch": u8, "status": st.just(0) | ec, "hpai": hpais(), "crd": crds()})
    if cls in ("ConnectionStateRequest", "DisconnectRequest"):
        return f({"cls": j(cls), "ch": u8, "hpai": hpais()})
    if cls in ("ConnectionStateResponse", "DisconnectResponse"):
        return f({"cls": j(cls), "ch": u8, "status": ec})
    if cls in ("DeviceConfigurationRequest", "TunnellingRequest"):
        return f({"cls": j(cls), "ch": u8, "seq": u8, "cemi": cemis()})
    if cls in ("DeviceConfigurationAck", "TunnellingAck"):
        return f({"cls": j(cls), "ch": u8, "seq": u8, "status": ec})
    if cls.startswith("TunnellingFeature"):
        return _feature(cls)
    if cls == "RoutingIndication":
        return f({"cls": j(cls), "cemi": cemis()})
    if cls == "RoutingBusy":
        return f({"cls": j(cls), "state": u8, "wait": u16, "control": u16})
    if cls == "RoutingLostMessage":
        return f({"cls": j(cls), "state": u8, "lost": u16})
    if cls == "SecureWrapper":
        # encapsulated frame: at least a 6 octet header and a 2 octet body
        return f({"cls": j(cls), "session": u16, "seq": octets(6), "serial": octets(6), "tag": octets(2),
                  "data": st.binary(min_size=8, max_size=270), "mac": octets(16)})
    if cls == "SessionAuthenticate":
        return f({"cls": j(cls), "user": st.integers(1, 0x7F), "mac": octets(16)})
    if cls == "SessionRequest":
        return f({"cls": j(cls), "hpai": hpais(), "key": octets(32)})
    if cls == "SessionResponse":
        return f({"cls": j(cls), "session": st.integers(1, 65535), "key": octets(32), "mac": octets(16)})
    if cls == "SessionStatus":
        return f({"cls": j(cls), "status": st.sampled_from(SESSION_STATUS)})
    if cls == "TimerNotify":
        return f({"cls": j(cls), "timer": st.integers(0, 2**48 - 1) | st.sampled_from((0, 2**48 - 1)), "serial": octets(6), "tag": octets(2), "mac": octets(16)})
    raise KeyError(cls)


BODY_CLASSES = tuple(SERVICE)
VARIABLE_LENGTH_CLASSES = frozenset(
    ("SearchRequestExtended", "SearchResponse", "SearchResponseExtended", "DescriptionResponse", "ConnectRequest",
     "ConnectResponse", "DeviceConfigurationRequest", "TunnellingRequest", "TunnellingFeatureResponse",
     "TunnellingFeatureSet", "TunnellingFeatureInfo", "RoutingIndication", "SecureWrapper")
)


def body_specs(classes: tuple[str, ...] | None = None) -> st.SearchStrategy[dict]:
    """A body spec of any of the 29 body classes (uniform over classes)."""
    return st.sampled_from(classes or BODY_CLASSES).flatmap(body_strategy)


# ---------------------------------------------------------------------------
# spec -> xknx objects


def _ia(raw):
    from xknx.telegram import IndividualAddress

    return None if raw is None else IndividualAddress(raw)


def build_hpai(s: dict):
    from xknx.knxip import HPAI, HostProtocol

    return HPAI(s["ip"], s["port"], HostProtocol(s["proto"]))


def _pad(data: bytes, wire: bool) -> bytes:
    return data + b"\x00" if wire and len(data) % 2 else data


def build_dib(s: dict, wire: bool = False):
    from xknx.knxip import DIBDeviceInformation, DIBGeneric, DIBSecuredServiceFamilies, DIBServiceFamily, DIBSuppSVCFamilies, DIBTunnelingInfo, DIBTypeCode, KNXMedium
    from xknx.knxip.dib import TunnelingSlotStatus

    k = s["dib"]
    if k == "device_info":
        d = DIBDeviceInformation()
        d.knx_medium = KNXMedium(s["medium"])
        d.programming_mode = bool(s["prog"])
        d.individual_address = _ia(s["ia"])
        d.project_number = s["project"]
        d.installation_number = s["installation"]
        d.serial_number = s["serial"]
        d.multicast_address = s["mcast"]
        d.mac_address = s["mac"]
        d.name = s["name"]
        return d
    if k in ("families", "secured_families"):
        d = DIBSuppSVCFamilies() if k == "families" else DIBSecuredServiceFamilies()
        d.families = [DIBSuppSVCFamilies.Family(DIBServiceFamily(n), v) for n, v in s["families"]]
        return d
    if k == "tunneling_info":
        d = DIBTunnelingInfo({_ia(a): TunnelingSlotStatus(bool(b >> 2 & 1), bool(b >> 1 & 1), bool(b & 1)) for a, b in s["slots"]})
        d.max_apdu_length = s["apdu"]
        return d
    if k == "generic":
        d = DIBGeneric()
        d.dtc = DIBTypeCode(s["dtc"])
        d.data = _pad(bytes(s["data"]), wire)
        return d
    raise KeyError(k)


def build_srp(s: dict):
    from xknx.knxip import SRP, SearchRequestParameterType

    return SRP(SearchRequestParameterType(s["type"]), bool(s["mandatory"]), bytes(s["data"]))


def build(s: dict, wire: bool = False):
    """Build a fresh xknx body from a spec. wire=True: the form a parser can return
    (odd-length DIB / feature data carry their pad octet)."""
    import xknx.knxip as K
    from xknx.telegram.apci import ReturnCode

    cls = s["cls"]
    E = K.ErrorCode
    if cls == "SearchRequest":
        return K.SearchRequest(build_hpai(s["hpai"]))
    if cls == "SearchRequestExtended":
        return K.SearchRequestExtended(build_hpai(s["hpai"]), [build_srp(x) for x in s["srps"]])
    if cls in ("SearchResponse", "SearchResponseExtended"):
        b = getattr(K, cls)(build_hpai(s["hpai"]))
        b.dibs = [build_dib(d, wire) for d in s["dibs"]]
        return b
    if cls == "DescriptionRequest":
        return K.DescriptionRequest(build_hpai(s["hpai"]))
    if cls == "DescriptionResponse":
        b = K.DescriptionResponse()
        b.dibs = [build_dib(d, wire) for d in s["dibs"]]
        return b
    if cls == "ConnectRequest":
        c = s["cri"]
        if c["type"] == TUNNEL_CONNECTION:
            cri = K.ConnectRequestInformation(K.ConnectRequestType(c["type"]), K.TunnellingLayer(c["layer"]), _ia(c["ia"]))
        else:
            cri = K.ConnectRequestInformation(K.ConnectRequestType(c["type"]))
        return K.ConnectRequest(build_hpai(s["control"]), build_hpai(s["data"]), cri)
    if cls == "ConnectResponse":
        c = s["crd"]
        crd = K.ConnectResponseData(K.ConnectRequestType(c["type"]), _ia(c.get("ia")))
        return K.ConnectResponse(s["ch"], E(s["status"]), build_hpai(s["hpai"]), crd)
    if cls in ("ConnectionStateRequest", "DisconnectRequest"):
        return getattr(K, cls)(s["ch"], build_hpai(s["hpai"]))
    if cls in ("ConnectionStateResponse", "DisconnectResponse"):
        return getattr(K, cls)(s["ch"], E(s["status"]))
    if cls in ("DeviceConfigurationRequest", "TunnellingRequest"):
        return getattr(K, cls)(s["ch"], s["seq"], bytes(s["cemi"]))
    if cls in ("DeviceConfigurationAck", "TunnellingAck"):
        return getattr(K, cls)(s["ch"], s["seq"], E(s["status"]))
    if cls == "TunnellingFeatureGet":
        return K.TunnellingFeatureGet(s["ch"], s["seq"], K.TunnellingFeatureType(s["feature"]))
    if cls in ("TunnellingFeatureSet", "TunnellingFeatureInfo"):
        return getattr(K, cls)(s["ch"], s["seq"], K.TunnellingFeatureType(s["feature"]), _pad(bytes(s["data"]), wire))
    if cls == "TunnellingFeatureResponse":
        b = K.TunnellingFeatureResponse(s["ch"], s["seq"], K.TunnellingFeatureType(s["feature"]), ReturnCode(s["rc"]), _pad(bytes(s["data"]), wire))
        b.status_code = E(s["status"])
        return b
    if cls == "RoutingIndication":
        return K.RoutingIndication(bytes(s["cemi"]))
    if cls == "RoutingBusy":
        return K.RoutingBusy(s["state"], s["wait"], s["control"])
    if cls == "RoutingLostMessage":
        return K.RoutingLostMessage(s["state"], s["lost"])
    if cls == "SecureWrapper":
        return K.SecureWrapper(s["session"], bytes(s["seq"]), bytes(s["serial"]), bytes(s["tag"]), bytes(s["data"]), bytes(s["mac"]))
    if cls == "SessionAuthenticate":
        return K.SessionAuthenticate(s["user"], bytes(s["mac"]))
    if cls == "SessionRequest":
        return K.SessionRequest(build_hpai(s["hpai"]), bytes(s["key"]))
    if cls == "SessionResponse":
        return K.SessionResponse(s["session"], bytes(s["key"]), bytes(s["mac"]))
    if cls == "SessionStatus":
        return K.SessionStatus(K.knxip_enum.SecureSessionStatusCode(s["status"]))
    if cls == "TimerNotify":
        return K.TimerNotify(s["timer"], bytes(s["serial"]), bytes(s["tag"]), bytes(s["mac"]))
    raise KeyError(cls)


def has_variable_part(s: dict) -> bool:
    """C21 non-trivial rule: the body carries a variable-length part."""
    return s["cls"] in VARIABLE_LENGTH_CLASSES


def serialise(s: dict) -> bytes:
    """Valid frame octets of a spec, through the xknx encoder (inputs may be built with
    the encoder; C21 checks the encoder itself)."""
    from xknx.knxip import KNXIPFrame

    return KNXIPFrame.init_from_body(build(s)).to_knx()


def serialisable(s: dict) -> bool:
    """Specs whose encoding is known to be broken on the pinned tree are kept out of the
    *inputs* of C20/C22 (ConnectResponse with an error status, see C21 findings)."""
    return not (s["cls"] == "ConnectResponse" and s["status"] != 0)


def valid_frames(classes: tuple[str, ...] | None = None) -> st.SearchStrategy[tuple[str, bytes]]:
    """(class name, serialised valid frame) of every service type."""
    return body_specs(classes).filter(serialisable).map(lambda s: (s["cls"], serialise(s)))


def small_valid_frames() -> st.SearchStrategy[tuple[str, bytes]]:
    """Valid frames with small variable parts (for streams)."""
    return valid_frames().filter(lambda t: len(t[1]) <= 80)


# ---------------------------------------------------------------------------
# layout walker for valid frames (positions of structure-length and code octets)


def _hpai_marks(off: int) -> list:
    return [(off, "len:hpai"), (off + 1, "enum:host_protocol")]


def _dib_marks(body: bytes, off: int) -> list:
    marks = []
    while off + 2 <= len(body):
        ln, t = body[off], body[off + 1]
        marks += [(off, "len:dib"), (off + 1, "enum:dib_type")]
        if t == 0x01:
            marks.append((off + 2, "enum:medium"))
        elif t in (0x02, 0x06):
            marks += [(p, "enum:service_family") for p in range(off + 2, min(off + ln, off + 8), 2)]
        if ln < 2:
            break
        off += ln
    return marks


def _srp_marks(body: bytes, off: int) -> list:
    marks = []
    while off + 2 <= len(body):
        ln = body[off]
        marks += [(off, "len:srp"), (off + 1, "enum:srp_type")]
        if body[off + 1] & 0x7F == SRP_SERVICE:
            marks.append((off + 2, "enum:service_family"))
        if ln < 2:
            break
        off += ln
    return marks


def walk_marks(frame: bytes) -> list[tuple[int, str]]:
    """(frame offset, kind) of every structure-length / code octet of a VALID frame."""
    svc = frame[2] * 256 + frame[3]
    cls = SERVICE_BY_CODE.get(svc, "")
    body = frame[6:]
    m: list = []
    if cls in ("SearchRequest", "DescriptionRequest", "SessionRequest"):
        m = _hpai_marks(0)
    elif cls == "SearchRequestExtended":
        m = _hpai_marks(0) + _srp_marks(body, 8)
    elif cls in ("SearchResponse", "SearchResponseExtended"):
        m = _hpai_marks(0) + _dib_marks(body, 8)
    elif cls == "DescriptionResponse":
        m = _dib_marks(body, 0)
    elif cls == "ConnectRequest":
        m = _hpai_marks(0) + _hpai_marks(8) + [(16, "len:cri"), (17, "enum:connection_type")]
        if len(body) > 18:
            m.append((18, "enum:tunnel_layer"))
    elif cls == "ConnectResponse":
        m = [(1, "enum:status")] + _hpai_marks(2) + [(10, "len:crd"), (11, "enum:connection_type")]
    elif cls in ("ConnectionStateRequest", "DisconnectRequest"):
        m = _hpai_marks(2)
    elif cls in ("ConnectionStateResponse", "DisconnectResponse"):
        m = [(1, "enum:status")]
    elif cls in ("DeviceConfigurationRequest", "TunnellingRequest", "RoutingBusy", "RoutingLostMessage"):
        m = [(0, "len:struct")]
    elif cls in ("DeviceConfigurationAck", "TunnellingAck"):
        m = [(0, "len:struct"), (3, "enum:status")]
    elif cls.startswith("TunnellingFeature"):
        m = [(0, "len:struct"), (3, "enum:status"), (4, "enum:feature")]
        if cls == "TunnellingFeatureResponse":
            m.append((5, "enum:return_code"))
    elif cls == "SessionStatus":
        m = [(0, "enum:session_status")]
    return [(6 + o, k) for o, k in m if 6 + o < len(frame)]


def _with_len(frame: bytes, total: int | None = None) -> bytes:
    total = len(frame) if total is None else total
    return frame[:4] + bytes(((total >> 8) & 0xFF, total & 0xFF)) + frame[6:]


ENUM_PROBE_QUICK = (0x00, 0x01, 0x02, 0x03, 0x05, 0x07, 0x09, 0x0A, 0x10, 0x2A, 0x7F, 0x80, 0x85, 0xF0, 0xFD, 0xFF)


def mutations(frame: bytes, full: bool = False) -> Iterator[tuple[str, bytes]]:
    """By-construction mutants of one valid frame: (mutation class, octets).

    full=False uses a probe set for code octets, full=True all 256 values."""
    n = len(frame)
    # 1. truncation at every offset, announced length kept (frame cut short) ...
    for k in range(n):
        yield "truncate:announced-kept", frame[:k]
    # ... and announced length corrected to the truncated size (body cut short)
    for k in range(6, n):
        yield "truncate:announced-fixed", _with_len(frame[:k])
    # 2. every structure-length octet: zero, undersize, off by one/two, oversize
    marks = walk_marks(frame)
    for off, kind in marks:
        if kind.startswith("len:"):
            orig = frame[off]
            for v in sorted({0, 1, 2, 3, orig - 2, orig - 1, orig + 1, orig + 2, 0x7F, 0xFE, 0xFF} - {orig}):
                if 0 <= v <= 255:
                    yield "length-octet:" + kind[4:], frame[:off] + bytes((v,)) + frame[off + 1 :]
    # 3. every code octet: unknown (and other known) codes
    for off, kind in marks:
        if kind.startswith("enum:"):
            for v in range(256) if full else ENUM_PROBE_QUICK:
                if v != frame[off]:
                    yield "code-octet:" + kind[5:], frame[:off] + bytes((v,)) + frame[off + 1 :]
    # 4. announced total length inconsistent with the data
    for total in sorted({0, 1, 5, 6, 7, n - 2, n - 1, n + 1, n + 2, n + 256, 0xFFFF} - {n}):
        if 0 <= total <= 0xFFFF:
            yield "announced:" + ("lt6" if total < 6 else "eq6" if total == 6 else "lt-actual" if total < n else "gt-actual"), _with_len(frame, total)
    # 5. trailing octets after a valid frame (the rest must be handed back untouched)
    for tail in (b"\x00", b"\x06", b"\x06\x10\x04\x20\x00", frame[:7], frame):
        yield "trailing", frame + tail
    # 6. header octets
    for off in range(4):
        for v in (0x00, 0x05, 0x06, 0x07, 0x10, 0x11, 0x20, 0xFF):
            if v != frame[off]:
                yield "header-octet", frame[:off] + bytes((v,)) + frame[off + 1 :]
    # 7. same body under every other service type (known, unimplemented, unknown)
    for code in sorted(KNOWN_SERVICE_CODES | {0x0000, 0x0200, 0x020D, 0x0426, 0x0956, 0xFFFF}):
        if code != frame[2] * 256 + frame[3]:
            yield "other-service", frame[:2] + bytes((code >> 8, code & 0xFF)) + frame[4:]


def empty_bodies() -> Iterator[tuple[str, bytes]]:
    """Header-only frames (announced length 6) and 1..5 zero body octets for every service code."""
    for code in sorted(KNOWN_SERVICE_CODES | {0x0000, 0x020D, 0x0956, 0xFFFF}):
        for k in range(0, 6):
            yield "empty-body" if k == 0 else "zero-body", bytes((6, 0x10, code >> 8, code & 0xFF, 0, 6 + k)) + bytes(k)


@st.composite
def random_inputs(draw) -> tuple[str, bytes]:
    """Fully random octet strings, and random bodies behind a valid header."""
    kind = draw(st.integers(0, 3))
    if kind == 0:
        return "random", draw(st.binary(max_size=80))
    code = draw(st.sampled_from(sorted(KNOWN_SERVICE_CODES)))
    body = draw(st.binary(max_size=70))
    if kind == 1:
        total = 6 + len(body)
    elif kind == 2:
        total = draw(st.integers(0, 6 + len(body) + 3))
    else:
        total = draw(u16)
    return "random-body", bytes((6, 0x10, code >> 8, code & 0xFF, total >> 8, total & 0xFF)) + body


# ---------------------------------------------------------------------------
# surplus octets INSIDE the announced frame (C20, added after seeded change C20-5)

SURPLUS_FIXED_FILLS = (b"\x00\x00\x00\x00", b"\x01\x02\x03\x04", b"\xff\xff\xff\xff")


def surplus_variants(frame: bytes, fill: bytes = b"") -> Iterator[tuple[str, bytes, bytes, bool]]:
    """Valid frame + k = 1..4 surplus octets behind a well-formed body.

    Yields (mutation class, octets, surplus, inside): `inside` True = header total length
    increased accordingly (the surplus belongs to the body the parser sees), False = total
    length left unchanged (the surplus is stream data behind the frame)."""
    fills = [bytes(fill[:4])] if fill else []
    fills += [f for f in SURPLUS_FIXED_FILLS if f not in fills]
    for f in fills:
        for k in range(1, min(4, len(f)) + 1):
            yield f"surplus:inside-announced:{k}", _with_len(frame + f[:k]), f[:k], True
    for k in range(1, min(4, len(fills[0])) + 1):
        yield f"surplus:behind-announced:{k}", frame + fills[0][:k], fills[0][:k], False


_H0 = {"ip": "0.0.0.0", "port": 0, "proto": 1}
_H1 = {"ip": "192.168.1.9", "port": 3671, "proto": 1}
# deterministic structure variants that a small random sample may miss (run on every tier)
CANONICAL_SPECS = (
    {"cls": "ConnectRequest", "control": _H0, "data": _H0, "cri": {"type": TUNNEL_CONNECTION, "layer": 0x02, "ia": None}},
    {"cls": "ConnectRequest", "control": _H1, "data": _H1, "cri": {"type": TUNNEL_CONNECTION, "layer": 0x02, "ia": 0x0007}},
    {"cls": "ConnectRequest", "control": _H1, "data": _H0, "cri": {"type": TUNNEL_CONNECTION, "layer": 0x80, "ia": 0x1101}},
    {"cls": "ConnectRequest", "control": _H1, "data": _H1, "cri": {"type": TUNNEL_CONNECTION, "layer": 0x04, "ia": 0xFFFF}},
    {"cls": "ConnectRequest", "control": _H1, "data": _H1, "cri": {"type": 0x03}},
    {"cls": "ConnectResponse", "ch": 1, "status": 0, "hpai": _H1, "crd": {"type": TUNNEL_CONNECTION, "ia": 0x0007}},
    {"cls": "ConnectResponse", "ch": 255, "status": 0, "hpai": _H0, "crd": {"type": TUNNEL_CONNECTION, "ia": 0x1101}},
    {"cls": "ConnectResponse", "ch": 1, "status": 0, "hpai": _H1, "crd": {"type": 0x03}},
)
