"""Structure-aware cEMI generators (Hypothesis strategies producing plain data).

* raw_cemi_frames()   byte strings for the parser (C12 / received half of C13):
                      L_Data frames for all three message codes with consistent and
                      inconsistent additional-info and NPDU length fields, every Ctrl1 /
                      Ctrl2 / EFF / TPCI value, raw APDUs over the whole 10-bit APCI space,
                      M_Prop frames (valid / unknown object types, error forms, lengths
                      0..12), other defined and undefined message codes, truncations.
* telegram_specs()    dicts describing a link-layer frame to BUILD (C13): destination kind,
                      TPCI kind, payload spec, control flags, hop count, message code,
                      additional info.
* secure_specs()      dicts describing a Data Secure group frame (C15 / C16 / C19).

Everything is plain data (ints, bytes, str, dict) so that cases are JSON-able; the check
modules turn specs into xknx objects.
"""

from __future__ import annotations

from hypothesis import strategies as st

L_DATA_CODES = (0x11, 0x29, 0x2E)
M_PROP_CODES = (0xFC, 0xFB, 0xF6, 0xF5, 0xF7)
OTHER_DEFINED_CODES = (0x10, 0x13, 0x25, 0x2B, 0x2D, 0x2F, 0xF8, 0xF9, 0xFA, 0xF1, 0xF0)

u8 = st.integers(0, 255)
u16 = st.integers(0, 0xFFFF)


def message_codes():
    return st.one_of(
        st.sampled_from(L_DATA_CODES),
        st.sampled_from(M_PROP_CODES),
        st.sampled_from(OTHER_DEFINED_CODES),
        u8,
    )


# ---------------------------------------------------------------------------
# raw APDUs (fallback generator; vk/strategies/apdus.py is richer but not required)

_FOUR_BIT_SERVICES = (0x000, 0x040, 0x080, 0x0C0, 0x100, 0x140, 0x180, 0x200, 0x240, 0x280, 0x300, 0x340)


def apci_codes():
    return st.one_of(
        st.builds(lambda b, low: b | low, st.sampled_from(_FOUR_BIT_SERVICES), st.one_of(st.just(0), st.integers(0, 63))),
        st.integers(0x1C0, 0x1FF),
        st.integers(0x2C0, 0x2FF),
        st.integers(0x380, 0x3FF),
        st.integers(0, 0x3FF),
    )


def apdu_data():
    return st.one_of(
        st.binary(max_size=6),
        st.binary(max_size=24),
        st.integers(0, 254).flatmap(lambda n: st.binary(min_size=n, max_size=n)),
    )


def raw_apdus():
    """APDU octets: octet 0 holds only the two upper APCI bits."""
    return st.builds(lambda c, d: bytes([c >> 8, c & 0xFF]) + d, apci_codes(), apdu_data())


# ---------------------------------------------------------------------------
# raw frames


def tpci_octets():
    """TPCI octet (low two bits are overwritten by the APCI for data TPDUs)."""
    return st.one_of(
        st.just(0x00),
        st.sampled_from((0x04, 0x40, 0x44, 0x7C, 0x80, 0x81, 0x82, 0x83, 0xC2, 0xC3, 0xFE, 0xFF)),
        u8,
    )


def ctrl1_octets():
    return st.one_of(st.sampled_from((0xBC, 0x3C, 0xB0, 0x94, 0xBF)), u8)


def ctrl2_octets():
    return st.one_of(
        st.sampled_from((0xE0, 0x60, 0xD0, 0x50)),
        st.builds(lambda at, hop, eff: at << 7 | hop << 4 | eff, st.integers(0, 1), st.integers(0, 7), st.one_of(st.just(0), st.integers(0, 15))),
    )


def dst_addresses():
    return st.one_of(st.just(0), st.sampled_from((1, 0x0801, 0x1101, 0xFFFF)), u16)


_CTRL1 = ctrl1_octets()
_CTRL2 = ctrl2_octets()
_DST = dst_addresses()
_TPCI = tpci_octets()
_RAW_APDU = raw_apdus()
_CTRL_REST = st.one_of(st.just(b""), st.binary(max_size=3))
_BIN8 = st.binary(max_size=8)
_BIN8_1 = st.binary(min_size=1, max_size=8)
_ADDINFO = st.one_of(st.just(b""), _BIN8)
_DIE10 = st.integers(0, 9)
_DIE4 = st.integers(0, 3)
_OVER = st.integers(1, 20)


@st.composite
def ldata_service_info(draw, length_modes=("ok", "ok", "ok", "ok", "plus1", "minus1", "zero", "ff", "rand")):
    """Ctrl1 .. end of an L_Data frame (without message code / additional info)."""
    c1 = draw(_CTRL1)
    c2 = draw(_CTRL2)
    src = draw(u16)
    dst = draw(_DST)
    t = draw(_TPCI)
    if t & 0x80:
        rest = draw(_CTRL_REST)
        tpdu = bytes([t]) + rest
    else:
        apdu = draw(_RAW_APDU)
        tpdu = bytes([(t & 0xFC) | (apdu[0] & 3)]) + apdu[1:]
    true_len = len(tpdu) - 1
    mode = length_modes[draw(st.integers(0, len(length_modes) - 1))] if len(length_modes) > 1 else length_modes[0]
    length = {
        "ok": true_len,
        "plus1": true_len + 1,
        "minus1": true_len - 1,
        "zero": 0,
        "ff": 255,
        "rand": draw(u8) if mode == "rand" else 0,
    }[mode] & 0xFF
    return bytes([c1, c2]) + src.to_bytes(2, "big") + dst.to_bytes(2, "big") + bytes([length]) + tpdu


_SERVICE_INFO = ldata_service_info()
_SERVICE_INFO_OK = ldata_service_info(length_modes=("ok",))


@st.composite
def ldata_frames(draw, codes=L_DATA_CODES, info_modes=("none", "none", "none", "small", "small", "remaining", "over", "ff", "lie")):
    code = codes[draw(st.integers(0, len(codes) - 1))]
    body = draw(_SERVICE_INFO)
    mode = info_modes[draw(st.integers(0, len(info_modes) - 1))]
    if mode == "none":
        info = b"\x00"
    elif mode == "small":
        add = draw(_BIN8_1)
        info = bytes([len(add)]) + add
    elif mode == "remaining":  # info length swallows the whole service information
        info = bytes([min(255, len(body))])
    elif mode == "over":
        info = bytes([min(255, len(body) + draw(_OVER))])
    elif mode == "ff":
        info = b"\xff"
    else:  # announced length differs from the additional info present
        add = draw(_BIN8)
        info = bytes([draw(u8)]) + add
    raw = bytes([code]) + info + body
    if draw(_DIE10) == 0:
        raw = raw[: draw(st.integers(0, len(raw)))]
    return raw


_MPROP_CODE = st.sampled_from(M_PROP_CODES)
_OBJ = st.one_of(st.integers(0, 30), st.sampled_from((0xFFFF, 50000, 409)), u16)
_NOE = st.one_of(st.just(0), st.just(1), st.integers(0, 15))
_START = st.one_of(st.just(1), st.integers(0, 0xFFF))
_BIN6 = st.binary(max_size=6)


@st.composite
def mprop_frames(draw):
    code = draw(_MPROP_CODE)
    obj = draw(_OBJ)
    inst = draw(u8)
    pid = draw(u8)
    noe = draw(_NOE)
    start = draw(_START)
    data = draw(_BIN6)
    raw = bytes([code]) + obj.to_bytes(2, "big") + bytes([inst, pid]) + ((noe << 12) | start).to_bytes(2, "big") + data
    if draw(_DIE4) == 0:
        raw = raw[: draw(st.integers(0, len(raw)))]
    return raw


_OTHER_CODE = st.one_of(st.sampled_from(OTHER_DEFINED_CODES), u8)
_OTHER_BODY = st.one_of(st.binary(max_size=12), _SERVICE_INFO.map(lambda b: b"\x00" + b))


@st.composite
def other_code_frames(draw):
    return bytes([draw(_OTHER_CODE)]) + draw(_OTHER_BODY)


def raw_cemi_frames():
    ld = ldata_frames()
    return st.one_of(ld, ld, ld, mprop_frames(), other_code_frames(), st.binary(max_size=24))


def wellformed_ldata_frames():
    """L_Data frames with consistent length fields and EFF 0 (still arbitrary Ctrl1, TPCI, APDU)."""

    @st.composite
    def build(draw):
        code = L_DATA_CODES[draw(st.integers(0, 2))]
        add = draw(_ADDINFO)
        body = bytearray(draw(_SERVICE_INFO_OK))
        body[1] &= 0xF0
        return bytes([code, len(add)]) + add + bytes(body)

    return build()


# ---------------------------------------------------------------------------
# frames to build (C13)

HOP_COUNTS = (-1, 0, 1, 2, 3, 4, 5, 6, 7, 8, 15)
GROUP_TPCI = ("TDataGroup", "TDataTagGroup")
BROADCAST_TPCI = ("TDataBroadcast", "TDataTagGroup")
INDIVIDUAL_TPCI = ("TDataIndividual", "TDataConnected", "TConnect", "TDisconnect", "TAck", "TNak")
CONTROL_TPCI = ("TConnect", "TDisconnect", "TAck", "TNak")
BOUNDARY_DATA_LEN = (0, 1, 13, 14, 15, 16, 252, 253, 254)


def payload_specs(max_data: int = 254, n_services: int = 0):
    """('gvw', data octets) -> GroupValueWrite(DPTBinary / DPTArray); NPDU length = 1 + len(data)
    ('gvr', data octets) -> GroupValueResponse; ('svc', i) -> i-th instance of the service list."""
    bl = [n for n in BOUNDARY_DATA_LEN if n <= max_data] + [max_data]
    lens = st.one_of(st.sampled_from(bl), st.integers(0, max_data), st.integers(0, min(20, max_data)))
    data = lens.flatmap(lambda n: st.binary(min_size=n, max_size=n))
    alts = [
        st.tuples(st.just("gvw"), data),
        st.tuples(st.just("gvw"), data),
        st.tuples(st.just("gvr"), data),
        st.tuples(st.just("gvw6"), st.integers(0, 63).map(lambda v: bytes([v]))),
    ]
    if n_services:
        alts.append(st.tuples(st.just("svc"), st.integers(0, n_services - 1)))
    return st.one_of(*alts)


@st.composite
def telegram_specs(draw, n_services: int = 0):
    dst_kind = draw(st.sampled_from(("group", "group", "broadcast", "individual", "individual")))
    if dst_kind == "group":
        tp = draw(st.sampled_from(GROUP_TPCI))
        dst = draw(st.one_of(st.sampled_from((1, 0x0801, 0xFFFF)), st.integers(1, 0xFFFF)))
    elif dst_kind == "broadcast":
        tp = draw(st.sampled_from(BROADCAST_TPCI))
        dst = 0
    else:
        tp = draw(st.sampled_from(INDIVIDUAL_TPCI))
        dst = draw(st.one_of(st.sampled_from((0, 0x1101, 0xFFFF)), u16))
    seq = draw(st.integers(0, 15)) if tp in ("TDataConnected", "TAck", "TNak") else 0
    payload = None if tp in CONTROL_TPCI else draw(payload_specs(n_services=n_services))
    hop = draw(st.one_of(st.just(6), st.integers(0, 7), st.sampled_from(HOP_COUNTS)))
    return {
        "code": draw(st.sampled_from(L_DATA_CODES)),
        "addinfo": draw(st.one_of(st.just(b""), st.binary(max_size=8))),
        "dst_kind": dst_kind,
        "dst": dst,
        "src": draw(st.one_of(st.sampled_from((0, 0x1101)), u16)),
        "tpci": tp,
        "seq": seq,
        "payload": payload,
        "priority": draw(st.integers(0, 3)),
        "repeat": draw(st.booleans()),
        "system_broadcast": draw(st.booleans()),
        "ack": draw(st.booleans()),
        "confirm_error": draw(st.booleans()),
        "hop": hop,
        # how the control flags get onto the frame: CEMIFlags(...) constructor or attribute assignment
        "flag_mode": draw(st.sampled_from(("ctor", "assign"))),
    }


# ---------------------------------------------------------------------------
# Data Secure frames

SEQ_MAX = (1 << 48) - 1


def sequence_numbers(lo: int = 1):
    return st.one_of(
        st.sampled_from(tuple(x for x in (1, 2, 255, 256, 0xFFFFFFFF, 1 << 32, SEQ_MAX - 1, SEQ_MAX) if x >= lo)),
        st.integers(lo, SEQ_MAX),
        st.integers(lo, max(lo, 1 << 20)),
    )


def zero_tail_payload_specs(max_data: int = 238):
    """GroupValueWrite / Response payloads whose data ends in 1..3 octets 0x00, or is all zero.
    (A zero-padding MAC cannot tell such APDUs from their shortened / zero-extended versions.)"""
    head = st.one_of(st.binary(min_size=0, max_size=4), st.binary(min_size=0, max_size=max(0, min(40, max_data - 3))))
    tailed = st.tuples(head, st.integers(1, 3)).map(lambda t: (t[0] + bytes(t[1]))[:max_data])
    zeros = st.integers(1, min(max_data, 34)).map(bytes)
    return st.tuples(st.sampled_from(("gvw", "gvr")), st.one_of(tailed, tailed, zeros))


@st.composite
def secure_specs(draw, n_services: int = 0, max_plain_data: int = 238, tpcis=GROUP_TPCI, zero_tail_share: int = 0):
    """A secured group frame: plain APDU of 1 + len(data) .. octets (payload spec as above).
    zero_tail_share: k of 10 cases get a payload ending in 0x00 octets / all zero (biased to authentication only)."""
    if zero_tail_share and draw(st.integers(0, 9)) < zero_tail_share:
        payload = draw(zero_tail_payload_specs(max_plain_data))
        alg = draw(st.sampled_from(("auth", "auth", "enc")))
    else:
        payload = draw(payload_specs(max_data=max_plain_data, n_services=n_services))
        alg = draw(st.sampled_from(("enc", "enc", "auth")))
    return {
        "key": draw(st.binary(min_size=16, max_size=16)),
        "src": draw(st.one_of(st.sampled_from((0x1101, 0xFFFF, 1)), st.integers(1, 0xFFFF))),
        "dst": draw(st.one_of(st.sampled_from((1, 0x0400, 0xFFFF)), st.integers(1, 0xFFFF))),
        "tpci": draw(st.sampled_from(tpcis)),
        "seq": draw(sequence_numbers()),
        "alg": alg,
        "payload": payload,
        "priority": draw(st.integers(0, 3)),
        "repeat": draw(st.booleans()),
        "ack": draw(st.booleans()),
        "hop": draw(st.integers(0, 7)),
        "code": 0x29,
    }


# ---------------------------------------------------------------------------
# one instance of every application service (fallback when strategies/apdus.py is absent)

_SERVICES_CACHE: list | None = None


def service_instances() -> list:
    """One instance per concrete APCI class, built from the dataclass fields with simple
    values, kept only if the APCI layer itself round-trips it (to_knx -> from_knx -> equal,
    length consistent): a failure downstream is then attributable to the cEMI / Data
    Secure layer and not to the application-layer codec (C05 / C06 judge that one).
    Deterministic order (class name)."""
    global _SERVICES_CACHE
    if _SERVICES_CACHE is not None:
        return _SERVICES_CACHE
    import dataclasses
    import enum
    import inspect

    from xknx.dpt import DPTArray
    from xknx.telegram import GroupAddress, IndividualAddress, apci

    by_name = {
        "serial": bytes(range(1, 7)),
        "domain_address": b"\x12\x34",
        "and_data": b"\x0f",
        "xor_data": b"\xf0",
        "asdu": b"\x01\x02\x03\x04\x05",
        "data": b"\x01\x02",
        "test_info": b"\x01",
        "test_info_and_result": b"\x01\x02",
        "file_block": b"\xaa\xbb",
        "confirmation_data": b"",
        "backbone_key": None,
    }
    out = []
    for name, cls in sorted(inspect.getmembers(apci, inspect.isclass)):
        if not (issubclass(cls, apci.APCI) and dataclasses.is_dataclass(cls)) or inspect.isabstract(cls):
            continue
        if name in ("APCI", "APCIRequest", "SecureAPDU"):
            continue
        kw = {}
        ok = True
        for f in dataclasses.fields(cls):
            t = str(f.type)
            has_default = f.default is not dataclasses.MISSING or f.default_factory is not dataclasses.MISSING
            if f.name in by_name and (not has_default or f.name == "data"):
                kw[f.name] = by_name[f.name]
            elif has_default:
                continue
            elif "DPT" in t:
                kw[f.name] = DPTArray((1, 2))
            elif t == "int":
                kw[f.name] = 1
            elif t == "bool":
                kw[f.name] = True
            elif t == "bytes":
                kw[f.name] = b"\x01"
            elif "IndividualAddress" in t:
                kw[f.name] = IndividualAddress(0x1234)
            elif "list[GroupAddress]" in t:
                kw[f.name] = [GroupAddress(0x0901)]
            elif "GroupAddress" in t:
                kw[f.name] = GroupAddress(0x0901)
            else:
                typ = getattr(apci, t, None)
                if isinstance(typ, type) and issubclass(typ, enum.Enum):
                    kw[f.name] = list(typ)[0]
                else:
                    ok = False
        if not ok:
            continue
        try:
            obj = cls(**kw)
            raw = bytes(obj.to_knx())
            back = apci.APCI.from_knx(raw)
            if back == obj and type(back) is cls and obj.calculated_length() == len(raw) - 1 and bytes(back.to_knx()) == raw:
                out.append(obj)
        except Exception:  # noqa: BLE001 - not this helper's business
            continue
    _SERVICES_CACHE = out
    return out


_GROUP_TPCI_OCTETS = (0x00, 0x00, 0x04)
_IND_TPCI_OCTETS = (0x00, 0x40, 0x54, 0x7C, 0x80, 0x81, 0xC2, 0xD6, 0xC3, 0xFF)


def plausible_ldata_frames(valid_apdus: list[bytes]):
    """L_Data frames that mostly parse: consistent lengths, EFF 0, reserved bit clear, TPCI valid for
    the address type, APDU = a valid APDU of the given list with zero or one flipped bit (reserved /
    data bits), or a raw APDU. For the received-frame half of C13."""
    apdu_s = st.one_of(
        st.sampled_from(valid_apdus),
        st.tuples(st.sampled_from(valid_apdus), st.integers(0, 8 * 24 - 1)).map(
            lambda t: bytes([t[0][0] & 3]) + bytes(b ^ ((0x80 >> (t[1] % 8)) if i + 1 == 1 + (t[1] // 8) % max(1, len(t[0]) - 1) else 0) for i, b in enumerate(t[0][1:]))
        ),
        _RAW_APDU,
    )

    @st.composite
    def build(draw):
        code = L_DATA_CODES[draw(st.integers(0, 2))]
        add = draw(_ADDINFO)
        c1 = draw(_CTRL1) & 0xBF
        c2 = draw(_CTRL2) & 0xF0
        src = draw(u16)
        dst = draw(_DST)
        octs = _GROUP_TPCI_OCTETS if c2 & 0x80 else _IND_TPCI_OCTETS
        t = octs[draw(st.integers(0, len(octs) - 1))]
        if t & 0x80:
            tpdu = bytes([t])
        else:
            apdu = draw(apdu_s)
            tpdu = bytes([t | (apdu[0] & 3)]) + apdu[1:]
        if len(tpdu) > 255:
            tpdu = tpdu[:255]
        return bytes([code, len(add)]) + add + bytes([c1, c2]) + src.to_bytes(2, "big") + dst.to_bytes(2, "big") + bytes([len(tpdu) - 1]) + tpdu

    return build()


def length_mismatch_ldata_frames(valid_apdus: list[bytes]):
    """Otherwise plausible L_Data frames (EFF 0, reserved bit clear, TPCI valid for the address type) whose octet
    count after the TPCI octet DISAGREES with the NPDU length field - data and control TPDUs, both directions:
    control TPDU with length 0 and 1..4 surplus octets, control TPDU announcing n > 0 (with n, fewer or more octets),
    data TPDU with the length field off by -4..+4 or with surplus / missing octets."""
    apdu_s = st.one_of(st.sampled_from(valid_apdus), _RAW_APDU)
    ctrl_octets = (0x80, 0x81) + tuple(0xC2 | s << 2 for s in range(16)) + tuple(0xC3 | s << 2 for s in range(16))
    tail_s = st.one_of(st.integers(1, 4).map(bytes), st.binary(min_size=1, max_size=4))
    delta_s = st.sampled_from((-4, -3, -2, -1, 1, 2, 3, 4))

    @st.composite
    def build(draw):
        code = L_DATA_CODES[draw(st.integers(0, 2))]
        add = draw(_ADDINFO)
        c1 = draw(_CTRL1) & 0xBF
        control = draw(st.integers(0, 2)) > 0
        c2 = draw(_CTRL2) & 0xF0
        if control:
            c2 &= 0x7F  # control TPDUs need an individual destination to get past TPCI resolution
        src = draw(u16)
        dst = draw(_DST)
        if control:
            t = ctrl_octets[draw(st.integers(0, len(ctrl_octets) - 1))]
            mode = draw(st.integers(0, 2))
            tail = draw(tail_s)
            if mode == 0:  # length 0, surplus octets
                tpdu, length = bytes([t]) + tail, 0
            elif mode == 1:  # length n > 0 with exactly n octets
                tpdu, length = bytes([t]) + tail, len(tail)
            else:  # length n > 0, octet count different
                tpdu = bytes([t]) + (tail if draw(st.booleans()) else b"")
                length = max(1, (len(tpdu) - 1 + draw(delta_s)) & 0xFF)
        else:
            octs = _GROUP_TPCI_OCTETS if c2 & 0x80 else _IND_TPCI_OCTETS[:4]
            t = octs[draw(st.integers(0, len(octs) - 1))]
            apdu = draw(apdu_s)
            tpdu = bytes([t | (apdu[0] & 3)]) + apdu[1:]
            true_len = len(tpdu) - 1
            if draw(st.booleans()):  # length field wrong
                length = (true_len + draw(delta_s)) & 0xFF
                if length == true_len:
                    length = (true_len + 1) & 0xFF
            else:  # octets wrong
                length = true_len & 0xFF
                tpdu = tpdu + draw(tail_s) if draw(st.booleans()) or len(tpdu) < 3 else tpdu[: -draw(st.integers(1, min(2, len(tpdu) - 1)))]
                if len(tpdu) - 1 == length:
                    tpdu += b"\x00"
        return bytes([code, len(add)]) + add + bytes([c1, c2]) + src.to_bytes(2, "big") + dst.to_bytes(2, "big") + bytes([length]) + tpdu

    return build()


# ---------------------------------------------------------------------------
# A_Sec (Data Secure) APDUs inside L_Data frames - every Security Control Field value

APCI_SEC = 0x3F1
ASEC_APDU_LENGTHS = (12, 13, 14, 20)  # octets incl. the two APCI octets; 13 is the shortest a parser accepts (SCF + 6 seq + 4 MAC)


def asec_frame(code: int, group: bool, scf: int, apdu_len: int, tpci: int = 0x00, fill: int = 0x11, addinfo: bytes = b"") -> bytes:
    """L_Data frame carrying an A_Sec APDU (APCI 0x3F1) of `apdu_len` octets with the given SCF octet."""
    rest = bytes((fill + i) & 0xFF for i in range(max(0, apdu_len - 3)))
    apdu = bytes([APCI_SEC >> 8, APCI_SEC & 0xFF]) + (bytes([scf]) if apdu_len >= 3 else b"") + rest
    apdu = apdu[:apdu_len]
    tpdu = bytes([(tpci & 0xFC) | apdu[0]]) + apdu[1:]
    c1 = 0xBC if len(tpdu) - 1 <= 15 else 0x3C
    c2 = 0xE0 if group else 0x60
    dst = b"\x09\x01" if group else b"\x11\x05"
    return bytes([code, len(addinfo)]) + addinfo + bytes([c1, c2]) + b"\x11\x01" + dst + bytes([len(tpdu) - 1]) + tpdu


def asec_scf_sweep_frames() -> list[bytes]:
    """All 256 SCF values x A_Sec APDU lengths 12/13/14/20 x the three L_Data message codes x {group, individual}
    destination (deterministic). Covers reserved algorithms (bits 6..4 in 2..7) and reserved services (bits 2..0)."""
    out = []
    for code in L_DATA_CODES:
        for group in (True, False):
            for n in ASEC_APDU_LENGTHS:
                for scf in range(256):
                    out.append(asec_frame(code, group, scf, n))
    return out


def asec_ldata_frames():
    """Generated variant: any SCF (biased to reserved algorithm / service codes), APDU length 3..40, data TPCI octets,
    optional additional info."""
    scf_s = st.one_of(
        u8,
        st.builds(lambda t, a, b, sv: t << 7 | a << 4 | b << 3 | sv, st.integers(0, 1), st.integers(2, 7), st.integers(0, 1), st.integers(0, 7)),
        st.builds(lambda t, a, b, sv: t << 7 | a << 4 | b << 3 | sv, st.integers(0, 1), st.integers(0, 1), st.integers(0, 1), st.sampled_from((1, 4, 5, 6, 7))),
    )

    @st.composite
    def build(draw):
        code = L_DATA_CODES[draw(st.integers(0, 2))]
        group = draw(st.booleans())
        tp = draw(st.sampled_from((0x00, 0x00, 0x04) if group else (0x00, 0x40, 0x7C)))
        n = draw(st.one_of(st.sampled_from(ASEC_APDU_LENGTHS), st.integers(3, 40)))
        return asec_frame(code, group, draw(scf_s), n, tpci=tp, fill=draw(u8), addinfo=draw(_ADDINFO))

    return build()
