"""Structure-aware APDU generators (application-layer PDUs: TPCI/APCI octets + ASDU).

Shared by C04/C05/C06 (and meant for reuse by C12/C13/C18). Built only from the
independent layout table in vk/ref/apci_layout.py - never from the xknx encoder.

  short_apdus(o0s, full_len3, seed)  exhaustive enumeration of APDUs of length 0..3
                                     (sharded by first octet; length 3 strided or full)
  code_apdus(code, rng)              one code x LENGTHS x FILLS x random TPCI bits
  service_apdus(service, rng)        field-boundary / tail-boundary patterns of a service
  all_apdus(seed, codes)             both of the above for every code in `codes`
  valid_apdus(rng)                   spec-valid APDUs of every recognised service
  apdu()                             Hypothesis strategy mixing all shapes
"""

from __future__ import annotations

import random
from typing import Iterable, Iterator

from hypothesis import strategies as st

from vk.ref import apci_layout as T

LENGTHS: tuple[int, ...] = tuple(range(0, 41)) + (54, 55, 56, 100, 254, 255)
FILLS = ("zeros", "ones", "random", "ramp")
N_SHORT_SHARDS = 64


# ---------------------------------------------------------------------------
# exhaustive short APDUs
# ---------------------------------------------------------------------------


def short_shard_o0s(shard: int) -> range:
    """First-octet values handled by one of the N_SHORT_SHARDS shards."""
    per = 256 // N_SHORT_SHARDS
    return range(shard * per, (shard + 1) * per)


def short_apdus(o0s: Iterable[int], full_len3: bool, seed: int = 1, with_empty: bool = False) -> Iterator[bytes]:
    """All APDUs of length 1 and 2 whose first octet is in `o0s`, and those of length 3:
    all 256 third octets if `full_len3`, else 16 of them per (o0, o1) pair on a
    seed-dependent stride (1/16 of the space, every pair covered)."""
    if with_empty:
        yield b""
    for o0 in o0s:
        yield bytes((o0,))
        for o1 in range(256):
            yield bytes((o0, o1))
            if full_len3:
                for o2 in range(256):
                    yield bytes((o0, o1, o2))
            else:
                off = (o0 * 7 + o1 * 13 + seed * 5) & 0x0F
                for k in range(16):
                    yield bytes((o0, o1, (k << 4) | ((off + k) & 0x0F)))


def short_count(n_o0: int, full_len3: bool, with_empty: bool = False) -> int:
    return n_o0 * (1 + 256 + 256 * (256 if full_len3 else 16)) + (1 if with_empty else 0)


# ---------------------------------------------------------------------------
# structure-aware generation
# ---------------------------------------------------------------------------


def _fill(kind: str, n: int, rng: random.Random) -> bytes:
    if n <= 0:
        return b""
    if kind == "zeros":
        return bytes(n)
    if kind == "ones":
        return b"\xff" * n
    if kind == "ramp":
        return bytes((i + 1) & 0xFF for i in range(n))
    return rng.randbytes(n)


def with_tpci(raw: bytes, tpci6: int) -> bytes:
    """Set the upper six (transport layer) bits of octet 0."""
    if not raw:
        return raw
    return bytes(((raw[0] & 0x03) | ((tpci6 & 0x3F) << 2),)) + raw[1:]


def code_apdu(code: int, length: int, fill: str, rng: random.Random, tpci6: int = 0) -> bytes:
    """APDU of `length` octets carrying 10-bit code `code` (truncated if length < 2)."""
    head = bytes((((tpci6 & 0x3F) << 2) | (code >> 8) & 0x03, code & 0xFF))
    if length <= 2:
        return head[:length]
    return head + _fill(fill, length - 2, rng)


def code_apdus(code: int, rng: random.Random, lengths: Iterable[int] = LENGTHS) -> Iterator[tuple[bytes, str]]:
    for n in lengths:
        for fill in FILLS:
            if n <= 2 and fill != "zeros":
                # no body to fill: vary only the TPCI bits once
                if fill != "random":
                    continue
            yield code_apdu(code, n, fill, rng, rng.getrandbits(6)), fill


def _field_value_sets(lay: T.Layout, rng: random.Random) -> list[dict[str, int]]:
    """Field assignments probing each field's wire boundaries."""
    names = [f for f in lay.fields if f.name != T.R]
    full = {f.name: (1 << f.bits) - 1 for f in names}
    zero = {f.name: 0 for f in names}
    valid = {f.name: (f.valid[rng.randrange(len(f.valid))] if f.valid else rng.getrandbits(f.bits)) for f in names}
    out = [dict(zero), dict(full), dict(valid)]
    for f in names:
        hi = (1 << f.bits) - 1
        # only this field set / only this field clear, enumerated fields otherwise valid
        a = {g.name: (g.valid[0] if g.valid else 0) for g in names}
        a[f.name] = hi
        b = {g.name: (g.valid[-1] if g.valid else (1 << g.bits) - 1) for g in names}
        b[f.name] = 0
        out += [a, b]
        c = dict(valid)
        c[f.name] = 1 << (f.bits - 1)
        out.append(c)
        if f.valid:  # every enumerated value and its neighbours
            for v in f.valid:
                for d in (-1, 0, 1):
                    e = dict(valid)
                    e[f.name] = (v + d) & hi
                    out.append(e)
    return out


def service_apdus(s: T.Service, rng: random.Random) -> Iterator[tuple[bytes, str]]:
    """Field- and tail-boundary APDUs of one service (valid and near-valid)."""
    for lay in s.layouts:
        tails = s.tail_lengths(lay)
        dep = T.dep_field(lay)
        tl_candidates = sorted({tails[0], tails[min(1, len(tails) - 1)], tails[len(tails) // 2], tails[-1]})
        for vals in _field_value_sets(lay, rng):
            for rfill in (0, 1):
                if dep is not None:
                    want = (vals.get(dep[0], 0) & 0xFF) * dep[1]
                    h = s.header_octets(lay)
                    want = min(want, T.MAX_APDU - h)
                    tls = sorted({max(0, want - 1), want, min(T.MAX_APDU - h, want + 1)})
                else:
                    tls = [tl_candidates[rng.randrange(len(tl_candidates))]]
                for tl in tls:
                    tail = _fill(FILLS[rng.randrange(4)], tl, rng)
                    yield with_tpci(T.build(s, lay, vals, tail, rfill), rng.getrandbits(6)), "boundary"
        # tail length boundaries with valid header
        h = s.header_octets(lay)
        base = {f.name: (f.valid[0] if f.valid else rng.getrandbits(f.bits)) for f in lay.fields if f.name != T.R}
        probe: set[int] = set()
        for t in tl_candidates:
            probe.update((t - 1, t, t + 1))
        for t in sorted(x for x in probe if 0 <= x <= T.MAX_APDU - h):
            vals = dict(base)
            if dep is not None and dep[1] and t % dep[1] == 0:
                vals[dep[0]] = t // dep[1]
            yield with_tpci(T.build(s, lay, vals, _fill("ramp", t, rng), 0), rng.getrandbits(6)), "tail-boundary"
        # truncated headers
        full = T.build(s, lay, base, b"", 0)
        for n in range(2, len(full)):
            yield full[:n], "truncated"
    if s.octet1_reserved:
        # reserved bits inside the APCI octet (A_Restart family)
        for lay in s.layouts:
            w = bytearray(T.build(s, lay, {}, b"", 0))
            for bits in range(1, 16):
                w[1] = (s.code & 0xFF) | (bits << 1)
                yield bytes(w), "code-reserved"


def all_apdus(seed: int, codes: Iterable[int] = range(1024)) -> Iterator[tuple[int, bytes, str]]:
    """(code, apdu, label) for every code: LENGTHS x FILLS, plus the service's boundary
    patterns where the code is a service's base code."""
    base = {s.code: s for s in T.SERVICES}
    for code in codes:
        rng = random.Random((seed * 1_000_003) ^ (code * 7919))
        for raw, label in code_apdus(code, rng):
            yield code, raw, label
        s = base.get(code)
        if s is not None:
            for raw, label in service_apdus(s, rng):
                yield (T.apci_of(raw) if len(raw) >= 2 else code), raw, label


def valid_apdus(rng: random.Random, per_service: int = 4) -> Iterator[tuple[T.Service, bytes]]:
    """Spec-valid APDUs (per the table) of every recognised service."""
    for s in T.SERVICES:
        if not s.recognised:
            continue
        yield s, T.witness(s, 0)
        yield s, T.witness(s, 1)
        for _ in range(per_service):
            lay = s.layouts[rng.randrange(len(s.layouts))]
            vals = {f.name: (f.valid[rng.randrange(len(f.valid))] if f.valid else rng.getrandbits(f.bits)) for f in lay.fields if f.name != T.R}
            dep = T.dep_field(lay)
            tails = s.tail_lengths(lay)
            if dep is not None:
                n = rng.choice([0, 1, 2, 3, 5, 12])
                tl = n * dep[1]
                if tl not in tails:
                    n, tl = 1, dep[1]
                vals[dep[0]] = n
            else:
                short = [t for t in tails if t <= 24] or tails[:1]
                tl = rng.choice(short)
            yield s, T.build(s, lay, vals, rng.randbytes(tl), 0)


# ---------------------------------------------------------------------------
# Hypothesis
# ---------------------------------------------------------------------------

_SERVICES = [s for s in T.SERVICES]


@st.composite
def _by_code(draw) -> bytes:
    code = draw(st.integers(0, 1023))
    length = draw(st.one_of(st.sampled_from(LENGTHS), st.integers(0, 255)))
    tpci = draw(st.sampled_from((0, 0x3F)) | st.integers(0, 63))
    head = bytes(((tpci << 2) | (code >> 8), code & 0xFF))
    if length <= 2:
        return head[:length]
    n = length - 2
    kind = draw(st.sampled_from(("zeros", "ones", "ramp", "binary")))
    if kind == "binary":
        return head + draw(st.binary(min_size=n, max_size=n))
    return head + _fill(kind, n, random.Random(0))


@st.composite
def _by_service(draw) -> bytes:
    s = draw(st.sampled_from(_SERVICES))
    lay = draw(st.sampled_from(s.layouts))
    vals: dict[str, int] = {}
    for f in lay.fields:
        if f.name == T.R:
            continue
        hi = (1 << f.bits) - 1
        choices = [st.just(0), st.just(hi), st.integers(0, hi)]
        if f.valid:
            choices.insert(0, st.sampled_from(f.valid))
        vals[f.name] = draw(st.one_of(*choices))
    rfill = draw(st.integers(0, 1))
    h = s.header_octets(lay)
    dep = T.dep_field(lay)
    consistent = draw(st.booleans())
    if dep is not None and consistent:
        n = draw(st.integers(0, min(20, (T.MAX_APDU - h) // max(1, dep[1]))))
        vals[dep[0]] = n
        tl = n * dep[1]
    elif consistent:
        tails = s.tail_lengths(lay)
        tl = draw(st.sampled_from(tails[:40] + tails[-2:]))
    else:
        tl = draw(st.integers(0, min(40, T.MAX_APDU - h)))
    tail = draw(st.binary(min_size=tl, max_size=tl))
    raw = T.build(s, lay, vals, tail, rfill)
    if s.octet1_reserved and draw(st.booleans()):
        raw = raw[:1] + bytes((raw[1] | (draw(st.integers(0, 15)) << 1),)) + raw[2:]
    cut = draw(st.integers(0, 3))
    if cut == 3:  # sometimes truncate
        raw = raw[: draw(st.integers(0, len(raw)))]
    return with_tpci(raw, draw(st.integers(0, 63)))


def apdu() -> st.SearchStrategy[bytes]:
    """APDUs: per-service structured (valid / near-valid), per-code x length x fill, raw binary."""
    return st.one_of(_by_service(), _by_code(), st.binary(max_size=255))
