"""Shared generators for the datapoint-type checks (C07-C10).

* enumeration / classification of every concrete DPT transcoder class,
* root-cause labels (which class owns the codec + which declaration matters),
* payload generators: the 64 DPTBinary values, exhaustive DPTArrays of length 0..2,
  positional sweeps for longer types, wrong-length arrays, seeded random arrays,
* a NaN/replacement-character aware equality for decoded values.

Payload descriptions ("specs") are JSON-able: ``("b", int)`` for a DPTBinary value and
``("a", bytes)`` for a DPTArray; `mk(spec)` builds the xknx payload object.
"""

from __future__ import annotations

from collections.abc import Iterator
import math
import random
import struct
from typing import Any

from xknx.dpt import DPTArray, DPTBinary
from xknx.dpt.dpt import DPTBase, DPTComplex, DPTEnum, DPTNumeric

# --------------------------------------------------------------------------- classes

_CLASSES: list[type[DPTBase]] | None = None


def all_dpt_classes() -> list[type[DPTBase]]:
    """Every concrete transcoder, in a stable order (class-tree order, de-duplicated)."""
    global _CLASSES
    if _CLASSES is None:
        seen: dict[type, None] = {}
        for c in DPTBase.dpt_class_tree():
            seen.setdefault(c, None)
        _CLASSES = list(seen)
    return _CLASSES


def dpt_by_name(name: str) -> type[DPTBase]:
    for c in all_dpt_classes():
        if c.__name__ == name:
            return c
    raise KeyError(name)


def kind(T: type[DPTBase]) -> str:
    if issubclass(T, DPTNumeric):
        return "numeric"
    if issubclass(T, DPTComplex):
        return "complex"
    if issubclass(T, DPTEnum):
        return "enum"
    return "text"


def is_binary(T: type[DPTBase]) -> bool:
    return T.payload_type is DPTBinary


def shape(T: type[DPTBase]) -> str:
    return ("bin" if is_binary(T) else "arr") + str(T.payload_length)


def owner(T: type, *names: str) -> type:
    """Most derived class in the MRO that defines one of `names` in its own body."""
    for c in T.__mro__:
        if any(n in c.__dict__ for n in names):
            return c
    return T


def decoder_owner(T: type[DPTBase]) -> type:
    return owner(T, "from_knx")


def encoder_owner(T: type[DPTBase]) -> type:
    return owner(T, "to_knx") if not issubclass(T, (DPTComplex, DPTEnum)) else owner(T, "_to_knx")


def _fmt(x: Any) -> str:
    if isinstance(x, float) and x == int(x) and abs(x) < 1e15:
        return str(int(x))
    return repr(x)


def _sig(T: type[DPTBase], parts: tuple[str, ...]) -> tuple:
    return tuple((p, getattr(T, {"res": "resolution", "min": "value_min", "max": "value_max"}[p], None)) for p in parts)


_LABELS: dict[tuple, str] = {}


def codec_label(T: type[DPTBase], parts: tuple[str, ...] = ("res",)) -> str:
    """Cached `_codec_label` (it walks the whole class tree)."""
    key = (T, parts)
    lab = _LABELS.get(key)
    if lab is None:
        lab = _LABELS[key] = _codec_label(T, parts)
    return lab


def _codec_label(T: type[DPTBase], parts: tuple[str, ...] = ("res",)) -> str:
    """Root-cause label of a codec failure seen on class T.

    Numeric subclasses differ from their base only by the declared resolution / range,
    so the root cause is (class that owns the codec, the declarations that matter).
    If only one concrete class has that signature its own name is the label
    (e.g. ``DPTPercentV16``), otherwise ``Owner:res=..:max=..``.
    Other kinds: the class itself when it defines its codec, else the shared base.
    """
    if issubclass(T, DPTNumeric):
        own = owner(T, "to_knx", "from_knx")
        sig = _sig(T, parts)
        same = [c for c in all_dpt_classes() if issubclass(c, DPTNumeric) and owner(c, "to_knx", "from_knx") is own and _sig(c, parts) == sig]
        if len(same) == 1:
            return T.__name__
        return own.__name__ + "".join(f":{k}={_fmt(v)}" for k, v in sig)
    own = owner(T, "from_knx", "_to_knx", "to_knx")
    return own.__name__


# --------------------------------------------------------------------------- payloads

Spec = tuple  # ("b", int) | ("a", bytes)


def mk(spec: Spec) -> DPTArray | DPTBinary:
    k, v = spec
    if k == "b":
        return DPTBinary(int(v))
    return DPTArray(bytes(v))


def spec_of_case(case: dict) -> Spec:
    """Inverse of `case_of` (after vk.core.unhex)."""
    if "binary" in case:
        return ("b", int(case["binary"]))
    arr = case["array"]
    return ("a", bytes(arr) if not isinstance(arr, (bytes, bytearray)) else bytes(arr))


def case_of(T: type[DPTBase], spec: Spec, **extra: Any) -> dict:
    d: dict[str, Any] = {"dpt": T.__name__}
    if spec[0] == "b":
        d["binary"] = int(spec[1])
    else:
        d["array"] = bytes(spec[1])
    d.update(extra)
    return d


def binary_specs() -> Iterator[Spec]:
    for v in range(64):
        yield ("b", v)


def array_specs_exhaustive(length: int, lo: int = 0, hi: int | None = None) -> Iterator[Spec]:
    """All arrays of `length` (0..2); for length 2, first octet in [lo, hi)."""
    if length == 0:
        yield ("a", b"")
    elif length == 1:
        for a in range(256):
            yield ("a", bytes((a,)))
    elif length == 2:
        for a in range(lo, 256 if hi is None else hi):
            for b in range(256):
                yield ("a", bytes((a, b)))
    else:
        raise ValueError(length)


def backgrounds(length: int, rng: random.Random, n_random: int) -> list[bytes]:
    out = [bytes(length), bytes([0xFF]) * length, bytes([0x01]) * length, bytes([0x7F]) * length]
    out += [bytes(rng.randrange(256) for _ in range(length)) for _ in range(n_random)]
    return out


def positional_sweep(length: int, rng: random.Random, n_random_bg: int = 3, extra_bg: list[bytes] | None = None) -> Iterator[Spec]:
    """Every octet value in every position over zero / ones / random backgrounds."""
    for bg in backgrounds(length, rng, n_random_bg) + list(extra_bg or []):
        base = bytearray(bg)
        for pos in range(length):
            keep = base[pos]
            for val in range(256):
                base[pos] = val
                yield ("a", bytes(base))
            base[pos] = keep


def pair_sweep(length: int, pos_a: int, pos_b: int, bg: bytes) -> Iterator[Spec]:
    """All 65536 values of two positions over one background."""
    base = bytearray(bg)
    for a in range(256):
        base[pos_a] = a
        for b in range(256):
            base[pos_b] = b
            yield ("a", bytes(base))


def wrong_length_specs(length: int | None, rng: random.Random, max_len: int = 20, per_len: int = 3) -> Iterator[Spec]:
    """Arrays of every length 0..max_len (and 254/255) other than `length`."""
    for n in [*range(max_len + 1), 254, 255]:
        if n == length:
            continue
        yield ("a", bytes(n))
        yield ("a", bytes([0xFF]) * n)
        for _ in range(per_len):
            yield ("a", bytes(rng.randrange(256) for _ in range(n)))


def random_array_specs(length: int, rng: random.Random, n: int) -> Iterator[Spec]:
    for _ in range(n):
        mode = rng.randrange(4)
        if mode == 0:  # uniform
            yield ("a", bytes(rng.randrange(256) for _ in range(length)))
        elif mode == 1:  # boundary-biased octets
            yield ("a", bytes(rng.choice((0, 1, 0x7F, 0x80, 0xFE, 0xFF, rng.randrange(256))) for _ in range(length)))
        elif mode == 2:  # sparse: mostly zero
            b = bytearray(length)
            for _ in range(rng.randrange(1, 3)):
                b[rng.randrange(length)] = rng.randrange(256)
            yield ("a", bytes(b))
        else:  # printable-ish (text types) / small fields
            yield ("a", bytes(rng.choice((rng.randrange(0x20, 0x7F), rng.randrange(32), rng.randrange(256))) for _ in range(length)))


def own_shape_specs(T: type[DPTBase], rng: random.Random, n_random: int, exhaustive2: bool = True, lo: int = 0, hi: int | None = None) -> Iterator[Spec]:
    """Payloads of T's own kind and length: the part of the space that reaches T's decoder.

    Exhaustive for DPTBinary types and arrays of <= 2 octets, positional sweep +
    random arrays beyond."""
    if is_binary(T):
        for s in binary_specs():
            if s[1] < 2**T.payload_length:
                yield s
        return
    n = T.payload_length
    if n <= 1 or (n == 2 and exhaustive2):
        yield from array_specs_exhaustive(n, lo, hi)
        return
    yield from positional_sweep(n, rng)
    yield from random_array_specs(n, rng, n_random)


def is_own_shape(T: type[DPTBase], spec: Spec) -> bool:
    if spec[0] == "b":
        return is_binary(T) and spec[1] < 2**T.payload_length
    return (not is_binary(T)) and len(spec[1]) == T.payload_length


# --------------------------------------------------------------------------- equality


def _norm(v: Any) -> Any:
    if isinstance(v, str):
        return v.replace("\ufffd", "?")
    return v


def same_value(a: Any, b: Any) -> bool:
    """Equality of decoded values: NaN equals NaN, U+FFFD equals '?', types must agree
    up to int/float (DPT 8 returns int*resolution)."""
    if isinstance(a, float) and isinstance(b, float) and math.isnan(a) and math.isnan(b):
        return True
    if isinstance(a, str) and isinstance(b, str):
        return _norm(a) == _norm(b)
    if isinstance(a, bool) != isinstance(b, bool):
        return False
    if isinstance(a, (int, float)) and isinstance(b, (int, float)):
        return a == b
    if type(a) is not type(b):
        return False
    return bool(a == b)


def zero_spec(T: type[DPTBase]) -> Spec:
    return ("b", 0) if is_binary(T) else ("a", bytes(T.payload_length))


# --------------------------------------------------------------------------- accepted-payload domains (C08, C10)

DATETIME_BG = [bytes((124, 6, 15, (3 << 5) | 12, 30, 45, 0x00, 0x00)), bytes((0, 12, 31, 24, 0, 0, 0x40, 0xC0)), bytes((255, 1, 1, 0xE0 | 23, 59, 59, 0x81, 0x80))]


def f32_specs(rng: random.Random, n: int) -> Iterator[Spec]:
    """Structured DPT 14 payloads: decimal boundaries, denormals, specials, random magnitudes."""
    vals = [0.0, -0.0, 1.0, -1.0, 0.1, 0.29, 1e-45, 1.1754942e-38, 1.17549435e-38, 3.4028235e38, -3.4028235e38, float("inf"), float("-inf"), 16777216.0, 16777217.0, 8.59e9, 9.999999e9]
    for k in range(-44, 39):
        vals += [10.0**k, 9.9999995 * 10.0**k, 1.0000001 * 10.0**k, 9.999999 * 10.0**k]
    for v in vals:
        try:
            yield ("a", struct.pack(">f", v))
        except OverflowError:
            pass
    yield ("a", bytes.fromhex("7fc00000"))  # NaN
    yield ("a", bytes.fromhex("ffc00001"))
    for _ in range(n):
        m = rng.uniform(1, 10) * 10.0 ** rng.randint(-44, 38)
        try:
            yield ("a", struct.pack(">f", m if rng.random() < 0.5 else -m))
        except OverflowError:
            pass


def representative(T: type[DPTBase]) -> bool:
    """True for the first class of each codec family (same owner and resolution)."""
    lab = codec_label(T)
    for c in all_dpt_classes():
        if codec_label(c) == lab:
            return c is T
    return True


FIELD16 = ("DPTColorXYY", "DPTColorXYYTransition", "DPTColorTemperatureTransition", "DPTTariffActiveEnergy")  # types with 16/32-bit fields


def roundtrip_specs(T: type[DPTBase], rng: random.Random, quick: bool, n_f32: int, n_random: int, pairs_quick: str = "no-datetime") -> Iterator[Spec]:
    """Payloads of T's own shape for the round-trip checks.

    Exhaustive for DPTBinary types and <= 2-octet arrays.  Longer: every octet value in
    every position over 7(+3) backgrounds, all 65536 values of adjacent octet pairs over
    flags-valid backgrounds (first class of each codec family only - the others share
    the code; quick tier: even-aligned pairs over one background), structured binary32
    payloads for 4-octet types, seeded random arrays."""
    n = T.payload_length
    if is_binary(T) or n <= 2:
        yield from own_shape_specs(T, rng, 0)
        return
    extra = DATETIME_BG if T.__name__ == "DPTDateTime" else []
    yield from positional_sweep(n, rng, n_random_bg=3, extra_bg=extra)
    pair_bgs = [bytes([0xFF]) * n, bytes(n)] + extra[:1]
    do_pairs = n <= 8 and representative(T)
    if quick and do_pairs:  # quick tier: 16-bit sweeps where they matter (pairs_quick: "no-datetime" | "field16")
        do_pairs = T.__name__ in FIELD16 if pairs_quick == "field16" else T.__name__ != "DPTDateTime"
    if do_pairs:
        for bg in pair_bgs[: 1 if quick else 3]:
            for pos in range(0, n - 1, 2 if quick else 1):
                yield from pair_sweep(n, pos, pos + 1, bg)
    if n == 4:
        yield from f32_specs(rng, n_f32)
    yield from random_array_specs(n, rng, n_random)


def fail_capped(ctx: Any, bucket: str, inp: Any, detail: Any, cap: int = 300) -> None:
    """ctx.fail, but after `cap` recorded cases of a bucket (per shard) only count the rest.

    `detail` may be a zero-argument callable so that the text is only built when kept."""
    if ctx.fail_counts[bucket] >= cap:
        ctx.fail_counts[bucket] += 1
        return
    ctx.fail(bucket, inp() if callable(inp) else inp, detail() if callable(detail) else detail)


def cause_site(e: BaseException) -> str:
    """Root-cause key of a wrapped error: vk.core.exc_site of the innermost __cause__."""
    from vk.core import exc_site

    seen = 0
    while e.__cause__ is not None and seen < 10:
        e = e.__cause__
        seen += 1
    return exc_site(e)
