"""Search drivers: Hypothesis collect-then-shrink and sharded parallel runs."""

from __future__ import annotations

import multiprocessing as mp
import time
import traceback
from typing import Any, Callable

import hypothesis
from hypothesis import HealthCheck, Phase, given, settings
from hypothesis.errors import NoSuchExample

from .core import Ctx, HarnessError, Stats, cpu_count

BASE_SETTINGS = dict(
    database=None,
    deadline=None,
    derandomize=False,
    report_multiple_bugs=False,
    suppress_health_check=list(HealthCheck),
)


def hyp_settings(max_examples: int, shrink: bool = False, **kw: Any) -> settings:
    phases = [Phase.generate] + ([Phase.shrink] if shrink else [])
    return settings(max_examples=max_examples, phases=phases, **{**BASE_SETTINGS, **kw})


def hyp_collect(
    ctx: Ctx,
    strategy: Any,
    oracle: Callable[[Ctx, Any], None],
    max_examples: int,
    seed_salt: int = 0,
) -> None:
    """Generate `max_examples` cases; the oracle records on ctx and must not raise
    for property violations. An exception out of the oracle is a harness error."""

    @hypothesis.seed(ctx.shard_seed() + seed_salt)
    @hyp_settings(max_examples)
    @given(strategy)
    def body(x: Any) -> None:
        oracle(ctx, x)

    body()


def hyp_shrink(
    ctx: Ctx,
    strategy: Any,
    oracle: Callable[[Ctx, Any], None],
    bucket: str,
    cap_s: float,
    seed_salt: int = 0,
    max_examples: int = 4000,
) -> Any | None:
    """Find a minimal input failing in `bucket`. None if not found within the cap."""
    t_end = time.monotonic() + cap_s
    best: list[Any] = []

    def pred(x: Any) -> bool:
        if time.monotonic() > t_end:
            return False
        c = ctx.sub(ctx.shard)
        oracle(c, x)
        hit = bucket in c.failures
        if hit:
            best[:] = [c.failures[bucket][0]]
        return hit

    try:
        hypothesis.find(
            strategy,
            pred,
            settings=settings(
                max_examples=max_examples,
                phases=[Phase.generate, Phase.shrink],
                **BASE_SETTINGS,
            ),
            random=__import__("random").Random(ctx.shard_seed() + seed_salt),
        )
    except NoSuchExample:
        pass
    except Exception:  # noqa: BLE001 - shrinking is best effort
        traceback.print_exc()
    return best[0] if best else None


def hyp_search(
    ctx: Ctx,
    strategy: Any,
    oracle: Callable[[Ctx, Any], None],
    max_examples: int,
    seed_salt: int = 0,
    shrink_cap_s: float | None = None,
) -> None:
    """Collect, then shrink every new (not excluded) bucket separately."""
    before = set(ctx.failures)
    hyp_collect(ctx, strategy, oracle, max_examples, seed_salt)
    new = [b for b in ctx.failures if b not in before and b not in ctx.excluded]
    cap = shrink_cap_s if shrink_cap_s is not None else (20.0 if ctx.quick else 120.0)
    for b in new[:8]:
        rec = hyp_shrink(ctx, strategy, oracle, b, cap, seed_salt)
        if rec is not None:
            lst = ctx.failures[b]
            lst.insert(0, {**rec, "shrunk": True})
            lst.sort(key=lambda r: r["size"])
            del lst[3:]


# ---------------------------------------------------------------------------


def _worker(args: tuple) -> Any:
    fn, ctx, shard, extra = args
    sub = ctx.sub(shard)
    try:
        fn(sub, *extra)
    except Exception as e:  # noqa: BLE001
        return ("error", f"shard {shard}: {type(e).__name__}: {e}\n{traceback.format_exc()}")
    return ("ok", _strip(sub))


def _strip(ctx: Ctx) -> Stats:
    s = Stats()
    s.__dict__.update({k: v for k, v in ctx.__dict__.items() if k in s.__dict__})
    return s


def parallel(
    ctx: Ctx,
    fn: Callable[..., None],
    shards: int | list[tuple],
    procs: int | None = None,
) -> None:
    """Run fn(sub_ctx, *extra) for every shard in a fork pool and merge results.

    `shards` is a count (extra = ()) or a list of extra-argument tuples.
    """
    jobs = [()] * shards if isinstance(shards, int) else list(shards)
    procs = procs or min(cpu_count(), len(jobs)) or 1
    args = [(fn, ctx, i, extra) for i, extra in enumerate(jobs)]
    if procs <= 1 or len(jobs) <= 1:
        results = [_worker(a) for a in args]
    else:
        mpctx = mp.get_context("fork")
        with mpctx.Pool(procs) as pool:
            results = pool.map(_worker, args, chunksize=1)
    for kind, payload in results:
        if kind == "error":
            raise HarnessError(payload)
        ctx.merge(payload)
