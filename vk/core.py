"""Core of the verification kit: case accounting, root-cause buckets, evidence.

A check module (checks/cNN.py) exposes

    PROPERTY   = "C03"
    LEVEL      = "exploration" | "fault_enumeration"
    RULE       = "how cases are generated and what makes one non-trivial"
    ASSUMPTIONS = [...]
    def selftest(ctx): ...          # optional: reference self tests, raise on error
    def run(ctx): ...               # generated search; records cases and failures
    def replay(ctx, case): ...      # re-execute one saved input (dict)

and never raises for a property violation: it calls ``ctx.fail(bucket, input, detail)``
so the search continues behind shallow defects (collect-then-shrink).
"""

from __future__ import annotations

from collections import Counter
import hashlib
import json
import os
import traceback
from typing import Any, Callable, Iterable

MAX_PER_BUCKET = 3
MAX_SAMPLES = 12


def jsonable(x: Any, depth: int = 0) -> Any:
    """Best-effort conversion of a case description into JSON-native data."""
    if depth > 8:
        return repr(x)
    if x is None or isinstance(x, (bool, int, str)):
        return x
    if isinstance(x, float):
        if x != x or x in (float("inf"), float("-inf")):
            return repr(x)
        return x
    if isinstance(x, (bytes, bytearray)):
        return {"hex": bytes(x).hex()}
    if isinstance(x, dict):
        return {str(k): jsonable(v, depth + 1) for k, v in x.items()}
    if isinstance(x, (list, tuple, set, frozenset)):
        return [jsonable(v, depth + 1) for v in x]
    return repr(x)


def unhex(x: Any) -> Any:
    """Inverse of jsonable for byte strings (recursively)."""
    if isinstance(x, dict):
        if set(x) == {"hex"}:
            return bytes.fromhex(x["hex"])
        return {k: unhex(v) for k, v in x.items()}
    if isinstance(x, list):
        return [unhex(v) for v in x]
    return x


def _h(key: Any) -> int:
    if isinstance(key, (bytes, bytearray)):
        raw = bytes(key)
    else:
        raw = repr(key).encode("utf-8", "backslashreplace")
    return int.from_bytes(hashlib.blake2b(raw, digest_size=8).digest(), "big")


def exc_site(exc: BaseException, package: str = "xknx") -> str:
    """Root-cause key of an exception: type + innermost frame inside `package`.

    module:function, never a line number, so that the key survives edits.
    """
    site = "?"
    tb = exc.__traceback__
    while tb is not None:
        mod = tb.tb_frame.f_globals.get("__name__", "")
        if mod == package or mod.startswith(package + "."):
            code = tb.tb_frame.f_code
            qual = getattr(code, "co_qualname", code.co_name)
            site = f"{mod}:{qual}"
        tb = tb.tb_next
    return f"{type(exc).__name__}@{site}"


class Stats:
    """Mergeable, picklable accounting of one (shard of a) run."""

    def __init__(self) -> None:
        self.evaluations = 0
        self.nontrivial: set[int] = set()
        self.nontrivial_counted = 0  # distinct by construction (enumerations)
        self.classes: Counter[str] = Counter()
        self.samples: list[Any] = []
        self._sample_seen = 0
        self.failures: dict[str, list[dict[str, Any]]] = {}
        self.fail_counts: Counter[str] = Counter()
        self.notes: dict[str, Any] = {}
        self.exhaustive: bool | None = None

    # -- cases -----------------------------------------------------------
    def case(
        self,
        key: Any = None,
        nontrivial: bool = True,
        cls: str | Iterable[str] | None = None,
        sample: Any = None,
    ) -> None:
        """Record one evaluated case.

        key: identity of the case (hashed) for the distinct count.
        """
        self.evaluations += 1
        if nontrivial and key is not None:
            if len(self.nontrivial) < 3_000_000:
                self.nontrivial.add(_h(key))
        if cls is not None:
            if isinstance(cls, str):
                self.classes[cls] += 1
            else:
                for c in cls:
                    self.classes[c] += 1
        if sample is not None:
            self.sample(sample)

    def bulk(self, n: int, nontrivial: int, cls: str | None = None) -> None:
        """Record n evaluated cases of an enumeration that are distinct by
        construction, `nontrivial` of them non-trivial (counted by the caller)."""
        self.evaluations += n
        self.nontrivial_counted += nontrivial
        if cls is not None:
            self.classes[cls] += n

    def sample(self, sample: Any) -> None:
        """Deterministic reservoir: keep the first few, then sparse later ones."""
        self._sample_seen += 1
        n = self._sample_seen
        if len(self.samples) < MAX_SAMPLES // 2:
            self.samples.append(jsonable(sample))
        elif n & (n - 1) == 0:  # powers of two
            if len(self.samples) >= MAX_SAMPLES:
                self.samples.pop(MAX_SAMPLES // 2)
            self.samples.append(jsonable(sample))

    # -- failures --------------------------------------------------------
    def fail(self, bucket: str, input: Any, detail: str = "") -> None:
        self.fail_counts[bucket] += 1
        rec = {"input": jsonable(input), "detail": detail[:2000]}
        rec["size"] = len(json.dumps(rec["input"], sort_keys=True, default=repr))
        lst = self.failures.setdefault(bucket, [])
        lst.append(rec)
        lst.sort(key=lambda r: r["size"])
        del lst[MAX_PER_BUCKET:]

    # -- merge -----------------------------------------------------------
    def merge(self, other: "Stats") -> None:
        self.evaluations += other.evaluations
        self.nontrivial |= other.nontrivial
        self.nontrivial_counted += other.nontrivial_counted
        self.classes.update(other.classes)
        for s in other.samples:
            if len(self.samples) < MAX_SAMPLES:
                self.samples.append(s)
        self.fail_counts.update(other.fail_counts)
        for b, lst in other.failures.items():
            cur = self.failures.setdefault(b, [])
            cur.extend(lst)
            cur.sort(key=lambda r: r["size"])
            del cur[MAX_PER_BUCKET:]
        for k, v in other.notes.items():
            if isinstance(v, (int, float)) and isinstance(self.notes.get(k), (int, float)):
                self.notes[k] += v
            else:
                self.notes.setdefault(k, v)

    @property
    def distinct_nontrivial(self) -> int:
        return len(self.nontrivial) + self.nontrivial_counted


class Ctx(Stats):
    """Per-run context handed to check modules."""

    def __init__(self, prop: str, tier: str, seed: int, shard: int = 0) -> None:
        super().__init__()
        self.prop = prop
        self.tier = tier
        self.seed = seed
        self.shard = shard
        self.quick = tier == "quick"
        self.excluded: set[str] = set()  # known buckets (excluded by construction)

    def n(self, quick: int, thorough: int) -> int:
        return quick if self.quick else thorough

    def sub(self, shard: int) -> "Ctx":
        c = Ctx(self.prop, self.tier, self.seed, shard)
        c.excluded = set(self.excluded)
        return c

    def shard_seed(self, shard: int | None = None) -> int:
        s = self.shard if shard is None else shard
        return (self.seed * 1_000_003 + s * 7919 + 12345) & 0x7FFFFFFF

    def guard(self, bucket_prefix: str, input: Any, fn: Callable[[], Any], allowed: tuple = ()) -> Any:
        """Run fn(); an exception outside `allowed` is recorded as a failure.

        Returns (ok, value_or_exception).
        """
        try:
            return True, fn()
        except allowed as e:  # type: ignore[misc]
            return False, e
        except RecursionError as e:
            self.fail(f"{bucket_prefix}:exc:RecursionError", input, "RecursionError")
            return False, e
        except Exception as e:  # noqa: BLE001
            self.fail(f"{bucket_prefix}:exc:{exc_site(e)}", input, "".join(traceback.format_exception_only(type(e), e)))
            return False, e


class HarnessError(Exception):
    """Problem in the checking machinery, never a property violation (exit 2)."""


def cpu_count() -> int:
    try:
        return max(1, min(16, len(os.sched_getaffinity(0))))
    except Exception:  # noqa: BLE001
        return max(1, min(16, os.cpu_count() or 1))
