"""Deterministic step / memory budgets for code under test (DESIGN §2.6).

`StepBudget(limit)` is a context manager that counts executed *steps* of the code
under test - sys.monitoring (Python 3.12) PY_START, LINE, JUMP and BRANCH events,
enabled only on code objects whose file lives in the `xknx` package that is
actually imported (so `VERIF_REPO` copies work) - and raises
`StepBudgetExceeded` out of the monitored code once `limit` is exceeded. The
exception is raised from the monitoring callback, which CPython propagates into
the frame that triggered the event; this interrupts even `while True: pass`
style loops (verified in `selftest()`), without any wall clock.

Because only xknx code objects carry local events, harness / Hypothesis / stdlib
code costs nothing and is never counted.

`MemBudget` wraps tracemalloc peak measurement for one call.

Usage:

    with StepBudget(A + B * len(data)) as sb:
        parse(data)
    sb.steps            # steps used
    except StepBudgetExceeded as e:  e.site  (hot functions, root-cause key)
"""

from __future__ import annotations

import os
import sys
import tracemalloc
import types
from collections import Counter

mon = sys.monitoring
TOOL_ID = 4  # free id (0 debugger, 1 coverage, 2 profiler, 5 optimizer)
_EVENTS = mon.events.PY_START | mon.events.LINE | mon.events.JUMP | mon.events.BRANCH


class StepBudgetExceeded(BaseException):
    """Raised inside the code under test when the step budget is exhausted.

    BaseException on purpose: `except Exception` guards inside the code under test
    must not swallow it.
    """

    def __init__(self, limit: int, site: str) -> None:
        super().__init__(f"step budget {limit} exceeded at {site}")
        self.limit = limit
        self.site = site


class _State:
    active: "StepBudget | None" = None
    instrumented: set = set()
    n_modules = -1
    pkg_dir = ""
    registered = False


def _pkg_dir() -> str:
    import xknx

    return os.path.dirname(os.path.abspath(xknx.__file__)) + os.sep


def _walk_code(code: types.CodeType, out: set) -> None:
    if code in out:
        return
    out.add(code)
    for c in code.co_consts:
        if isinstance(c, types.CodeType):
            _walk_code(c, out)


def _collect_codes() -> set:
    pkg = _State.pkg_dir
    out: set = set()
    seen: set = set()

    def visit(obj, depth=0):
        if id(obj) in seen or depth > 4:
            return
        seen.add(id(obj))
        if isinstance(obj, (staticmethod, classmethod)):
            obj = obj.__func__
        if isinstance(obj, property):
            for f in (obj.fget, obj.fset, obj.fdel):
                if f is not None:
                    visit(f, depth + 1)
            return
        if isinstance(obj, types.FunctionType):
            if os.path.abspath(obj.__code__.co_filename).startswith(pkg):
                _walk_code(obj.__code__, out)
            return
        if isinstance(obj, type):
            mod = sys.modules.get(getattr(obj, "__module__", ""), None)
            f = getattr(mod, "__file__", None) or ""
            if os.path.abspath(f).startswith(pkg):
                for v in list(vars(obj).values()):
                    visit(v, depth + 1)

    for name, mod in list(sys.modules.items()):
        if mod is None or not (name == "xknx" or name.startswith("xknx.")):
            continue
        f = getattr(mod, "__file__", None) or ""
        if not os.path.abspath(f).startswith(pkg):
            continue
        for v in list(vars(mod).values()):
            visit(v)
    return out


def _instrument() -> None:
    """(Re)scan loaded xknx modules and enable local events on their code objects."""
    n = len(sys.modules)  # cheap change detector; a rescan is only needed when modules were imported
    if n == _State.n_modules:
        return
    _State.n_modules = n
    if not _State.pkg_dir:
        _State.pkg_dir = _pkg_dir()
    for code in _collect_codes() - _State.instrumented:
        mon.set_local_events(TOOL_ID, code, _EVENTS)
        _State.instrumented.add(code)


def _tick(code: types.CodeType, *_a) -> None:
    sb = _State.active
    if sb is None:
        return
    sb.steps += 1
    if sb.profile is not None:
        sb.profile[code.co_qualname] += 1
    if sb.steps > sb.limit:
        if sb.profile is None:
            # switch to profiling for a short tail to name the hot functions
            sb.profile = Counter()
            sb.limit = sb.limit + sb.tail
            sb.tripped = True
            return
        _State.active = None  # disarm before raising
        raise StepBudgetExceeded(sb.orig_limit, sb.hot_site())


def _register() -> None:
    if _State.registered:
        return
    cur = mon.get_tool(TOOL_ID)
    if cur is None:
        mon.use_tool_id(TOOL_ID, "vk-budget")
    elif cur != "vk-budget":
        raise RuntimeError(f"sys.monitoring tool id {TOOL_ID} in use by {cur}")
    for ev in (mon.events.PY_START, mon.events.LINE, mon.events.JUMP, mon.events.BRANCH):
        mon.register_callback(TOOL_ID, ev, _tick)
    _State.registered = True


class StepBudget:
    """Context manager; not re-entrant (one active budget per process)."""

    def __init__(self, limit: int, tail: int = 400) -> None:
        self.limit = int(limit)
        self.orig_limit = int(limit)
        self.tail = tail
        self.steps = 0
        self.profile: Counter | None = None
        self.tripped = False

    def hot_site(self) -> str:
        """Functions that account for >= 15 % of the steps in the tail window,
        sorted by name: a line-number-free key of the loop that does not end."""
        prof = self.profile or Counter()
        tot = sum(prof.values()) or 1
        hot = sorted(q for q, c in prof.items() if c * 100 >= 15 * tot)
        return "+".join(hot) or "?"

    def __enter__(self) -> "StepBudget":
        _register()
        _instrument()
        if _State.active is not None:
            raise RuntimeError("StepBudget is not re-entrant")
        _State.active = self
        return self

    def __exit__(self, *exc) -> bool:
        _State.active = None
        return False


class MemBudget:
    """tracemalloc peak of one call, relative to the level at entry."""

    def __init__(self) -> None:
        self.peak = 0
        self._started_here = False

    def __enter__(self) -> "MemBudget":
        if not tracemalloc.is_tracing():
            tracemalloc.start(1)
            self._started_here = True
        tracemalloc.reset_peak()
        self._base = tracemalloc.get_traced_memory()[0]
        return self

    def __exit__(self, *exc) -> bool:
        cur, peak = tracemalloc.get_traced_memory()
        self.peak = max(0, peak - self._base)
        if self._started_here:
            tracemalloc.stop()
        return False


def selftest() -> None:
    """The budget must interrupt a non-terminating loop inside xknx code and must
    count nothing outside xknx."""
    import xknx.knxip.hpai as hpai_mod

    src = "def _vk_spin(n):\n    i = 0\n    while True:\n        i += 1\n        if i == n:\n            return i\n"
    fake = os.path.join(os.path.dirname(hpai_mod.__file__), "_vk_budget_selftest.py")
    ns: dict = {"__name__": "xknx.knxip._vk_budget_selftest"}
    exec(compile(src, fake, "exec"), ns)  # noqa: S102 - code object filed under the xknx dir
    spin = ns["_vk_spin"]
    _register()
    _instrument()
    mon.set_local_events(TOOL_ID, spin.__code__, _EVENTS)
    try:
        with StepBudget(10_000) as sb:
            spin(50)
        assert 100 < sb.steps < 1000, sb.steps
        try:
            with StepBudget(5_000):
                spin(-1)  # never returns
        except StepBudgetExceeded as e:
            assert "_vk_spin" in e.site, e.site
        else:
            raise AssertionError("budget did not interrupt the loop")
        with StepBudget(10) as sb2:
            sum(range(1000))  # non-xknx code is free
        assert sb2.steps == 0
    finally:
        mon.set_local_events(TOOL_ID, spin.__code__, 0)
