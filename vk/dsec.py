"""Helpers for the Data Secure history checks (C17, C18): frame builders and receivers.

Frames are *built* with xknx's SecureData (the MAC / ciphertext construction itself is
judged against an independent CCM implementation by C19); the verdicts of C17/C18 are
about freshness, key lookup and error handling in the receive path.
"""

from __future__ import annotations

import asyncio
from typing import Any

from xknx import XKNX
from xknx.cemi import CEMIFlags, CEMIFrame, CEMILData, CEMIMessageCode, CEMIPriority
from xknx.secure.data_secure import DataSecure
from xknx.secure.data_secure_asdu import SecureData, SecurityAlgorithmIdentifier, SecurityALService, SecurityControlField
from xknx.telegram import GroupAddress, IndividualAddress
from xknx.telegram.apci import SecureAPDU
from xknx.telegram.tpci import TDataGroup

ENC = SecurityAlgorithmIdentifier.CCM_ENCRYPTION
AUTH = SecurityAlgorithmIdentifier.CCM_AUTHENTICATION


def secure_frame(key: bytes, src: int, dst: int, seq: int, apdu: bytes, algorithm: Any = ENC, code: Any = CEMIMessageCode.L_DATA_IND) -> bytes:
    """Raw cEMI L_Data frame carrying `apdu` (raw plain APDU octets) secured with `key`."""
    src_a, dst_a = IndividualAddress(src), GroupAddress(dst)
    plain = CEMILData(flags=CEMIFlags(priority=CEMIPriority.LOW), src_addr=src_a, dst_addr=dst_a, tpci=TDataGroup(), payload=None)
    scf = SecurityControlField(algorithm=algorithm, service=SecurityALService.S_A_DATA, system_broadcast=False, tool_access=False)
    sd = SecureData.init_from_plain_apdu(
        key=key,
        apdu=apdu,
        scf=scf,
        sequence_number=seq,
        address_fields_raw=src_a.to_knx() + dst_a.to_knx(),
        address_type=plain.address_type,
        frame_format=plain.flags.frame_format,
        tpci=plain.tpci,
    )
    plain.payload = SecureAPDU(scf=scf, secured_data=sd)
    return CEMIFrame(code=code, data=plain).to_knx()


def plain_frame(src: int, dst: int, apdu_obj: Any, code: Any = CEMIMessageCode.L_DATA_IND) -> bytes:
    data = CEMILData(flags=CEMIFlags(priority=CEMIPriority.LOW), src_addr=IndividualAddress(src), dst_addr=GroupAddress(dst), tpci=TDataGroup(), payload=apdu_obj)
    return CEMIFrame(code=code, data=data).to_knx()


class Receiver:
    """A real XKNX whose CEMIHandler has a DataSecure instance built from plain tables."""

    def __init__(self, group_keys: dict[int, bytes], senders: dict[int, int], last_seq_sending: int = 1000) -> None:
        self.xknx = XKNX()
        self.ds = DataSecure(
            group_key_table={GroupAddress(g): k for g, k in group_keys.items()},
            individual_address_table={IndividualAddress(a): s for a, s in senders.items()},
            last_sequence_number_sending=last_seq_sending,
        )
        self.xknx.cemi_handler.data_secure = self.ds
        self.key_issues: list[Any] = []
        self.xknx.telegram_queue.register_data_secure_group_key_issue_cb(self.key_issues.append)

    def feed(self, raw: bytes) -> tuple[list[Any], BaseException | None]:
        """Feed one raw cEMI frame. Returns (telegrams newly queued, exception that escaped or None)."""
        exc = None
        try:
            self.xknx.cemi_handler.handle_raw_cemi(raw)
        except Exception as e:  # noqa: BLE001 - observed, judged by the caller
            exc = e
        out = []
        q = self.xknx.telegrams
        while q.qsize():
            out.append(q.get_nowait())
            q.task_done()
        return out, exc

    def close(self) -> None:
        self.xknx.started.clear()


def with_loop(fn):  # type: ignore[no-untyped-def]
    """Run fn() with a private current event loop (XKNX creates asyncio primitives)."""
    loop = asyncio.new_event_loop()
    try:
        asyncio.set_event_loop(loop)
        return fn()
    finally:
        asyncio.set_event_loop(None)
        loop.close()
