"""Simulated KNXnet/IP gateway (tunnelling + device management server) for vloop.

The simulator is the `net` object of a `VLoop`. It answers Connect / ConnectionState /
Disconnect / Tunnelling / DeviceConfiguration traffic of ONE client and can be scripted
with *plans* (lists of outcomes consumed one per event; default outcome when a plan is
exhausted) - plans are plain data so Hypothesis can draw them and shrink them.

Wire log: `self.log` is a list of dicts with virtual time `t`, loop `tick`, direction
`dir` ("c2s" client->server, "s2c" server->client, logged at *delivery* time) and the
parsed fields of the frame. Frames are built and parsed with xknx.knxip (the codecs are
judged separately by C20/C21); the simulator never calls into tunnel / connection code.
"""

from __future__ import annotations

from typing import Any

from xknx.knxip import (
    HPAI,
    ConnectionStateRequest,
    ConnectionStateResponse,
    ConnectRequest,
    ConnectRequestType,
    ConnectResponse,
    ConnectResponseData,
    DeviceConfigurationAck,
    DeviceConfigurationRequest,
    DisconnectRequest,
    DisconnectResponse,
    ErrorCode,
    HostProtocol,
    KNXIPFrame,
    TunnellingAck,
    TunnellingRequest,
)
from xknx.telegram import IndividualAddress

GW_ADDR = ("10.0.0.1", 3671)
NET_DELAY = 0.005


class SimGateway:
    def __init__(self) -> None:
        self.loop: Any = None  # set by attach()
        self.log: list[dict[str, Any]] = []
        self.tr: Any = None  # current client transport
        self.transports: list[Any] = []
        self.channel: int | None = None
        self._next_channel = 7
        self.epoch = 0  # number of completed connect handshakes
        self.individual_address = IndividualAddress("1.1.7")
        # plans -----------------------------------------------------------
        self.connect_plan: list[Any] = []  # "ok" | "drop" | ("err", ErrorCode) | ("delay", s)
        self.connect_default: Any = "ok"
        self.hb_plan: list[Any] = []  # "ok" | "drop" | "err"
        self.hb_default: Any = "ok"
        self.ack_plan: list[Any] = []  # see _on_tunnelling_request
        self.ack_default: Any = "ack"
        self.disc_plan: list[Any] = []  # "ok" | "drop" | ("delay", s)
        self.disc_default: Any = "ok"
        self.open_plan: list[Any] = []  # TCP connect: "ok" | "refuse"
        self.open_default: Any = "ok"
        self.devcfg_plan: list[Any] = []
        self.devcfg_default: Any = "ack"
        self.send_con = True  # answer tunnelled L_Data.req with L_Data.con tunnelling request
        self.server_seq = 0  # sequence counter of server->client data frames
        self._tcp_buf = b""
        self.hooks: dict[str, Any] = {}
        # [(raw_cemi, seq[, extra log fields]), ...] delivered in the same callback as the next successful ConnectResponse
        # (list: consumed once; callable(gw) -> list: asked at every handshake). Empty = previous behaviour.
        self.behind_handshake: Any = []
        # called (once, then cleared) right BEFORE a ConnectResponse is handed to the client's protocol: whatever it wakes
        # up runs in the next loop iteration ahead of the client's connect() coroutine
        self.before_handshake: Any = None
        self.errors: list[str] = []  # simulator-internal errors (harness errors, never violations)

    def attach(self, loop: Any) -> None:
        self.loop = loop
        loop.net = self

    # -- plumbing ---------------------------------------------------------
    def _take(self, plan: list[Any], default: Any) -> Any:
        return plan.pop(0) if plan else default

    def _log(self, direction: str, frame: KNXIPFrame | None, raw: bytes, **extra: Any) -> dict[str, Any]:
        e: dict[str, Any] = {"t": round(self.loop.time(), 6), "tick": self.loop.tick, "dir": direction, "epoch": self.epoch}
        if frame is not None:
            b = frame.body
            e["kind"] = type(b).__name__
            for attr in ("communication_channel_id", "communication_channel", "sequence_counter", "status_code", "raw_cemi"):
                if hasattr(b, attr):
                    v = getattr(b, attr)
                    e[{"communication_channel": "communication_channel_id"}.get(attr, attr)] = v.name if isinstance(v, ErrorCode) else v
        else:
            e["kind"] = "unparsed"
            e["raw"] = raw
        e.update(extra)
        self.log.append(e)
        return e

    def to_client(self, body: Any, delay: float = NET_DELAY, tr: Any = None, **extra: Any) -> None:
        """Queue a frame for delivery to the client after `delay` virtual seconds."""
        tr = tr or self.tr
        frame = KNXIPFrame.init_from_body(body)
        raw = frame.to_knx()
        self.raw_to_client(raw, delay, tr, frame=frame, **extra)

    def raw_to_client(self, raw: bytes, delay: float = NET_DELAY, tr: Any = None, frame: Any = None, **extra: Any) -> None:
        tr = tr or self.tr
        if tr is None:
            return

        def _deliver() -> None:
            if tr.closed:
                return
            self._log("s2c", frame, raw, **extra)
            if tr.kind == "udp":
                tr.protocol.datagram_received(raw, GW_ADDR)
            else:
                tr.protocol.data_received(raw)

        if delay > 0:
            self.loop.call_later(delay, _deliver)
        else:
            self.loop.call_soon(_deliver)

    # -- transport events -------------------------------------------------
    def on_datagram_open(self, tr: Any) -> None:
        self.transports.append(tr)

    def on_stream_open(self, tr: Any) -> float:
        o = self._take(self.open_plan, self.open_default)
        if o == "refuse":
            raise ConnectionRefusedError("simulated: connection refused")
        self.transports.append(tr)
        self.tr = tr
        self._tcp_buf = b""
        return NET_DELAY

    def on_transport_closed(self, tr: Any) -> None:
        self.log.append({"t": round(self.loop.time(), 6), "tick": self.loop.tick, "dir": "c2s", "kind": "transport_closed", "epoch": self.epoch})

    def on_datagram(self, tr: Any, data: bytes, addr: Any) -> None:
        self.tr = tr
        try:
            frame, _ = KNXIPFrame.from_knx(data)
        except Exception:  # noqa: BLE001
            self._log("c2s", None, data)
            return
        self._safe_dispatch(tr, frame, data)

    def _safe_dispatch(self, tr: Any, frame: KNXIPFrame, raw: bytes) -> None:
        """A bug in the simulator must never surface inside the client's call stack."""
        try:
            self._dispatch(tr, frame, raw)
        except Exception as e:  # noqa: BLE001
            import traceback

            self.errors.append(f"{type(e).__name__}: {e}\n{traceback.format_exc()}")

    def on_stream_data(self, tr: Any, data: bytes) -> None:
        self.tr = tr
        self._tcp_buf += data
        while len(self._tcp_buf) >= 6:
            total = int.from_bytes(self._tcp_buf[4:6], "big")
            if total < 6 or len(self._tcp_buf) < total:
                break
            raw, self._tcp_buf = self._tcp_buf[:total], self._tcp_buf[total:]
            try:
                frame, _ = KNXIPFrame.from_knx(raw)
            except Exception:  # noqa: BLE001
                self._log("c2s", None, raw)
                continue
            self._safe_dispatch(tr, frame, raw)

    # -- protocol ---------------------------------------------------------
    def _dispatch(self, tr: Any, frame: KNXIPFrame, raw: bytes) -> None:
        body = frame.body
        entry = self._log("c2s", frame, raw)
        hook = self.hooks.get(type(body).__name__)
        if hook is not None and hook(self, body, entry):
            return
        if isinstance(body, ConnectRequest):
            self._on_connect(tr, body)
        elif isinstance(body, ConnectionStateRequest):
            self._on_connectionstate(tr, body)
        elif isinstance(body, DisconnectRequest):
            self._on_disconnect(tr, body)
        elif isinstance(body, TunnellingRequest):
            self._on_tunnelling_request(tr, body, entry)
        elif isinstance(body, DeviceConfigurationRequest):
            self._on_devcfg_request(tr, body, entry)
        # TunnellingAck / DeviceConfigurationAck / DisconnectResponse: logged only

    def _on_connect(self, tr: Any, body: ConnectRequest) -> None:
        o = self._take(self.connect_plan, self.connect_default)
        delay = NET_DELAY
        if isinstance(o, tuple) and o[0] == "delay":
            delay, o = o[1], "ok"
        if o == "drop":
            return
        if isinstance(o, tuple) and o[0] == "err":
            crd = ConnectResponseData(request_type=body.cri.connection_type, individual_address=IndividualAddress(0))
            self.to_client(ConnectResponse(communication_channel=0, status_code=o[1], crd=crd), delay, tr)
            return
        self._next_channel = self._next_channel % 250 + 1
        ch = self._next_channel
        is_tunnel = body.cri.connection_type == ConnectRequestType.TUNNEL_CONNECTION
        proto = HostProtocol.IPV4_TCP if tr.kind == "tcp" else HostProtocol.IPV4_UDP
        hpai = HPAI(protocol=proto) if tr.kind == "tcp" else HPAI(*GW_ADDR)
        crd = ConnectResponseData(
            request_type=body.cri.connection_type,
            individual_address=self.individual_address if is_tunnel else None,
        )
        resp = ConnectResponse(communication_channel=ch, status_code=ErrorCode.E_NO_ERROR, data_endpoint=hpai, crd=crd)

        def _established() -> None:
            pass

        # the channel exists on the server from now on; the epoch is counted when the response is delivered
        self.channel = ch
        self.server_seq = 0
        frame = KNXIPFrame.init_from_body(resp)
        raw = frame.to_knx()

        def _deliver() -> None:
            if tr.closed:
                return
            self.epoch += 1
            if self.before_handshake is not None:
                cb, self.before_handshake = self.before_handshake, None
                cb(self)
            self._log("s2c", frame, raw, handshake=True)
            if tr.kind == "udp":
                tr.protocol.datagram_received(raw, GW_ADDR)
            else:
                tr.protocol.data_received(raw)
            # data frames right behind the handshake: handed to the protocol in the SAME loop iteration
            # as the ConnectResponse, i.e. before the client's connect() coroutine is resumed
            items = self.behind_handshake
            if callable(items):
                items = items(self)
            else:
                self.behind_handshake = []
            for it in items or []:
                if tr.closed:
                    break
                extra = it[2] if len(it) > 2 else {}
                req = TunnellingRequest(ch, it[1], it[0]) if is_tunnel else DeviceConfigurationRequest(ch, it[1], it[0])
                f2 = KNXIPFrame.init_from_body(req)
                r2 = f2.to_knx()
                self._log("s2c", f2, r2, behind_handshake=True, **extra)
                if tr.kind == "udp":
                    tr.protocol.datagram_received(r2, GW_ADDR)
                else:
                    tr.protocol.data_received(r2)

        self.loop.call_later(delay, _deliver)

    def _on_connectionstate(self, tr: Any, body: ConnectionStateRequest) -> None:
        o = self._take(self.hb_plan, self.hb_default)
        if o == "drop":
            return
        status = ErrorCode.E_NO_ERROR
        if o == "err" or body.communication_channel_id != self.channel:
            status = ErrorCode.E_CONNECTION_ID
        self.to_client(ConnectionStateResponse(communication_channel_id=body.communication_channel_id, status_code=status), NET_DELAY, tr)

    def _on_disconnect(self, tr: Any, body: DisconnectRequest) -> None:
        o = self._take(self.disc_plan, self.disc_default)
        if body.communication_channel_id == self.channel:
            self.channel = None
        if o == "drop":
            return
        delay = o[1] if isinstance(o, tuple) else NET_DELAY
        self.to_client(DisconnectResponse(communication_channel_id=body.communication_channel_id), delay, tr)

    def _on_tunnelling_request(self, tr: Any, body: TunnellingRequest, entry: dict[str, Any]) -> None:
        """ack_plan outcomes (one per received transmission):
        "ack"            correct ack after NET_DELAY
        "drop"           nothing
        ("late", d)      correct ack after d seconds
        ("dup", d)       correct ack now and again after d seconds
        "stale"          ack carrying counter-1
        "wrongch"        ack carrying another channel id
        "err"            ack with an error status
        "disc"           server sends DisconnectRequest instead
        """
        if tr.kind == "tcp":
            # Tunnelling v2 over TCP: no acks
            if self.send_con:
                self._confirm(tr, body)
            return
        o = self._take(self.ack_plan, self.ack_default)
        entry["outcome"] = o if isinstance(o, str) else list(o)
        ch, seq = body.communication_channel_id, body.sequence_counter
        ok = False
        if o == "ack":
            self.to_client(TunnellingAck(ch, seq), NET_DELAY, tr)
            ok = True
        elif o == "drop":
            pass
        elif isinstance(o, tuple) and o[0] == "late":
            self.to_client(TunnellingAck(ch, seq), o[1], tr)
        elif isinstance(o, tuple) and o[0] == "dup":
            self.to_client(TunnellingAck(ch, seq), NET_DELAY, tr)
            self.to_client(TunnellingAck(ch, seq), o[1], tr)
            ok = True
        elif o == "stale":
            self.to_client(TunnellingAck(ch, (seq - 1) & 0xFF), NET_DELAY, tr)
        elif o == "wrongch":
            self.to_client(TunnellingAck((ch % 250) + 1, seq), NET_DELAY, tr)
        elif o == "err":
            self.to_client(TunnellingAck(ch, seq, ErrorCode.E_CONNECTION_ID), NET_DELAY, tr)
        elif o == "disc":
            self.server_disconnect()
        if ok and self.send_con:
            self._confirm(tr, body)

    def _confirm(self, tr: Any, body: TunnellingRequest) -> None:
        raw = body.raw_cemi
        if raw and raw[0] == 0x11:  # L_Data.req -> L_Data.con
            self.server_tunnelling_request(bytes([0x2E]) + raw[1:], delay=2 * NET_DELAY)

    def _on_devcfg_request(self, tr: Any, body: DeviceConfigurationRequest, entry: dict[str, Any]) -> None:
        handler = self.hooks.get("devcfg")
        if handler is not None:
            handler(self, tr, body, entry)
            return
        self.to_client(DeviceConfigurationAck(body.communication_channel_id, body.sequence_counter), NET_DELAY, tr)

    # -- server initiated ---------------------------------------------------
    def server_tunnelling_request(self, raw_cemi: bytes, seq: int | None = None, channel: int | None = None, delay: float = NET_DELAY, advance: bool = True, **extra: Any) -> None:
        if seq is None:
            seq = self.server_seq
            if advance:
                self.server_seq = (self.server_seq + 1) & 0xFF
        ch = channel if channel is not None else (self.channel or 0)
        self.to_client(TunnellingRequest(ch, seq, raw_cemi), delay, **extra)

    def server_devcfg_request(self, raw_cemi: bytes, seq: int | None = None, channel: int | None = None, delay: float = NET_DELAY, advance: bool = True, **extra: Any) -> None:
        """Server-initiated DeviceConfigurationRequest (C23); same counter handling as server_tunnelling_request."""
        if seq is None:
            seq = self.server_seq
            if advance:
                self.server_seq = (self.server_seq + 1) & 0xFF
        ch = channel if channel is not None else (self.channel or 0)
        self.to_client(DeviceConfigurationRequest(ch, seq, raw_cemi), delay, **extra)

    def server_disconnect(self, channel: int | None = None, delay: float = NET_DELAY) -> None:
        ch = channel if channel is not None else (self.channel or 0)
        if channel is None:
            self.channel = None
        self.to_client(DisconnectRequest(communication_channel_id=ch, control_endpoint=HPAI(*GW_ADDR)), delay)

    def lose_transport(self, delay: float = 0.0) -> None:
        if self.tr is not None and self.tr.kind == "tcp":
            self.tr.lose(None, delay)
            self.channel = None
