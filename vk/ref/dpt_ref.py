"""Independent reference decoders for the numeric KNX datapoint formats (used by C09).

Written from the KNX standard 03_07_02 "Datapoint Types" (v02), not from xknx:

* DPT 5  U8        unsigned octet; 5.001 DPT_Scaling maps 0..255 linearly to 0..100 %,
                   5.003 DPT_Angle maps 0..255 linearly to 0..360 degrees
* DPT 6  V8        two's complement octet
* DPT 7  U16       unsigned, big endian; 7.003 unit 10 ms, 7.004 unit 100 ms
* DPT 8  V16       two's complement; 8.003 unit 10 ms, 8.004 unit 100 ms, 8.010 unit 0.01 %
* DPT 9  F16       MEEEEMMM MMMMMMMM: value = 0.01 * M * 2^E, M = 12-bit two's complement
                   (sign bit + 11 mantissa bits), E = 0..15
* DPT 12 U32, DPT 13 V32, DPT 29 V64   big endian integers
* DPT 14 F32       IEEE 754 binary32, big endian
* DPT 17 U6        scene number; the library presents scenes 1-based (raw + 1), which is
                   what its declared range 1..64 states

Everything is exact rational arithmetic (fractions.Fraction); nothing here imports the
code under test.
"""

from __future__ import annotations

from fractions import Fraction

F32_MAX = Fraction((2**24 - 1) * 2**104)  # largest finite binary32
F32_MIN_SUB = Fraction(1, 2**149)  # smallest positive subnormal


def uint_be(b: bytes) -> int:
    n = 0
    for x in b:
        if not 0 <= x <= 255:
            raise ValueError("octet out of range")
        n = (n << 8) | x
    return n


def sint_be(b: bytes) -> int:
    n = uint_be(b)
    bits = 8 * len(b)
    return n - (1 << bits) if n >> (bits - 1) else n


def dpt9(b: bytes) -> Fraction:
    if len(b) != 2:
        raise ValueError("F16 needs 2 octets")
    raw = uint_be(b)
    e = (raw >> 11) & 0x0F
    m = raw & 0x07FF
    if raw & 0x8000:
        m -= 2048
    return Fraction(m * (1 << e), 100)


def dpt9_gap(v: Fraction) -> Fraction:
    """Local step of the F16 grid around v: the larger gap adjacent to the representable
    value nearest to v (mantissa range -2048..2047 at the smallest sufficient exponent)."""
    x = v * 100
    e = 0
    while not (-2048 <= x <= 2047) and e < 15:
        x /= 2
        e += 1
    return Fraction(1 << e, 100)


def f32(b: bytes):
    """Exact value of a binary32: Fraction, or 'nan' / 'inf' / '-inf'."""
    if len(b) != 4:
        raise ValueError("F32 needs 4 octets")
    raw = uint_be(b)
    sign = -1 if raw >> 31 else 1
    e = (raw >> 23) & 0xFF
    m = raw & 0x7FFFFF
    if e == 0xFF:
        if m:
            return "nan"
        return "inf" if sign > 0 else "-inf"
    if e == 0:
        return sign * Fraction(m, 2**149)
    return sign * Fraction((1 << 23) | m) * Fraction(2) ** (e - 150)


def f32_ulp(v: Fraction) -> Fraction:
    """Spacing of binary32 values around |v| (subnormal spacing below 2^-126)."""
    a = abs(v)
    if a < Fraction(1, 2**126):
        return F32_MIN_SUB
    # a = f * 2^k with 1 <= f < 2
    k = a.numerator.bit_length() - a.denominator.bit_length()
    if Fraction(2) ** k > a:
        k -= 1
    return Fraction(2) ** (k - 23)


def decade(v: Fraction) -> int:
    """k with 10^(k-1) < |v| <= 10^k (v != 0)."""
    a = abs(v)
    k = len(str(a.numerator)) - len(str(a.denominator))
    while Fraction(10) ** k < a:
        k += 1
    while Fraction(10) ** (k - 1) >= a:
        k -= 1
    return k


def sig7_unit(v: Fraction) -> Fraction:
    """One unit of the 7th significant digit of v."""
    if v == 0:
        return Fraction(0)
    return Fraction(10) ** (decade(v) - 7)


def decode(main: int, sub: int | None, payload: bytes, resolution: Fraction):
    """Reference value of `payload` read as DPT main.sub; Fraction (or 'nan'/'inf'/'-inf' for F32)."""
    if main == 5:
        if len(payload) != 1:
            raise ValueError("U8 needs 1 octet")
        raw = uint_be(payload)
        if sub == 1:
            return Fraction(raw * 100, 255)
        if sub == 3:
            return Fraction(raw * 360, 255)
        return Fraction(raw)
    if main == 17:
        if len(payload) != 1:
            raise ValueError("U6 needs 1 octet")
        return Fraction(uint_be(payload) + 1)
    if main == 6:
        if len(payload) != 1:
            raise ValueError("V8 needs 1 octet")
        return Fraction(sint_be(payload))
    if main == 7:
        if len(payload) != 2:
            raise ValueError("U16 needs 2 octets")
        return uint_be(payload) * resolution
    if main == 8:
        if len(payload) != 2:
            raise ValueError("V16 needs 2 octets")
        return sint_be(payload) * resolution
    if main == 9:
        return dpt9(payload)
    if main == 12:
        if len(payload) != 4:
            raise ValueError("U32 needs 4 octets")
        return Fraction(uint_be(payload))
    if main == 13:
        if len(payload) != 4:
            raise ValueError("V32 needs 4 octets")
        return Fraction(sint_be(payload))
    if main == 29:
        if len(payload) != 8:
            raise ValueError("V64 needs 8 octets")
        return Fraction(sint_be(payload))
    if main == 14:
        return f32(payload)
    raise KeyError(main)


def format_gap(main: int, sub: int | None, v: Fraction, resolution: Fraction) -> Fraction:
    """Spacing of the values representable by the wire format around v."""
    if main == 9:
        return dpt9_gap(v)
    if main == 14:
        return f32_ulp(v)
    if main == 5 and sub == 1:
        return Fraction(100, 255)
    if main == 5 and sub == 3:
        return Fraction(360, 255)
    return resolution


def raw_range(main: int) -> tuple[int, int] | None:
    """Raw integer range of the integer formats (None for the float formats)."""
    return {
        5: (0, 255),
        17: (0, 63),
        6: (-128, 127),
        7: (0, 65535),
        8: (-32768, 32767),
        12: (0, 2**32 - 1),
        13: (-(2**31), 2**31 - 1),
        29: (-(2**63), 2**63 - 1),
    }.get(main)


def selftest() -> None:
    assert dpt9(bytes((0x0C, 0x1A))) == Fraction(2100, 100)  # 21.0 degC, common example
    assert dpt9(bytes((0x7F, 0xFF))) == Fraction(67076096, 100)
    assert dpt9(bytes((0xF8, 0x00))) == Fraction(-67108864, 100)
    assert dpt9(bytes((0x87, 0xFF))) == Fraction(-1, 100)
    assert dpt9(bytes((0x8A, 0x24))) == Fraction(-3000, 100)
    assert dpt9_gap(Fraction(20)) == Fraction(1, 100)
    assert dpt9_gap(Fraction(2047, 100)) == Fraction(1, 100)
    assert dpt9_gap(Fraction(2048, 100)) == Fraction(2, 100)
    assert dpt9_gap(Fraction(670755)) == Fraction(32768, 100)
    assert sint_be(b"\xff\xff") == -1 and sint_be(b"\x80\x00") == -32768 and uint_be(b"\x01\x00") == 256
    assert f32(bytes.fromhex("3f800000")) == 1 and f32(bytes.fromhex("c0000000")) == -2
    assert f32(bytes.fromhex("00000001")) == F32_MIN_SUB and f32(bytes.fromhex("7f7fffff")) == F32_MAX
    assert f32(bytes.fromhex("7f800000")) == "inf" and f32(bytes.fromhex("7fc00000")) == "nan"
    assert f32(bytes.fromhex("3dcccccd")) == Fraction(13421773, 2**27)  # 0.1f
    assert f32_ulp(Fraction(1)) == Fraction(1, 2**23) and f32_ulp(Fraction(3, 2)) == Fraction(1, 2**23)
    assert f32_ulp(Fraction(2)) == Fraction(1, 2**22) and f32_ulp(Fraction(0)) == F32_MIN_SUB
    assert decade(Fraction(1000)) == 3 and decade(Fraction(1001)) == 4 and decade(Fraction(999)) == 3 and decade(Fraction(1, 1000)) == -3
    assert decode(5, 1, b"\xff", Fraction(1)) == 100 and decode(5, 3, b"\x80", Fraction(1)) == Fraction(128 * 360, 255)
    assert decode(7, 3, b"\x00\x02", Fraction(10)) == 20 and decode(8, 10, b"\xff\xff", Fraction(1, 100)) == Fraction(-1, 100)
    assert decode(17, 1, b"\x00", Fraction(1)) == 1 and decode(29, None, b"\xff" * 8, Fraction(1)) == -1
