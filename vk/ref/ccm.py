"""Independent KNX Data Secure CCM reference (never imports xknx).

Written from 03_03_07 Application Layer §5 (S-A_Data service) / AN158 "KNX Data
Security": AES-128 CCM with a 4 octet MAC, built here ONLY from single-block
AES-ECB encryptions of the `cryptography` package.

    B0   = SeqNr(6) | SA(2) | DA(2) | 00 | AT|EFF | TPCI|APCI_SEC[9:8] | APCI_SEC[7:0] | 00 | Q
             AT|EFF  = bit 7 address type (1 = group), bits 3..0 extended frame format
             TPCI|.. = the TPCI octet as on the wire (upper six bits) or'ed with 0x03
             APCI_SEC = 0x3F1 ; Q = payload length (0 when only authenticating)
    Ctr0 = SeqNr(6) | SA(2) | DA(2) | 00 00 00 00 | 01 | 00
    CBC-MAC input = B0 | len(A)(2, big endian) | A | P | zero padding to 16
    Y0 = E(K, B0); Yi = E(K, Bi xor Yi-1); T = first 4 octets of the last Y
    authentication only  : A = SCF | APDU, P = empty, Q = 0 ; ASDU = SeqNr | APDU | T
    authenticated encrypt: A = SCF, P = APDU, Q = len(APDU);
                           S_i = E(K, Ctr0 with last octet + i), S = S0 | S1 | S2 ...
                           MAC = T xor S[0:4] ; C = APDU xor S[4:4+len(APDU)]
                           (one continuous key stream: the 4 octet MAC consumes the
                           first 4 octets, the APDU continues behind it - settled by
                           the AN158 Annex A example frame and a frame recorded from
                           a real device, both in VECTORS below)
                           ASDU = SeqNr | C | MAC
    secured APDU on the wire = 03 F1 | SCF | ASDU  (upper six bits of octet 0 = TPCI)
"""

from __future__ import annotations

from cryptography.hazmat.primitives.ciphers import Cipher, algorithms, modes

ALG_AUTH = 0
ALG_ENC = 1
APCI_SEC_HI = 0x03
APCI_SEC_LO = 0xF1


def aes_block(key: bytes, block: bytes) -> bytes:
    assert len(key) == 16 and len(block) == 16
    enc = Cipher(algorithms.AES(key), modes.ECB()).encryptor()  # noqa: S305 - single block primitive
    return enc.update(block) + enc.finalize()


def _xor(a: bytes, b: bytes) -> bytes:
    return bytes(x ^ y for x, y in zip(a, b))


def block0(seq: int, src: int, dst: int, group: bool, eff: int, tpci: int, q: int) -> bytes:
    assert 0 <= seq < 1 << 48 and 0 <= q <= 255 and 0 <= eff <= 15 and 0 <= tpci <= 0xFF and not tpci & 3
    return (
        seq.to_bytes(6, "big")
        + src.to_bytes(2, "big")
        + dst.to_bytes(2, "big")
        + bytes([0x00, (0x80 if group else 0) | eff, tpci | APCI_SEC_HI, APCI_SEC_LO, 0x00, q])
    )


def ctr0(seq: int, src: int, dst: int) -> bytes:
    return seq.to_bytes(6, "big") + src.to_bytes(2, "big") + dst.to_bytes(2, "big") + bytes([0, 0, 0, 0, 1, 0])


def cbc_mac(key: bytes, b0: bytes, assoc: bytes, payload: bytes) -> bytes:
    data = b0 + len(assoc).to_bytes(2, "big") + assoc + payload
    if len(data) % 16:
        data += bytes(16 - len(data) % 16)
    y = bytes(16)
    for i in range(0, len(data), 16):
        y = aes_block(key, _xor(data[i : i + 16], y))
    return y


def ctr_stream_block(key: bytes, c0: bytes, i: int) -> bytes:
    assert 0 <= c0[15] + i <= 255
    return aes_block(key, c0[:15] + bytes([c0[15] + i]))


def key_stream(key: bytes, c0: bytes, n: int) -> bytes:
    """First n octets of S0 | S1 | ..."""
    out = bytearray()
    i = 0
    while len(out) < n:
        out += ctr_stream_block(key, c0, i)
        i += 1
    return bytes(out[:n])


def secure(
    key: bytes, *, alg: int, scf: int, seq: int, src: int, dst: int, group: bool, eff: int, tpci: int, apdu: bytes
) -> tuple[bytes, bytes]:
    """Return (secured apdu octets, 4 octet MAC as transmitted)."""
    apdu = bytes(apdu)
    if alg == ALG_AUTH:
        t = cbc_mac(key, block0(seq, src, dst, group, eff, tpci, 0), bytes([scf]) + apdu, b"")[:4]
        return apdu, t
    if alg == ALG_ENC:
        t = cbc_mac(key, block0(seq, src, dst, group, eff, tpci, len(apdu)), bytes([scf]), apdu)[:4]
        ks = key_stream(key, ctr0(seq, src, dst), 4 + len(apdu))
        return _xor(apdu, ks[4:]), _xor(t, ks[:4])
    raise ValueError("algorithm")


def asdu(key: bytes, **kw) -> bytes:
    """SeqNr | secured APDU | MAC."""
    body, mac = secure(key, **kw)
    return kw["seq"].to_bytes(6, "big") + body + mac


def secured_apdu_octets(key: bytes, **kw) -> bytes:
    """03 F1 | SCF | ASDU with the TPCI in the upper six bits of octet 0."""
    return bytes([kw["tpci"] | APCI_SEC_HI, APCI_SEC_LO, kw["scf"]]) + asdu(key, **kw)


def unsecure(key: bytes, *, scf: int, src: int, dst: int, group: bool, eff: int, tpci: int, asdu_raw: bytes) -> bytes | None:
    """Verify / decrypt an ASDU; plain APDU or None if the MAC does not verify."""
    alg = (scf >> 4) & 7
    seq = int.from_bytes(asdu_raw[:6], "big")
    body, mac = asdu_raw[6:-4], asdu_raw[-4:]
    if alg == ALG_AUTH:
        t = cbc_mac(key, block0(seq, src, dst, group, eff, tpci, 0), bytes([scf]) + body, b"")[:4]
        return body if t == mac else None
    if alg == ALG_ENC:
        ks = key_stream(key, ctr0(seq, src, dst), 4 + len(body))
        plain = _xor(body, ks[4:])
        t = cbc_mac(key, block0(seq, src, dst, group, eff, tpci, len(plain)), bytes([scf]), plain)[:4]
        return plain if _xor(t, ks[:4]) == mac else None
    return None


# ---------------------------------------------------------------------------
# literal vectors

# FIPS-197 Appendix C.1 (AES-128 single block)
_FIPS_KEY = bytes.fromhex("000102030405060708090a0b0c0d0e0f")
_FIPS_PT = bytes.fromhex("00112233445566778899aabbccddeeff")
_FIPS_CT = bytes.fromhex("69c4e0d86a7b0430d8cdb78070b4c55a")

# group key of 0/4/0 in /repo/test/secure_tests/resources/SecureTest.knxkeys
_KEY_0_4_0 = bytes.fromhex("dfdf23a59fbb40404091d1c162087e8b")

# (frame octets from Ctrl1 on, plain APDU) - literal frames copied from
# /repo/test/secure_tests/data_secure_test.py; the first was recorded from a real
# device (4.0.9 -> 0/4/0 GroupValueResponse 74 29 29, seq 155806854986).
_KEY_AN158 = bytes.fromhex("000102030405060708090a0b0c0d0e0f")  # tool key of the AN158 Annex A example
VECTORS = [
    # AN158 v07 KNX Data Security, Annex A: A_PropertyValue_Write PID_GRP_KEY_TABLE, point-to-point,
    # tool access, A+C, seq 4, data 20..2F (also quoted in data_secure_test.py)
    (
        "b060ff67ff002203f1900000000000046767242a2308ca76a11774214ee4cf5d94909f743d050d8fc168",
        "03d705351001202122232425262728292a2b2c2d2e2f",
        _KEY_AN158,
    ),
    ("3ce0400904001103f110002446cfef4ac085e7092ab062b44d", "0040742929", _KEY_0_4_0),
    ("bce0500104000e03f11000254ae1cb67cd184afe5744", "0000", _KEY_0_4_0),
    ("3ce0500104001103f11000254ae1cb67cd98e577b519be47bb", "0080ff0005", _KEY_0_4_0),
]


def selftest() -> None:
    assert aes_block(_FIPS_KEY, _FIPS_PT) == _FIPS_CT
    for frame_hex, plain_hex, vkey in VECTORS:
        f = bytes.fromhex(frame_hex)
        plain = bytes.fromhex(plain_hex)
        c2 = f[1]
        src = int.from_bytes(f[2:4], "big")
        dst = int.from_bytes(f[4:6], "big")
        assert f[6] == len(f) - 8
        tpci = f[7] & 0xFC
        assert f[7] & 3 == APCI_SEC_HI and f[8] == APCI_SEC_LO
        scf = f[9]
        raw_asdu = f[10:]
        seq = int.from_bytes(raw_asdu[:6], "big")
        kw = dict(scf=scf, src=src, dst=dst, group=bool(c2 & 0x80), eff=c2 & 0x0F, tpci=tpci)
        got = unsecure(vkey, asdu_raw=raw_asdu, **kw)
        assert got == plain, (frame_hex, got)
        again = secured_apdu_octets(vkey, alg=(scf >> 4) & 7, seq=seq, apdu=plain, **kw)
        assert again == f[7:], (frame_hex, again.hex())
        # every protected input matters
        assert unsecure(vkey, asdu_raw=raw_asdu, **{**kw, "tpci": tpci ^ 0x04}) is None
        assert unsecure(vkey, asdu_raw=raw_asdu, **{**kw, "group": not kw["group"]}) is None
        assert unsecure(vkey, asdu_raw=raw_asdu, **{**kw, "eff": 1}) is None
        assert unsecure(vkey, asdu_raw=raw_asdu, **{**kw, "src": src ^ 1}) is None
    # authentication only: round trip and sensitivity (no literal vector available)
    k = bytes(range(16))
    kw = dict(scf=0x00, src=0x1101, dst=0x0801, group=True, eff=0, tpci=0)
    a = asdu(k, alg=ALG_AUTH, seq=5, apdu=b"\x00\x81", **kw)
    assert a[:6] == (5).to_bytes(6, "big") and a[6:8] == b"\x00\x81" and len(a) == 12
    assert unsecure(k, asdu_raw=a, **kw) == b"\x00\x81"
    assert unsecure(k, asdu_raw=a[:-1] + bytes([a[-1] ^ 1]), **kw) is None
