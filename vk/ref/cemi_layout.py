"""Independent reference of the cEMI L_Data frame layout (never imports xknx).

Written from 03_06_03 EMI_IMI §4.1.5.3 (L_Data.req / .con / .ind) and
03_02_02 Communication Medium TP1 §2.2 (control field, extended control field):

    octet 0        message code (0x11 L_Data.req, 0x2E L_Data.con, 0x29 L_Data.ind)
    octet 1        additional info length n
    octet 2..1+n   additional info
    then (base b = 2 + n):
    b+0  Ctrl1     FT r R SB P P A C      (bit 7 .. bit 0)
                   FT 1 = standard frame, 0 = extended frame
                   r  reserved
                   R  1 = do not repeat, 0 = repeat on error
                   SB 1 = broadcast, 0 = system broadcast
                   PP priority (00 system, 01 normal, 10 urgent, 11 low)
                   A  1 = acknowledge requested
                   C  1 = error (only in L_Data.con)
    b+1  Ctrl2     AT H H H E E E E
                   AT 1 = group destination, 0 = individual destination
                   HHH hop count, EEEE extended frame format
    b+2,3          source address (big endian)
    b+4,5          destination address (big endian)
    b+6            NPDU length L = number of octets after the TPCI octet
    b+7            TPCI (upper 6 bits) | APCI bits 9..8 (lower 2 bits)
    b+8 ..         rest of the APDU (L octets in total after b+7)

A control TPDU (bit 7 of the TPCI octet set) uses the whole octet and has L = 0.
"""

from __future__ import annotations

L_DATA_REQ = 0x11
L_DATA_IND = 0x29
L_DATA_CON = 0x2E
L_DATA_CODES = (L_DATA_REQ, L_DATA_IND, L_DATA_CON)

PRIO_SYSTEM, PRIO_NORMAL, PRIO_URGENT, PRIO_LOW = 0, 1, 2, 3

STANDARD_MAX_L = 15
MAX_L = 254


class RefError(Exception):
    """Input outside the layout (reference refuses to encode / decode)."""


def ctrl1(*, standard: bool, reserved: int = 0, repeat: bool, system_broadcast: bool, priority: int, ack: bool, confirm_error: bool) -> int:
    """Ctrl1 from *semantic* values (repeat=True -> R bit 0; system_broadcast=True -> SB bit 0)."""
    if not 0 <= priority <= 3:
        raise RefError("priority")
    return (
        (0x80 if standard else 0)
        | (0x40 if reserved else 0)
        | (0 if repeat else 0x20)
        | (0 if system_broadcast else 0x10)
        | (priority << 2)
        | (0x02 if ack else 0)
        | (0x01 if confirm_error else 0)
    )


def ctrl2(*, group: bool, hop_count: int, eff: int = 0) -> int:
    if not 0 <= hop_count <= 7:
        raise RefError("hop count")
    if not 0 <= eff <= 15:
        raise RefError("eff")
    return (0x80 if group else 0) | (hop_count << 4) | eff


def encode_ldata(
    *,
    code: int,
    addinfo: bytes = b"",
    repeat: bool,
    system_broadcast: bool,
    priority: int,
    ack: bool,
    confirm_error: bool,
    group: bool,
    hop_count: int,
    eff: int = 0,
    src: int,
    dst: int,
    tpci: int,
    apdu: bytes | None,
    reserved: int = 0,
    standard: bool | None = None,
) -> bytes:
    """Encode an L_Data frame.

    tpci: full TPCI octet (lower two bits zero for data TPDUs).
    apdu: None for a control TPDU; otherwise the APDU, 2+ octets, whose octet 0 holds
          only the two upper APCI bits (upper six bits zero).
    standard: None = derived from the NPDU length (standard iff L <= 15).
    """
    if code not in L_DATA_CODES:
        raise RefError("message code")
    if len(addinfo) > 255:
        raise RefError("additional info too long")
    if not (0 <= src <= 0xFFFF and 0 <= dst <= 0xFFFF and 0 <= tpci <= 0xFF):
        raise RefError("field range")
    if apdu is None:
        if not tpci & 0x80:
            raise RefError("data TPDU needs an APDU")
        length = 0
        tpdu = bytes([tpci])
    else:
        if tpci & 0x80 or tpci & 0x03:
            raise RefError("control TPCI with APDU / APCI bits in TPCI")
        if len(apdu) < 2 or apdu[0] & 0xFC:
            raise RefError("APDU")
        length = len(apdu) - 1
        tpdu = bytes([tpci | apdu[0]]) + bytes(apdu[1:])
    if length > MAX_L:
        raise RefError("NPDU too long")
    std = (length <= STANDARD_MAX_L) if standard is None else standard
    c1 = ctrl1(standard=std, reserved=reserved, repeat=repeat, system_broadcast=system_broadcast, priority=priority, ack=ack, confirm_error=confirm_error)
    c2 = ctrl2(group=group, hop_count=hop_count, eff=eff)
    return (
        bytes([code, len(addinfo)])
        + bytes(addinfo)
        + bytes([c1, c2])
        + src.to_bytes(2, "big")
        + dst.to_bytes(2, "big")
        + bytes([length])
        + tpdu
    )


def decode_ldata(raw: bytes) -> dict:
    """Decode the fixed L_Data layout. RefError if the frame is structurally not an L_Data frame."""
    if len(raw) < 2:
        raise RefError("too short for message code + info length")
    code = raw[0]
    if code not in L_DATA_CODES:
        raise RefError("not an L_Data message code")
    n = raw[1]
    b = 2 + n
    if len(raw) < b + 8:
        raise RefError("too short for the L_Data service information")
    c1, c2 = raw[b], raw[b + 1]
    length = raw[b + 6]
    tpdu = raw[b + 7 :]
    if len(tpdu) != length + 1:
        raise RefError("NPDU length field does not match")
    t = tpdu[0]
    control = bool(t & 0x80)
    out = {
        "code": code,
        "addinfo": bytes(raw[2:b]),
        "base": b,
        "standard": bool(c1 & 0x80),
        "reserved": (c1 >> 6) & 1,
        "repeat": not c1 & 0x20,
        "system_broadcast": not c1 & 0x10,
        "priority": (c1 >> 2) & 3,
        "ack": bool(c1 & 0x02),
        "confirm_error": bool(c1 & 0x01),
        "group": bool(c2 & 0x80),
        "hop_count": (c2 >> 4) & 7,
        "eff": c2 & 0x0F,
        "src": int.from_bytes(raw[b + 2 : b + 4], "big"),
        "dst": int.from_bytes(raw[b + 4 : b + 6], "big"),
        "length": length,
        "control": control,
        "tpci": t if control else t & 0xFC,
        "apdu": None if control else bytes([t & 0x03]) + bytes(tpdu[1:]),
    }
    return out


# ---------------------------------------------------------------------------
# bit classification (for exhaustive tamper enumeration)

_CTRL1_BITS = ("ft", "reserved", "repeat", "sb", "priority", "priority", "ack", "confirm")
_CTRL2_BITS = ("at", "hop", "hop", "hop", "eff", "eff", "eff", "eff")


def classify_bits(raw: bytes) -> list[str]:
    """Label of every bit of a well-formed L_Data frame, index = 8*octet + (7 - bit number),
    i.e. most significant bit of octet 0 first.

    Labels: mc, info_len, addinfo, ft, reserved, repeat, sb, priority, ack, confirm,
            at, hop, eff, src, dst, len, tpci, apci, apdu.
    """
    d = decode_ldata(raw)
    b = d["base"]
    lab: list[str] = []
    lab += ["mc"] * 8
    lab += ["info_len"] * 8
    lab += ["addinfo"] * (8 * (b - 2))
    lab += list(_CTRL1_BITS)
    lab += list(_CTRL2_BITS)
    lab += ["src"] * 16
    lab += ["dst"] * 16
    lab += ["len"] * 8
    if d["control"]:
        lab += ["tpci"] * 8
    else:
        lab += ["tpci"] * 6 + ["apci"] * 2
        rest = len(raw) - (b + 8)
        if rest >= 1:
            lab += ["apci"] * 8
            lab += ["apdu"] * (8 * (rest - 1))
    assert len(lab) == 8 * len(raw), (len(lab), len(raw))
    return lab


APCI_SEC = 0x3F1


def classify_secure_bits(raw: bytes) -> list[str]:
    """classify_bits refined for a frame carrying a Data Secure APDU (APCI 0x3F1):

    after the two APCI octets: SCF (1 octet), sequence number (6), secured APDU, MAC (4).
    'apdu' labels become scf / seq / sapdu / mac.
    """
    d = decode_ldata(raw)
    if d["control"] or d["apdu"] is None or len(d["apdu"]) < 13:
        raise RefError("not a secure APDU")
    if ((d["apdu"][0] << 8) | d["apdu"][1]) & 0x3FF != APCI_SEC:
        raise RefError("APCI is not A_Sec")
    lab = classify_bits(raw)
    b = d["base"]
    start = 8 * (b + 9)
    n_apdu_bits = len(lab) - start
    assert all(x == "apdu" for x in lab[start:])
    n_sapdu = n_apdu_bits // 8 - 1 - 6 - 4
    lab[start:] = ["scf"] * 8 + ["seq"] * 48 + ["sapdu"] * (8 * n_sapdu) + ["mac"] * 32
    return lab


def flip_bit(raw: bytes, index: int) -> bytes:
    """Flip bit `index` (same indexing as classify_bits)."""
    out = bytearray(raw)
    out[index // 8] ^= 0x80 >> (index % 8)
    return bytes(out)


def selftest() -> None:
    # literal frames from the KNX specification examples / xknx test-suite comments
    # L_Data.ind 1.2.2 -> 2/1/0(?) group write one octet: 2900bcd012020a0301008007 style
    raw = bytes.fromhex("2900bcd01304012c0200800d")  # hand-assembled: see fields below
    d = decode_ldata(raw)
    assert d["code"] == L_DATA_IND and d["addinfo"] == b"" and d["base"] == 2
    assert d["standard"] and d["repeat"] is False and d["system_broadcast"] is False
    assert d["priority"] == PRIO_LOW and not d["ack"] and not d["confirm_error"]
    assert d["group"] and d["hop_count"] == 5 and d["eff"] == 0
    assert d["src"] == 0x1304 and d["dst"] == 0x012C and d["length"] == 2
    assert d["tpci"] == 0 and d["apdu"] == bytes([0x00, 0x80, 0x0D])
    again = encode_ldata(
        code=d["code"], addinfo=d["addinfo"], repeat=d["repeat"], system_broadcast=d["system_broadcast"],
        priority=d["priority"], ack=d["ack"], confirm_error=d["confirm_error"], group=d["group"],
        hop_count=d["hop_count"], eff=d["eff"], src=d["src"], dst=d["dst"], tpci=d["tpci"], apdu=d["apdu"],
    )
    assert again == raw, again.hex()
    # ETS group monitor style frame: 11 00 bc e0 00 00 08 01 01 00 81 = L_Data.req, low prio, hop 6, 1/0/1 write "1"
    r2 = encode_ldata(code=L_DATA_REQ, repeat=False, system_broadcast=False, priority=PRIO_LOW, ack=False,
                      confirm_error=False, group=True, hop_count=6, src=0, dst=0x0801, tpci=0, apdu=bytes([0x00, 0x81]))
    assert r2 == bytes.fromhex("1100bce000000801010081"), r2.hex()
    # T_Connect to 1.1.1 from 0.0.0: system priority, individual: 11 00 b0 60 00 00 11 01 00 80
    r3 = encode_ldata(code=L_DATA_REQ, repeat=False, system_broadcast=False, priority=PRIO_SYSTEM, ack=False,
                      confirm_error=False, group=False, hop_count=6, src=0, dst=0x1101, tpci=0x80, apdu=None)
    assert r3 == bytes.fromhex("1100b06000001101" "00" "80"), r3.hex()
    # extended frame: 16 octets after TPCI -> FT = 0
    r4 = encode_ldata(code=L_DATA_IND, repeat=False, system_broadcast=False, priority=PRIO_LOW, ack=False,
                      confirm_error=False, group=True, hop_count=6, src=0x1101, dst=1, tpci=0, apdu=bytes([0, 0x80]) + bytes(15))
    assert r4[2] == 0x3C and r4[8] == 16
    r5 = encode_ldata(code=L_DATA_IND, repeat=False, system_broadcast=False, priority=PRIO_LOW, ack=False,
                      confirm_error=False, group=True, hop_count=6, src=0x1101, dst=1, tpci=0, apdu=bytes([0, 0x80]) + bytes(14))
    assert r5[2] == 0xBC and r5[8] == 15
    lab = classify_bits(raw)
    assert len(lab) == 8 * len(raw)
    assert lab[16] == "ft" and lab[17] == "reserved" and lab[24] == "at" and lab[25:28] == ["hop"] * 3
    assert lab[8 * 9 : 8 * 9 + 8] == ["tpci"] * 6 + ["apci"] * 2
    assert lab[-8:] == ["apdu"] * 8
    assert flip_bit(b"\x00\x00", 0) == b"\x80\x00" and flip_bit(b"\x00\x00", 15) == b"\x00\x01"
    # Data Secure frame from AN158 Annex A (as cEMI): SCF 0x90, seq 000000000004
    sec = bytes.fromhex("2900b060ff67ff002203f1900000000000046767242a2308ca76a11774214ee4cf5d94909f743d050d8fc168")
    sl = classify_secure_bits(sec)
    assert sl[8 * 11 : 8 * 12] == ["scf"] * 8 and sl[8 * 12 : 8 * 18] == ["seq"] * 48 and sl[-32:] == ["mac"] * 32
    assert sl.count("sapdu") == 8 * (0x22 + 1 - 2 - 1 - 6 - 4)
