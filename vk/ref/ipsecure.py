"""Independent reference of the KNX IP Secure constructions (KNX 03_08_09 / AN159).

Written from the specification, validated in `selftest()` against the literal example
values of AN159 (session handshake with the keys "trustme"/"secret", the wrapped
SESSION_AUTHENTICATE and SESSION_STATUS frames, the secured ROUTING_INDICATION).
Never imports the code under test.

Primitives used: single-block AES-128 ECB from `cryptography` (CBC-MAC and CTR are built
here by hand), `hashlib` for SHA-256 and PBKDF2-HMAC-SHA256 and a pure-Python X25519
(RFC 7748), so that no mode implementation is shared with xknx.

KNX "CCM" (03_08_09 §2.2.1.2.1, same as RFC 3610 with M=16, L=2 except that the
associated data is not padded on its own: the blocks are
    B0 || len(A) as 2 octets || A || P   zero padded to a multiple of 16 octets):
    Y0 = AES(B0), Yi = AES(Bi xor Yi-1), MAC_cbc = Yn
    Ctr_i = first 15 octets of Ctr_0 || i     (one octet block counter, Ctr_0 = .. ff 00)
    C = P xor (AES(Ctr_1) || AES(Ctr_2) ..),  MAC = MAC_cbc xor AES(Ctr_0)
"""

from __future__ import annotations

import hashlib

from cryptography.hazmat.primitives.ciphers import Cipher, algorithms, modes

WRAPPER_SERVICE = 0x0950
SESSION_RESPONSE_SERVICE = 0x0952
SESSION_AUTHENTICATE_SERVICE = 0x0953
TIMER_NOTIFY_SERVICE = 0x0955
MAX_PAYLOAD = 255 * 16  # one-octet block counter

USER_SALT = b"user-password.1.secure.ip.knx.org"
DEVICE_SALT = b"device-authentication-code.1.secure.ip.knx.org"
HANDSHAKE_CTR0 = bytes(14) + b"\xff\x00"


class RefError(Exception):
    """Reference rejects the input (authentication failure / malformed)."""


# -- AES single block ---------------------------------------------------------

_ENC: dict[bytes, object] = {}


def aes_block(key: bytes, block: bytes) -> bytes:
    if len(key) != 16 or len(block) != 16:
        raise ValueError("AES-128 single block only")
    enc = _ENC.get(key)
    if enc is None:
        if len(_ENC) > 256:
            _ENC.clear()
        enc = Cipher(algorithms.AES(key), modes.ECB()).encryptor()  # noqa: S305 - building block
        _ENC[key] = enc
    out = enc.update(block)  # type: ignore[attr-defined]
    assert len(out) == 16
    return out


def xor(a: bytes, b: bytes) -> bytes:
    if len(a) != len(b):
        raise ValueError("xor length")
    return bytes(x ^ y for x, y in zip(a, b))


def cbc_mac(key: bytes, b0: bytes, assoc: bytes, payload: bytes = b"") -> bytes:
    if len(b0) != 16:
        raise ValueError("B0")
    data = b0 + len(assoc).to_bytes(2, "big") + assoc + payload
    if len(data) % 16:
        data += bytes(16 - len(data) % 16)
    y = bytes(16)
    for i in range(0, len(data), 16):
        y = aes_block(key, xor(y, data[i : i + 16]))
    return y


def ctr_block(ctr0: bytes, i: int) -> bytes:
    if len(ctr0) != 16 or not 0 <= i <= 255:
        raise ValueError("counter")
    return ctr0[:15] + bytes([i])


def ctr_crypt(key: bytes, ctr0: bytes, data: bytes) -> bytes:
    """En/decrypt payload with counter blocks 1, 2, ..."""
    if len(data) > MAX_PAYLOAD:
        raise ValueError("payload exceeds one-octet block counter")
    out = bytearray()
    for n, i in enumerate(range(0, len(data), 16), start=1):
        ks = aes_block(key, ctr_block(ctr0, n))
        chunk = data[i : i + 16]
        out += xor(chunk, ks[: len(chunk)])
    return bytes(out)


def mac_crypt(key: bytes, ctr0: bytes, mac: bytes) -> bytes:
    """En/decrypt a MAC with counter block 0."""
    return xor(mac, aes_block(key, ctr_block(ctr0, 0)))


# -- key derivation -----------------------------------------------------------


def _pw(password: str) -> bytes:
    raw = password.encode("ascii")  # ETS allows printable ASCII only for these
    return raw


def derive_user_password(password: str) -> bytes:
    return hashlib.pbkdf2_hmac("sha256", _pw(password), USER_SALT, 65536, 16)


def derive_device_authentication_code(password: str) -> bytes:
    return hashlib.pbkdf2_hmac("sha256", _pw(password), DEVICE_SALT, 65536, 16)


# -- X25519 (RFC 7748) --------------------------------------------------------

_P = 2**255 - 19
_A24 = 121665


def x25519(k: bytes, u: bytes) -> bytes:
    if len(k) != 32 or len(u) != 32:
        raise ValueError("x25519 sizes")
    kk = bytearray(k)
    kk[0] &= 248
    kk[31] &= 127
    kk[31] |= 64
    kn = int.from_bytes(kk, "little")
    uu = bytearray(u)
    uu[31] &= 127
    x1 = int.from_bytes(uu, "little") % _P
    x2, z2, x3, z3, swap = 1, 0, x1, 1, 0
    for t in range(254, -1, -1):
        kt = (kn >> t) & 1
        swap ^= kt
        if swap:
            x2, x3, z2, z3 = x3, x2, z3, z2
        swap = kt
        a = (x2 + z2) % _P
        aa = a * a % _P
        b = (x2 - z2) % _P
        bb = b * b % _P
        e = (aa - bb) % _P
        c = (x3 + z3) % _P
        d = (x3 - z3) % _P
        da = d * a % _P
        cb = c * b % _P
        x3 = (da + cb) ** 2 % _P
        z3 = x1 * (da - cb) ** 2 % _P
        x2 = aa * bb % _P
        z2 = e * (aa + _A24 * e) % _P
    if swap:
        x2, x3, z2, z3 = x3, x2, z3, z2
    return (x2 * pow(z2, _P - 2, _P) % _P).to_bytes(32, "little")


def x25519_public(private: bytes) -> bytes:
    return x25519(private, (9).to_bytes(32, "little"))


def session_key(own_private: bytes, peer_public: bytes) -> bytes:
    """Session key = first 16 octets of SHA-256(X25519 shared secret)."""
    return hashlib.sha256(x25519(own_private, peer_public)).digest()[:16]


# -- frames -------------------------------------------------------------------


def header(service: int, total_length: int) -> bytes:
    return b"\x06\x10" + service.to_bytes(2, "big") + total_length.to_bytes(2, "big")


def wrap(key: bytes, session_id: int, seq: bytes, serial: bytes, tag: bytes, plain: bytes) -> bytes:
    """Complete SECURE_WRAPPER frame (header included) around the plain frame bytes."""
    if len(seq) != 6 or len(serial) != 6 or len(tag) != 2:
        raise ValueError("field sizes")
    total = 6 + 2 + 6 + 6 + 2 + len(plain) + 16
    hdr = header(WRAPPER_SERVICE, total)
    sid = session_id.to_bytes(2, "big")
    b0 = seq + serial + tag + len(plain).to_bytes(2, "big")
    ctr0 = seq + serial + tag + b"\xff\x00"
    mac = cbc_mac(key, b0, hdr + sid, plain)
    return hdr + sid + seq + serial + tag + ctr_crypt(key, ctr0, plain) + mac_crypt(key, ctr0, mac)


def unwrap(key: bytes, frame: bytes, session_id: int | None = None) -> bytes:
    """Return the plain frame bytes of a SECURE_WRAPPER frame or raise RefError."""
    if len(frame) < 6 + 16 + 16:
        raise RefError("short")
    if frame[:4] != b"\x06\x10\x09\x50":
        raise RefError("not a secure wrapper header")
    if int.from_bytes(frame[4:6], "big") != len(frame):
        raise RefError("length")
    sid = frame[6:8]
    if session_id is not None and int.from_bytes(sid, "big") != session_id:
        raise RefError("session id")
    seq, serial, tag = frame[8:14], frame[14:20], frame[20:22]
    enc, mac = frame[22:-16], frame[-16:]
    ctr0 = seq + serial + tag + b"\xff\x00"
    plain = ctr_crypt(key, ctr0, enc)
    b0 = seq + serial + tag + len(plain).to_bytes(2, "big")
    if cbc_mac(key, b0, frame[:6] + sid, plain) != mac_crypt(key, ctr0, mac):
        raise RefError("MAC")
    return plain


def session_response_mac(device_code: bytes, session_id: int, client_public: bytes, server_public: bytes) -> bytes:
    assoc = header(SESSION_RESPONSE_SERVICE, 0x38) + session_id.to_bytes(2, "big") + xor(client_public, server_public)
    return mac_crypt(device_code, HANDSHAKE_CTR0, cbc_mac(device_code, bytes(16), assoc))


def session_authenticate_mac(user_key: bytes, user_id: int, client_public: bytes, server_public: bytes) -> bytes:
    assoc = header(SESSION_AUTHENTICATE_SERVICE, 0x18) + b"\x00" + bytes([user_id]) + xor(client_public, server_public)
    return mac_crypt(user_key, HANDSHAKE_CTR0, cbc_mac(user_key, bytes(16), assoc))


def timer_notify_mac(key: bytes, timer: bytes, serial: bytes, tag: bytes) -> bytes:
    if len(timer) != 6 or len(serial) != 6 or len(tag) != 2:
        raise ValueError("field sizes")
    b0 = timer + serial + tag + b"\x00\x00"
    ctr0 = timer + serial + tag + b"\xff\x00"
    return mac_crypt(key, ctr0, cbc_mac(key, b0, header(TIMER_NOTIFY_SERVICE, 0x24)))


def timer_notify_frame(key: bytes, timer: bytes, serial: bytes, tag: bytes) -> bytes:
    return header(TIMER_NOTIFY_SERVICE, 0x24) + timer + serial + tag + timer_notify_mac(key, timer, serial, tag)


# -- self test ----------------------------------------------------------------


def _h(s: str) -> bytes:
    return bytes.fromhex(s)


def selftest() -> None:
    """AN159 example values (also quoted literally in xknx's unit tests). Raises on mismatch."""
    # AES-128 FIPS-197 appendix C.1
    assert aes_block(_h("000102030405060708090a0b0c0d0e0f"), _h("00112233445566778899aabbccddeeff")) == _h("69c4e0d86a7b0430d8cdb78070b4c55a")
    # RFC 7748 §5.2 vector and §6.1 public keys
    assert x25519(
        _h("a546e36bf0527c9d3b16154b82465edd62144c0ac1fc5a18506a2244ba449ac4"),
        _h("e6db6867583030db3594c1a424b15f7c726624ec26b3353b10a903a6d0ab1c4c"),
    ) == _h("c3da55379de9c6908e94ea4df28d084f32eccf03491c71f754b4075577a28552")
    assert x25519_public(_h("77076d0a7318a57d3c16c17251b26645df4c2f87ebc0992ab177fba51db92c2a")) == _h(
        "8520f0098930a754748b7ddcb43ef75a0dbf3a0d26381af4eba4a98eaa9b4e6a"
    )
    # AN159 handshake example
    client_priv = _h("b8fabd62665d8b9e8a9d8b1f4bca42c8c2789a6110f50e9dd785b3ede883f378")
    client_pub = _h("0aa227b4fd7a32319ba9960ac036ce0e5c4507b5ae55161f1078b1dcfb3cb631")
    server_pub = _h("bdf0999099231 43ef0a5de0b3be3687bc5bd3cf5f9e6f901699cd870ec1ff824".replace(" ", ""))
    assert x25519_public(client_priv) == client_pub
    dev = derive_device_authentication_code("trustme")
    usr = derive_user_password("secret")
    assert dev == _h("e158e4012047bd6cc41aafbc5c04c1fc")
    assert usr == _h("03fcedb66660251ec81a1a716901696a")
    assert xor(client_pub, server_pub) == _h("b752be246459260f6b0c4801fbd5a67599f83b4057b3ef1e79e469ac17234e15")
    assoc = _h("061009520038 0001".replace(" ", "")) + xor(client_pub, server_pub)
    assert cbc_mac(dev, bytes(16), assoc) == _h("da3dc6af79896aa6ee7573d69950c283")
    assert session_response_mac(dev, 1, client_pub, server_pub) == _h("a922505aaa436163570bd5494c2df2a3")
    auth_mac = session_authenticate_mac(usr, 1, client_pub, server_pub)
    assert auth_mac == _h("1f1d59ea9f12a152e5d9727f08462cde")
    key = session_key(client_priv, server_pub)
    auth_frame = _h("061009530018 0001".replace(" ", "")) + auth_mac
    wrapped = wrap(key, 1, bytes(6), _h("00fa12345678"), _h("affe"), auth_frame)
    assert wrapped == _h(
        "06100950003e" "0001" "000000000000" "00fa12345678" "affe"
        "7915a4f36e6e4208d28b4a207d8f35c0d138c26a7b5e7169"
        "52dba8e7e4bd80bd7d868a3ae78749de"
    )
    assert unwrap(key, wrapped, 1) == auth_frame
    status = _h("06100950 002e 0001 000000000000 00faaaaaaaaa affe 26156db5c749888f a373c3e0b4bde4497c395e4b1c2f46a1".replace(" ", ""))
    assert unwrap(key, status, 1) == _h("0610095400080000")
    # AN159 secured routing indication (multicast, session id 0)
    bkey = _h("000102030405060708090a0b0c0d0e0f")
    plain = _h("0610053000112900bcd011590ade010081")
    b0 = _h("c0c1c2c3c4c500fa12345678affe0011")
    assert cbc_mac(bkey, b0, _h("0610095000370000"), plain) == _h("bd0a294b952554b23539204c2271d26b")
    w = wrap(bkey, 0, _h("c0c1c2c3c4c5"), _h("00fa12345678"), _h("affe"), plain)
    assert w == _h(
        "061009500037" "0000" "c0c1c2c3c4c5" "00fa12345678" "affe"
        "b7ee7e8a1c2f7bbabec775fd6e10d0bc4b"
        "7212a03aaae49da85689774c1d2b4da4"
    )
    assert unwrap(bkey, w, 0) == plain
    # tamper evidence of the reference itself
    for bit in range(len(w) * 8):
        t = bytearray(w)
        t[bit // 8] ^= 1 << (bit % 8)
        try:
            unwrap(bkey, bytes(t), 0)
        except RefError:
            continue
        raise AssertionError(f"reference accepts flipped bit {bit}")
    # timer notify: structure check (B0 with Q=0, A = header only), verifies under its own construction
    tn = timer_notify_frame(bkey, _h("c0c1c2c3c4c5"), _h("00fa12345678"), _h("affe"))
    assert len(tn) == 0x24 and tn[:6] == _h("061009550024")
    assert mac_crypt(bkey, tn[6:20] + b"\xff\x00", tn[20:]) == cbc_mac(bkey, tn[6:20] + b"\x00\x00", tn[:6])
