"""Independent reference for group address filter patterns (C02, reused by C34).

Works on the *structured* pattern, never on pattern text, and never imports xknx.

A pattern is a list of 1..3 levels; a level is a list of items; an item is one of
    ["n", a]        single value a
    ["r", a, b]     range a-b (reversed when a > b: normalised by swapping)
    ["lo", b]       open start  "-b"  = 0..b
    ["hi", a]       open end    "a-"  = a..maximum
    ["*"]           everything
Level count 3 = main/middle/sub (5/3/8 bits), 2 = main/sub (5/11 bits), 1 = free (16 bits).
Numbers above 65535 are clamped to 65535 (the filter's documented value ceiling).
"""

from __future__ import annotations

CEIL = 65535
LEVEL_MAX = {3: (31, 7, 255), 2: (31, 2047), 1: (65535,)}


def render_item(item) -> str:
    k = item[0]
    if k == "n":
        return str(item[1])
    if k == "r":
        return f"{item[1]}-{item[2]}"
    if k == "lo":
        return f"-{item[1]}"
    if k == "hi":
        return f"{item[1]}-"
    if k == "*":
        return "*"
    raise ValueError(item)


def render_level(level) -> str:
    return ",".join(render_item(i) for i in level)


def render(levels) -> str:
    return "/".join(render_level(lv) for lv in levels)


def _clamp(v: int) -> int:
    return CEIL if v > CEIL else (0 if v < 0 else v)


def interval(item) -> tuple[int, int]:
    """Closed interval of values an item denotes."""
    k = item[0]
    if k == "n":
        lo = hi = _clamp(item[1])
    elif k == "r":
        a, b = _clamp(item[1]), _clamp(item[2])
        lo, hi = (a, b) if a <= b else (b, a)
    elif k == "lo":
        lo, hi = 0, _clamp(item[1])
    elif k == "hi":
        lo, hi = _clamp(item[1]), CEIL
    elif k == "*":
        lo, hi = 0, CEIL
    else:
        raise ValueError(item)
    return lo, hi


def item_kind(item) -> str:
    """Feature label of an item (for class histograms and root-cause buckets)."""
    k = item[0]
    nums = [x for x in item[1:]]
    big = any(x > CEIL for x in nums)
    if k == "r":
        k = "reversed" if item[1] > item[2] else ("degenerate-range" if item[1] == item[2] else "range")
    elif k == "lo":
        k = "open-start"
    elif k == "hi":
        k = "open-end"
    elif k == "n":
        k = "single"
    elif k == "*":
        k = "star"
    return k + ("+clamped" if big else "")


def item_match(item, v: int) -> bool:
    lo, hi = interval(item)
    return lo <= v <= hi


def level_match(level, v: int) -> bool:
    return any(item_match(i, v) for i in level)


def split(raw: int, nlevels: int) -> tuple[int, ...]:
    """Level values of a 16-bit group address in the notation with `nlevels` levels."""
    if nlevels == 3:
        return (raw >> 11) & 0x1F, (raw >> 8) & 0x7, raw & 0xFF
    if nlevels == 2:
        return (raw >> 11) & 0x1F, raw & 0x7FF
    if nlevels == 1:
        return (raw & 0xFFFF,)
    raise ValueError(nlevels)


def join(values, nlevels: int) -> int:
    if nlevels == 3:
        return (values[0] << 11) | (values[1] << 8) | values[2]
    if nlevels == 2:
        return (values[0] << 11) | values[1]
    return values[0]


def match(levels, raw: int) -> bool:
    vals = split(raw, len(levels))
    return all(level_match(lv, v) for lv, v in zip(levels, vals))


def interesting(levels) -> bool:
    """Pattern has an open / reversed / clamped range or >= 2 items on a level."""
    for lv in levels:
        if len(lv) >= 2:
            return True
        for it in lv:
            kind = item_kind(it)
            if kind.startswith(("open", "reversed")) or kind.endswith("+clamped"):
                return True
    return False


def boundary_values(level, vmax: int) -> list[int]:
    """Values within +-1 of every range end of the level, clipped to 0..vmax."""
    out = set()
    for it in level:
        lo, hi = interval(it)
        for e in (lo, hi):
            for d in (-1, 0, 1):
                v = e + d
                if 0 <= v <= vmax:
                    out.add(v)
    return sorted(out)


# --------------------------------------------------------------------------- glob
def glob_match(pattern: str, s: str) -> bool:
    """'*' = any (possibly empty) run of characters, '?' = exactly one character,
    everything else literal and case-sensitive. No character classes."""
    p = si = 0
    star = -1
    mark = 0
    while si < len(s):
        if p < len(pattern) and pattern[p] == "*":
            star = p
            mark = si
            p += 1
        elif p < len(pattern) and (pattern[p] == "?" or pattern[p] == s[si]):
            p += 1
            si += 1
        elif star >= 0:
            mark += 1
            si = mark
            p = star + 1
        else:
            return False
    while p < len(pattern) and pattern[p] == "*":
        p += 1
    return p == len(pattern)


def selftest() -> None:
    assert render([[["n", 1]], [["*"]], [["r", 2, 5]]]) == "1/*/2-5"
    assert render([[["n", 1]], [["r", 1, 3], ["n", 4], ["n", 5]], [["*"]]]) == "1/1-3,4,5/*"
    assert render([[["n", 2]], [["lo", 10]]]) == "2/-10"
    assert render([[["hi", 7]]]) == "7-"
    assert interval(["r", 5, 3]) == (3, 5) and interval(["lo", 5]) == (0, 5) and interval(["hi", 5]) == (5, 65535)
    assert interval(["r", 70, 100]) == (70, 100) and interval(["*"]) == (0, 65535) and interval(["n", 70000]) == (65535, 65535)
    assert split(0x0A03, 3) == (1, 2, 3) and split(0x0A03, 2) == (1, 0x203) and split(0x0A03, 1) == (0x0A03,)
    for n in (1, 2, 3):
        for raw in (0, 1, 0x0A03, 65535, 40000):
            assert join(split(raw, n), n) == raw
    # documented examples from the module docstring of address_filter
    p = [[["n", 1]], [["*"]], [["r", 2, 5]]]
    assert match(p, join((1, 0, 2), 3)) and match(p, join((1, 7, 5), 3)) and not match(p, join((1, 3, 6), 3)) and not match(p, join((2, 3, 4), 3))
    p = [[["r", 1, 3], ["n", 4], ["n", 5]], [["*"]]]
    assert match(p, join((5, 2047), 2)) and not match(p, join((6, 0), 2)) and not match(p, join((0, 9), 2))
    p = [[["lo", 10]]]
    assert match(p, 0) and match(p, 10) and not match(p, 11)
    p = [[["r", 9, 2]], [["hi", 6]], [["n", 0]]]
    assert match(p, join((2, 7, 0), 3)) and match(p, join((9, 6, 0), 3)) and not match(p, join((9, 5, 0), 3)) and not match(p, join((10, 6, 0), 3))
    assert interesting([[["r", 9, 2]]]) and interesting([[["n", 1], ["n", 2]]]) and not interesting([[["n", 1]], [["r", 1, 2]]])
    assert boundary_values([["r", 3, 5]], 7) == [2, 3, 4, 5, 6]
    assert glob_match("t?st", "test") and not glob_match("t?st", "tst") and glob_match("t*t", "tt") and glob_match("t*t", "teeest")
    assert not glob_match("t*t", "tes") and glob_match("*", "") and glob_match("a*b*c", "aXbYbZc") and not glob_match("a*b*c", "aXbYbZ")
    assert not glob_match("Test", "test") and glob_match("**a", "a") and not glob_match("?", "") and glob_match("a?*", "ab")
