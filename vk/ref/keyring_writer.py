"""Independent writer (and minimal reader) of ETS keyring files (*.knxkeys).

Scheme (ETS 5/6 export, as observable in real exports; validated in `selftest()` by
regenerating the stored Signature and every stored ciphertext of six real ETS files):

* XML: <Keyring Project= CreatedBy= Created= Signature= xmlns="http://knx.org/xml/keyring/1">
  with children Backbone?, Interface* (with Group children), GroupAddresses?, Devices?.
* password hash  = PBKDF2-HMAC-SHA256(password utf-8, "1.keyring.ets.knx.org", 65536, 16 octets)
* IV             = first 16 octets of SHA-256(Created attribute, utf-8)
* keys (16 oct.) = base64(AES-128-CBC(hash, IV, key))
* passwords      = base64(AES-128-CBC(hash, IV, 8 random octets || utf-8 password || padding)),
                   padded to 32 octets with octets of value 24 - len(password)
* signature      = base64(first 16 octets of SHA-256(canonical)), canonical = depth-first walk:
                   0x01, str(element name), then for every attribute except xmlns/Signature in
                   ordinal name order str(name) str(value); 0x02 at the element end; finally
                   str(base64(password hash)); str(x) = one length octet + utf-8 octets. For strings
                   longer than 255 octets (e.g. Senders of >= 37 addresses) the length octet is the low
                   octet of the length (len & 0xFF, what ETS / any writer streaming the length as one
                   octet emits): `wrap=True` of canonical() / signature() / build_tree().

Never imports the code under test. AES-CBC is built from single-block AES-ECB; the reader
is a small hand-written tokenizer (no xml.* module), so that the validation against the
real files does not share a parser with xknx's loader.
"""

from __future__ import annotations

import base64
import functools
import hashlib
import os
import re

from cryptography.hazmat.primitives.ciphers import Cipher, algorithms, modes

NS = "http://knx.org/xml/keyring/1"
SALT = b"1.keyring.ets.knx.org"
UNSIGNED_ATTRS = ("xmlns", "Signature")
MAX_PASSWORD_OCTETS = 23


class El:
    """Generic element: name, ordered attribute list, children."""

    __slots__ = ("attrs", "children", "name")

    def __init__(self, name: str, attrs: list[tuple[str, str]] | None = None, children: list["El"] | None = None) -> None:
        self.name = name
        self.attrs = list(attrs or [])
        self.children = list(children or [])

    def get(self, key: str, default: str | None = None) -> str | None:
        for k, v in self.attrs:
            if k == key:
                return v
        return default

    def set(self, key: str, value: str) -> None:
        for i, (k, _v) in enumerate(self.attrs):
            if k == key:
                self.attrs[i] = (key, value)
                return
        self.attrs.append((key, value))

    def copy(self) -> "El":
        return El(self.name, list(self.attrs), [c.copy() for c in self.children])

    def walk(self, path: tuple[int, ...] = ()):
        yield path, self
        for i, c in enumerate(self.children):
            yield from c.walk(path + (i,))

    def at(self, path: tuple[int, ...]) -> "El":
        e = self
        for i in path:
            e = e.children[i]
        return e


# -- crypto -------------------------------------------------------------------


def password_hash(password: str) -> bytes:
    return hashlib.pbkdf2_hmac("sha256", password.encode("utf-8"), SALT, 65536, 16)


def created_iv(created: str) -> bytes:
    return hashlib.sha256(created.encode("utf-8")).digest()[:16]


def _ecb(key: bytes, encrypt: bool):
    c = Cipher(algorithms.AES(key), modes.ECB())  # noqa: S305 - building block for CBC below
    return c.encryptor() if encrypt else c.decryptor()


def _xor(a: bytes, b: bytes) -> bytes:
    return bytes(x ^ y for x, y in zip(a, b))


def cbc_encrypt(key: bytes, iv: bytes, data: bytes) -> bytes:
    if len(key) != 16 or len(iv) != 16 or len(data) % 16:
        raise ValueError("cbc sizes")
    e = _ecb(key, True)
    out, prev = b"", iv
    for i in range(0, len(data), 16):
        prev = e.update(_xor(data[i : i + 16], prev))
        out += prev
    return out


def cbc_decrypt(key: bytes, iv: bytes, data: bytes) -> bytes:
    if len(key) != 16 or len(iv) != 16 or len(data) % 16:
        raise ValueError("cbc sizes")
    d = _ecb(key, False)
    out, prev = b"", iv
    for i in range(0, len(data), 16):
        blk = data[i : i + 16]
        out += _xor(d.update(blk), prev)
        prev = blk
    return out


def enc_key(key: bytes, h: bytes, iv: bytes) -> str:
    if len(key) != 16:
        raise ValueError("key size")
    return base64.b64encode(cbc_encrypt(h, iv, key)).decode("ascii")


def dec_key(b64: str, h: bytes, iv: bytes) -> bytes:
    return cbc_decrypt(h, iv, base64.b64decode(b64))


def enc_password(password: str, rand8: bytes, h: bytes, iv: bytes) -> str:
    raw = password.encode("utf-8")
    if len(rand8) != 8 or len(raw) > MAX_PASSWORD_OCTETS:
        raise ValueError("password layout")
    pad = 24 - len(raw)
    return base64.b64encode(cbc_encrypt(h, iv, rand8 + raw + bytes([pad]) * pad)).decode("ascii")


def dec_password(b64: str, h: bytes, iv: bytes) -> tuple[bytes, str]:
    data = cbc_decrypt(h, iv, base64.b64decode(b64))
    pad = data[-1]
    if len(data) != 32 or not 1 <= pad <= 24 or data[-pad:] != bytes([pad]) * pad:
        raise ValueError("password padding")
    return data[:8], data[8:-pad].decode("utf-8")


# -- signature ----------------------------------------------------------------


def _s(value: str | bytes, wrap: bool = False) -> bytes:
    raw = value.encode("utf-8") if isinstance(value, str) else value
    if len(raw) > 255 and not wrap:
        raise ValueError("string longer than the one-octet length prefix of the signature scheme")
    return bytes([len(raw) & 0xFF]) + raw


def canonical(root: El, h: bytes, wrap: bool = False) -> bytes:
    """`wrap`: strings longer than 255 octets get the low octet of their length (what a writer that
    emits the length through a byte stream does, e.g. Calimero); not covered by the real exports, so
    the check never relies on such a signature being the right one."""
    out = bytearray()
    _s = functools.partial(globals()["_s"], wrap=wrap)

    def rec(e: El) -> None:
        out.append(1)
        out.extend(_s(e.name))
        for k, v in sorted((kv for kv in e.attrs if kv[0] not in UNSIGNED_ATTRS), key=lambda kv: [ord(c) for c in kv[0]]):
            out.extend(_s(k))
            out.extend(_s(v))
        for c in e.children:
            rec(c)
        out.append(2)

    rec(root)
    out.extend(_s(base64.b64encode(h)))
    return bytes(out)


def signature(root: El, h: bytes, wrap: bool = False) -> str:
    return base64.b64encode(hashlib.sha256(canonical(root, h, wrap)).digest()[:16]).decode("ascii")


# -- model -> tree ------------------------------------------------------------


def ia_str(raw: int) -> str:
    return f"{raw >> 12 & 0xF}.{raw >> 8 & 0xF}.{raw & 0xFF}"


def build_tree(p: dict, wrap: bool = False) -> El:
    """Element tree (signed) of a project description; see checks/c31.py for the field list."""
    h = password_hash(p["password"])
    iv = created_iv(p["created"])
    root = El("Keyring", [("Project", p["project"]), ("CreatedBy", p["created_by"]), ("Created", p["created"]), ("Signature", ""), ("xmlns", NS)])
    bb = p.get("backbone")
    if bb is not None:
        e = El("Backbone")
        if bb.get("multicast") is not None:
            e.attrs.append(("MulticastAddress", bb["multicast"]))
        if bb.get("latency") is not None:
            e.attrs.append(("Latency", str(bb["latency"])))
        if bb.get("key") is not None:
            e.attrs.append(("Key", enc_key(bb["key"], h, iv)))
        root.children.append(e)
    for itf in p.get("interfaces", []):
        e = El("Interface", [("IndividualAddress", ia_str(itf["ia"])), ("Type", itf["type"])])
        if itf.get("host") is not None:
            e.attrs.append(("Host", ia_str(itf["host"])))
        if itf.get("user_id") is not None:
            e.attrs.append(("UserID", str(itf["user_id"])))
        if itf.get("password") is not None:
            e.attrs.append(("Password", enc_password(itf["password"], itf["rand"][:8], h, iv)))
        if itf.get("auth") is not None:
            e.attrs.append(("Authentication", enc_password(itf["auth"], itf["rand"][8:16], h, iv)))
        for ga, senders in itf.get("groups", []):
            g = El("Group", [("Address", str(ga))])
            if senders is not None:  # ETS writes Senders="" for a group without senders; absence is tolerated too
                g.attrs.append(("Senders", " ".join(ia_str(s) for s in senders)))
            e.children.append(g)
        root.children.append(e)
    if p.get("groups"):
        e = El("GroupAddresses")
        for ga, key in p["groups"]:
            e.children.append(El("Group", [("Address", str(ga)), ("Key", enc_key(key, h, iv))]))
        root.children.append(e)
    if p.get("devices"):
        e = El("Devices")
        for dev in p["devices"]:
            d = El("Device", [("IndividualAddress", ia_str(dev["ia"]))])
            if dev.get("tool_key") is not None:
                d.attrs.append(("ToolKey", enc_key(dev["tool_key"], h, iv)))
            if dev.get("mgmt") is not None:
                d.attrs.append(("ManagementPassword", enc_password(dev["mgmt"], dev["rand"][:8], h, iv)))
            if dev.get("auth") is not None:
                d.attrs.append(("Authentication", enc_password(dev["auth"], dev["rand"][8:16], h, iv)))
            if dev.get("seq") is not None:
                d.attrs.append(("SequenceNumber", str(dev["seq"])))
            e.children.append(d)
        root.children.append(e)
    root.set("Signature", signature(root, h, wrap))
    return root


# -- tree -> text -------------------------------------------------------------


def esc(value: str, quote: str = '"') -> str:
    out = value.replace("&", "&amp;").replace("<", "&lt;").replace(">", "&gt;")
    out = out.replace('"', "&quot;") if quote == '"' else out.replace("'", "&apos;")
    return out.replace("\n", "&#10;").replace("\r", "&#13;").replace("\t", "&#9;")


def render(root: El, style: dict | None = None) -> bytes:
    """Serialise. `style` only touches unsigned aspects:

    bom, crlf, indent (str or None = everything on one line), selfclose (" />", "/>", "></>"),
    quote ('"' or "'"), decl (bool), perm (int seed for attribute order; 0 = as stored),
    comment (bool), trailing_newline (bool), gap (extra white space inside tags)
    """
    st = {"bom": True, "crlf": True, "indent": "  ", "selfclose": " />", "quote": '"', "decl": True, "perm": 0, "comment": False, "trailing_newline": False, "gap": " "}
    st.update(style or {})
    nl = "" if st["indent"] is None else ("\r\n" if st["crlf"] else "\n")
    q = st["quote"]
    lines: list[str] = []
    if st["decl"]:
        lines.append('<?xml version="1.0" encoding="utf-8"?>')
    counter = [st["perm"]]

    def order(attrs: list[tuple[str, str]]) -> list[tuple[str, str]]:
        if not st["perm"]:
            return attrs
        attrs = list(attrs)
        out = []
        x = counter[0]
        while attrs:  # deterministic permutation from the seed (LCG)
            x = (x * 1103515245 + 12345) & 0x7FFFFFFF
            out.append(attrs.pop(x % len(attrs)))
        counter[0] = x
        return out

    def rec(e: El, depth: int) -> None:
        ind = "" if st["indent"] is None else st["indent"] * depth
        head = "<" + e.name + "".join(f"{st['gap']}{k}={q}{esc(v, q)}{q}" for k, v in order(e.attrs))
        if not e.children:
            if st["selfclose"] == "></>":
                lines.append(f"{ind}{head}></{e.name}>")
            else:
                lines.append(f"{ind}{head}{st['selfclose']}")
            return
        lines.append(f"{ind}{head}>")
        if st["comment"] and depth == 0:
            lines.append(f"{ind}<!-- exported by keyring_writer -->")
        for c in e.children:
            rec(c, depth + 1)
        lines.append(f"{ind}</{e.name}>")

    rec(root, 0)
    text = nl.join(lines) + (nl if st["trailing_newline"] else "")
    return (b"\xef\xbb\xbf" if st["bom"] else b"") + text.encode("utf-8")


def write(project: dict, style: dict | None = None) -> bytes:
    return render(build_tree(project), style)


# -- minimal reader (validation against real exports only) ---------------------

_TOKEN = re.compile(r"<\?.*?\?>|<!--.*?-->|<(/?)([A-Za-z_][\w.\-:]*)((?:\s+[A-Za-z_][\w.\-:]*\s*=\s*(?:\"[^\"]*\"|'[^']*'))*)\s*(/?)>", re.S)
_ATTR = re.compile(r"([A-Za-z_][\w.\-:]*)\s*=\s*(?:\"([^\"]*)\"|'([^']*)')", re.S)
_ENT = {"amp": "&", "lt": "<", "gt": ">", "quot": '"', "apos": "'"}


def _unesc(v: str) -> str:
    def rep(m: re.Match) -> str:
        n = m.group(1)
        if n.startswith("#x"):
            return chr(int(n[2:], 16))
        if n.startswith("#"):
            return chr(int(n[1:]))
        return _ENT[n]

    return re.sub(r"&(#x[0-9a-fA-F]+|#\d+|\w+);", rep, v)


def parse(data: bytes) -> El:
    text = data.decode("utf-8-sig")
    stack: list[El] = []
    root: El | None = None
    pos = 0
    for m in _TOKEN.finditer(text):
        if text[pos : m.start()].strip():
            raise ValueError("unexpected character data")
        pos = m.end()
        if m.group(2) is None:
            continue  # declaration / comment
        closing, name, attrs, selfclose = m.group(1), m.group(2), m.group(3), m.group(4)
        if closing:
            if not stack or stack[-1].name != name:
                raise ValueError("mismatched end tag")
            stack.pop()
            continue
        e = El(name, [(a.group(1), _unesc(a.group(2) if a.group(2) is not None else a.group(3))) for a in _ATTR.finditer(attrs)])
        if stack:
            stack[-1].children.append(e)
        elif root is None:
            root = e
        else:
            raise ValueError("second root")
        if not selfclose:
            stack.append(e)
    if text[pos:].strip() or stack or root is None:
        raise ValueError("truncated document")
    return root


# -- self test ----------------------------------------------------------------

REAL_FILES = {
    "keyring.knxkeys": "pwd",
    "testcase.knxkeys": "password",
    "special_chars_secure_tunnel.knxkeys": "test",
    "DataSecure_only_one_interface.knxkeys": "test",
    "DataSecure_usb.knxkeys": "test",
    "SecureTest.knxkeys": "test",
}
PASSWORD_ATTRS = ("Password", "Authentication", "ManagementPassword")
KEY_ATTRS = ("Key", "ToolKey")


def selftest(resources: str) -> dict:
    """Regenerate Signature and all ciphertexts of the real ETS exports. Raises on mismatch."""
    n_sig = n_ct = 0
    for name, pw in REAL_FILES.items():
        with open(os.path.join(resources, name), "rb") as f:
            data = f.read()
        root = parse(data)
        h = password_hash(pw)
        iv = created_iv(root.get("Created"))
        stored = root.get("Signature")
        assert signature(root, h) == stored, f"{name}: canonicalisation does not reproduce the ETS signature"
        assert signature(root, password_hash(pw + "x")) != stored
        n_sig += 1
        for _path, e in root.walk():
            for k, v in e.attrs:
                if k in PASSWORD_ATTRS:
                    rand8, plain = dec_password(v, h, iv)
                    assert enc_password(plain, rand8, h, iv) == v, f"{name}: {k} ciphertext not reproduced"
                    n_ct += 1
                elif k in KEY_ATTRS:
                    assert enc_key(dec_key(v, h, iv), h, iv) == v
                    n_ct += 1
        # re-rendering the parsed tree in ETS style reproduces the file byte for byte
        style = {"bom": data[:3] == b"\xef\xbb\xbf", "crlf": b"\r\n" in data, "trailing_newline": data.endswith(b"\n")}
        assert render(root, style) == data, f"{name}: rendering differs from the ETS file"
    # literal values the xknx tests quote for these files
    with open(os.path.join(resources, "keyring.knxkeys"), "rb") as f:
        root = parse(f.read())
    h, iv = password_hash("pwd"), created_iv(root.get("Created"))
    bb = [e for _p, e in root.walk() if e.name == "Backbone"][0]
    assert dec_key(bb.get("Key"), h, iv) == bytes.fromhex("96f034fccf510760cbd63da0f70d4a9d")
    itf = [e for _p, e in root.walk() if e.name == "Interface" and e.get("IndividualAddress") == "1.1.4"][0]
    assert dec_password(itf.get("Password"), h, iv)[1] == "user4"
    return {"signatures_reproduced": n_sig, "ciphertexts_reproduced": n_ct}
