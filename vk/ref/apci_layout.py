"""Independent reference table of KNX application-layer services (APCI codes, PDU layouts).

Written from the layouts cited in the class docstrings of xknx/telegram/apci.py
(KNX v02.01.01 Application Layer 03.03.07, Logical Tag Extended 10.01) and the APCI
coding table. It does NOT import xknx and is never derived by calling the encoder.

An APDU is octet 0 = TTTTTTaa (six TPCI bits, two high APCI bits), octet 1 = the low
eight APCI bits (for "4-bit" services the low six of them carry data or are reserved),
octets 2.. = ASDU.

Per service the table records
  * the 10-bit code and which code bits select the service (``code_mask``),
  * one or more *layouts*: a bit-field list (MSB first; starting at octet 1 bit 5 for
    4-bit services, at octet 2 otherwise) plus a rule for the variable-length tail,
  * which fields are reserved (name ``R``),
  * whether the service is *recognised* (has a PDU definition a decoder must parse;
    a recognised service's malformed PDU is "malformed", never "unsupported").

Everything else (witness APDUs, reserved-bit masks, spec-valid lengths, field boundary
patterns) is computed from that.
"""

from __future__ import annotations

from dataclasses import dataclass, field
from typing import Iterable

R = "R"  # reserved field name
MAX_APDU = 255  # TPCI/APCI octet + 254 octets (NPDU length field is one octet, 0xFF is escape)

# Generic device-management return codes (Application Layer, "Return Codes")
RETURN_CODES = (0x00,) + tuple(range(0xF1, 0x100))


@dataclass(frozen=True)
class Field:
    name: str
    bits: int
    valid: tuple[int, ...] | None = None  # enumerated values, None = whole range


@dataclass(frozen=True)
class Layout:
    """One PDU shape of a service.

    tail: None               -> no variable part
          ("range", lo, hi, step) -> lo..hi octets (hi None = up to MAX_APDU), step
          ("set", (a, b, ..))    -> exactly one of these octet counts
          ("dep", field, mult)   -> mult * value of header field `field` octets
    """

    fields: tuple[Field, ...] = ()
    tail: tuple | None = None

    def header_bits(self) -> int:
        return sum(f.bits for f in self.fields)


@dataclass(frozen=True)
class Service:
    name: str  # service class name
    code: int  # 10-bit APCI
    code_mask: int  # bits of the 10-bit APCI that select the service
    layouts: tuple[Layout, ...]
    cite: str = ""
    recognised: bool = True
    octet1_reserved: int = 0  # reserved bits inside the APCI octet itself (A_Restart family)

    @property
    def four_bit(self) -> bool:
        return self.code_mask == 0x3C0

    # -- geometry --------------------------------------------------------
    def header_octets(self, lay: Layout) -> int:
        """Total APDU octets occupied by APCI + fixed header of this layout."""
        bits = lay.header_bits()
        if self.four_bit:
            assert bits >= 6 and (bits - 6) % 8 == 0, (self.name, bits)
            return 2 + (bits - 6) // 8
        assert bits % 8 == 0, (self.name, bits)
        return 2 + bits // 8

    def field_positions(self, lay: Layout) -> list[tuple[Field, int]]:
        """[(field, absolute bit offset from the MSB of octet 0)]."""
        pos = 10 if self.four_bit else 16
        out = []
        for f in lay.fields:
            out.append((f, pos))
            pos += f.bits
        return out

    def tail_lengths(self, lay: Layout, limit: int = MAX_APDU) -> list[int]:
        """Spec-valid tail octet counts of the layout (for a `dep` tail: all reachable)."""
        h = self.header_octets(lay)
        room = limit - h
        t = lay.tail
        if t is None:
            return [0]
        if t[0] == "range":
            _, lo, hi, step = t
            hi = room if hi is None else min(hi, room)
            return list(range(lo, hi + 1, step))
        if t[0] == "set":
            return [x for x in t[1] if x <= room]
        if t[0] == "dep":
            _, fname, mult = t
            f = next(f for f in lay.fields if f.name == fname)
            return [mult * v for v in range(1 << f.bits) if mult * v <= room]
        raise AssertionError(t)

    def valid_lengths(self) -> set[int]:
        out: set[int] = set()
        for lay in self.layouts:
            h = self.header_octets(lay)
            out.update(h + t for t in self.tail_lengths(lay))
        return out

    def min_length(self) -> int:
        return min(self.valid_lengths())

    def layout_for(self, length: int) -> Layout | None:
        """Layout whose spec-valid lengths contain `length`; else the layout with the
        longest fixed header that still fits (a lenient decoder reads that header);
        None if even the shortest header does not fit."""
        for lay in self.layouts:
            h = self.header_octets(lay)
            if length >= h and (length - h) in self.tail_lengths(lay):
                return lay
        best = None
        for lay in self.layouts:
            h = self.header_octets(lay)
            if h <= length and (best is None or h > self.header_octets(best)):
                best = lay
        return best


def F(name: str, bits: int, valid: Iterable[int] | None = None) -> Field:
    return Field(name, bits, tuple(valid) if valid is not None else None)


def L(*fields: Field, tail: tuple | None = None) -> Layout:
    return Layout(tuple(fields), tail)


ANY = ("range", 0, None, 1)  # variable-length data, may be empty
ANY1 = ("range", 1, None, 1)  # at least one octet

_AL = "KNX 03_03_07 Application Layer"
_EXT_HDR = (F("interface_object_type", 16), F("object_instance", 12), F("property_id", 12))
_EXT_VAL = _EXT_HDR + (F("nr_of_elem", 8), F("start_index", 16))
_SNP_HDR = (F("object_type", 16), F("property_id", 12), F(R, 4))
_NP_HDR = (F("object_type", 16), F("property_id", 8))
_GPV_HDR = (F("object_type", 16), F("object_instance", 8), F("property_id", 8))
_PV_HDR = (F("object_index", 8), F("property_id", 8), F("count", 4), F("start_index", 12))
_UM_HDR = (F("address_ext", 4), F("count", 4), F("address", 16))
_NUM_ADDR = (F("number", 8), F("address", 16))


def _s4(name: str, code: int, *layouts: Layout, cite: str = "") -> Service:
    return Service(name, code, 0x3C0, tuple(layouts), cite or _AL)


def _s10(name: str, code: int, *layouts: Layout, cite: str = "", recognised: bool = True) -> Service:
    return Service(name, code, 0x3FF, tuple(layouts), cite or _AL, recognised)


# low six code bits of the 10-bit services that live inside the 0111 (A_ADC_Response) block
_ADC_BLOCK_10BIT = frozenset((0x08, 0x09, 0x0A)) | frozenset(range(0x0C, 0x17)) | frozenset(range(0x3B, 0x3F))

SERVICES: tuple[Service, ...] = (
    # ---- 4-bit APCI services (low six bits of octet 1 = data or reserved) ----------
    _s4("GroupValueRead", 0x000, L(F(R, 6)), cite="A_GroupValue_Read: no data, 6 bits 0"),
    _s4("GroupValueResponse", 0x040, L(F("value6", 6)), L(F(R, 6), tail=("range", 1, None, 1)),
        cite="A_GroupValue_Response: <=6 bit data in the APCI octet, else octets follow and the 6 bits are 0"),
    _s4("GroupValueWrite", 0x080, L(F("value6", 6)), L(F(R, 6), tail=("range", 1, None, 1)),
        cite="A_GroupValue_Write: same coding as the response"),
    _s4("IndividualAddressWrite", 0x0C0, L(F(R, 6), F("address", 16))),
    _s4("IndividualAddressRead", 0x100, L(F(R, 6))),
    _s4("IndividualAddressResponse", 0x140, L(F(R, 6))),
    _s4("ADCRead", 0x180, L(F("channel", 6), F("count", 8))),
    # channel numbers whose code 0x1C0|n is allocated to a 10-bit service cannot be expressed
    _s4("ADCResponse", 0x1C0, L(F("channel", 6, [n for n in range(64) if n not in _ADC_BLOCK_10BIT]), F("count", 8), F("value", 16)),
        cite="A_ADC_Response: 0111 + 6 bit channel; 0x1C8..0x1D6 and 0x1FB..0x1FE are separate 10-bit services"),
    _s4("MemoryRead", 0x200, L(F("count", 6), F("address", 16))),
    _s4("MemoryResponse", 0x240, L(F("count", 6), F("address", 16), tail=("dep", "count", 1))),
    _s4("MemoryWrite", 0x280, L(F("count", 6), F("address", 16), tail=("dep", "count", 1))),
    _s4("DeviceDescriptorRead", 0x300, L(F("descriptor", 6))),
    _s4("DeviceDescriptorResponse", 0x340, L(F("descriptor", 6), tail=("set", (2, 14))),
        cite="A_DeviceDescriptor_Response: type 0 = 2 octets, type 2 = 14 octets"),
    # ---- A_Restart family: 1110 r 0000 t  (response bit, 4 reserved bits, type bit) --
    Service("Restart", 0x380, 0x3E1, (L(),), "03_03_07 §3.4.2.2 A_Restart (class docstring of Restart)", True, 0x1E),
    Service("RestartMasterReset", 0x381, 0x3E1, (L(F("erase_code", 8), F("channel_number", 8)),),
            "§3.4.2.2 A_Restart master reset", True, 0x1E),
    Service("RestartMasterResetResponse", 0x3A1, 0x3E1, (L(F("error_code", 8), F("process_time", 16)),),
            "§3.4.2.2 A_Restart_Response", True, 0x1E),
    # ---- 10-bit services inside the 0111 (A_ADC_Response) block -----------------------
    _s10("SystemNetworkParameterRead", 0x1C8, L(*_SNP_HDR, tail=ANY), cite="§3.3.8: 16 bit type, 12 bit PID, 4 reserved"),
    _s10("SystemNetworkParameterResponse", 0x1C9, L(*_SNP_HDR, tail=ANY), cite="§3.3.8"),
    _s10("SystemNetworkParameterWrite", 0x1CA, L(*_SNP_HDR, tail=ANY), cite="§3.3.9"),
    _s10("PropertyExtValueRead", 0x1CC, L(*_EXT_VAL), cite="§3.4.5.1"),
    _s10("PropertyExtValueResponse", 0x1CD, L(*_EXT_VAL, tail=ANY), cite="§3.4.5.1"),
    _s10("PropertyExtValueWriteCon", 0x1CE, L(*_EXT_VAL, tail=ANY), cite="§3.4.5.2"),
    _s10("PropertyExtValueWriteConRes", 0x1CF, L(*_EXT_VAL, F("return_code", 8, RETURN_CODES)), cite="§3.4.5.2"),
    _s10("PropertyExtValueWriteUnCon", 0x1D0, L(*_EXT_VAL, tail=ANY), cite="§3.4.5.3"),
    _s10("PropertyExtValueInfoReport", 0x1D1, L(*_EXT_VAL, tail=ANY), cite="§3.4.5.4"),
    _s10("PropertyExtDescriptionRead", 0x1D2, L(*_EXT_HDR, F("description_type", 4), F("property_index", 12)), cite="§3.4.3.2"),
    _s10("PropertyExtDescriptionResponse", 0x1D3,
         L(*_EXT_HDR, F("description_type", 4), F("property_index", 12), F("dpt_main", 16), F("dpt_sub", 16),
           F("writable", 1), F(R, 1), F("pdt", 6), F("max_nr_of_elem", 16), F("read_level", 4), F("write_level", 4)),
         cite="§3.4.3.2: writable flag, a reserved bit (always 0), 6 bit PDT"),
    _s10("FunctionPropertyExtCommand", 0x1D4, L(*_EXT_HDR, tail=ANY), cite="§3.4.8.1"),
    _s10("FunctionPropertyExtStateRead", 0x1D5, L(*_EXT_HDR, tail=ANY), cite="§3.4.8.2"),
    _s10("FunctionPropertyExtStateResponse", 0x1D6, L(*_EXT_HDR, F("return_code", 8, RETURN_CODES), tail=ANY), cite="§3.4.8.2"),
    _s10("MemoryExtendedWrite", 0x1FB, L(F("count", 8), F("address", 24), tail=("dep", "count", 1))),
    _s10("MemoryExtendedWriteResponse", 0x1FC, L(F("return_code", 8), F("address", 24), tail=ANY)),
    _s10("MemoryExtendedRead", 0x1FD, L(F("count", 8), F("address", 24))),
    _s10("MemoryExtendedReadResponse", 0x1FE, L(F("return_code", 8), F("address", 24), tail=ANY)),
    # ---- user messages (1011) --------------------------------------------------------
    _s10("UserMemoryRead", 0x2C0, L(*_UM_HDR)),
    _s10("UserMemoryResponse", 0x2C1, L(*_UM_HDR, tail=("dep", "count", 1))),
    _s10("UserMemoryWrite", 0x2C2, L(*_UM_HDR, tail=("dep", "count", 1))),
    _s10("UserMemoryBitWrite", 0x2C4, L(*_NUM_ADDR, tail=("dep", "number", 2)), cite="§3.5.6.4"),
    _s10("UserManufacturerInfoRead", 0x2C5, L()),
    _s10("UserManufacturerInfoResponse", 0x2C6, L(F("manufacturer_id", 8), F("data", 16))),
    _s10("FunctionPropertyCommand", 0x2C7, L(F("object_index", 8), F("property_id", 8), tail=ANY)),
    _s10("FunctionPropertyStateRead", 0x2C8, L(F("object_index", 8), F("property_id", 8), tail=ANY)),
    _s10("FunctionPropertyStateResponse", 0x2C9, L(F("object_index", 8), F("property_id", 8), F("return_code", 8), tail=ANY)),
    # ---- escape block (1111) ---------------------------------------------------------
    _s10("FilterTableOpen", 0x3C0, L(), cite="§3.6.1"),
    _s10("FilterTableRead", 0x3C1, L(*_NUM_ADDR), cite="§3.6.2"),
    _s10("FilterTableResponse", 0x3C2, L(*_NUM_ADDR, tail=("dep", "number", 1)), cite="§3.6.2"),
    _s10("FilterTableWrite", 0x3C3, L(*_NUM_ADDR, tail=("dep", "number", 1)), cite="§3.6.3"),
    _s10("RouterMemoryRead", 0x3C8, L(*_NUM_ADDR), cite="§3.6.4"),
    _s10("RouterMemoryResponse", 0x3C9, L(*_NUM_ADDR, tail=("dep", "number", 1)), cite="§3.6.4"),
    _s10("RouterMemoryWrite", 0x3CA, L(*_NUM_ADDR, tail=("dep", "number", 1)), cite="§3.6.5"),
    # coding table lists these codes without a PDU definition -> not "recognised"
    _s10("RouterStatusRead", 0x3CD, L(), recognised=False, cite="code only, no PDU definition"),
    _s10("RouterStatusResponse", 0x3CE, L(), recognised=False, cite="code only, no PDU definition"),
    _s10("RouterStatusWrite", 0x3CF, L(), recognised=False, cite="code only, no PDU definition"),
    _s10("MemoryBitWrite", 0x3D0, L(*_NUM_ADDR, tail=("dep", "number", 2)), cite="§3.5.5"),
    _s10("AuthorizeRequest", 0x3D1, L(F(R, 8), F("key", 32)), cite="A_Authorize_Request: reserved 00h octet, 4 octet key"),
    _s10("AuthorizeResponse", 0x3D2, L(F("level", 8))),
    _s10("KeyWrite", 0x3D3, L(F("level", 8), F("key", 32)), cite="§3.5.8"),
    _s10("KeyResponse", 0x3D4, L(F("level", 8)), cite="§3.5.8"),
    _s10("PropertyValueRead", 0x3D5, L(*_PV_HDR)),
    _s10("PropertyValueResponse", 0x3D6, L(*_PV_HDR, tail=ANY)),
    _s10("PropertyValueWrite", 0x3D7, L(*_PV_HDR, tail=ANY)),
    _s10("PropertyDescriptionRead", 0x3D8, L(F("object_index", 8), F("property_id", 8), F("property_index", 8))),
    _s10("PropertyDescriptionResponse", 0x3D9,
         L(F("object_index", 8), F("property_id", 8), F("property_index", 8), F("type", 8), F(R, 4), F("max_count", 12), F("access", 8)),
         cite="A_PropertyDescription_Response: 12 bit max_nr_of_elem preceded by 4 reserved bits"),
    _s10("NetworkParameterRead", 0x3DA, L(*_NP_HDR, tail=ANY), cite="§3.2.6"),
    _s10("NetworkParameterResponse", 0x3DB, L(*_NP_HDR, tail=ANY), cite="§3.2.6"),
    _s10("IndividualAddressSerialRead", 0x3DC, L(F("serial", 48))),
    _s10("IndividualAddressSerialResponse", 0x3DD, L(F("serial", 48), F("address", 16), F(R, 16)),
         cite="A_IndividualAddressSerialNumber_Response: serial, domain/address, 2 reserved octets"),
    _s10("IndividualAddressSerialWrite", 0x3DE, L(F("serial", 48), F("address", 16), F(R, 32)),
         cite="A_IndividualAddressSerialNumber_Write: serial, new address, 4 reserved octets"),
    _s10("DomainAddressWrite", 0x3E0, L(tail=("set", (2, 6))), cite="§3.3.3"),
    _s10("DomainAddressRead", 0x3E1, L(), cite="§3.3.4"),
    _s10("DomainAddressResponse", 0x3E2, L(tail=("set", (2, 6))), cite="§3.3.4"),
    _s10("DomainAddressSelectiveRead", 0x3E3, L(tail=ANY1), cite="§3.3.5"),
    _s10("NetworkParameterWrite", 0x3E4, L(*_NP_HDR, tail=ANY), cite="§3.2.7"),
    _s10("LinkRead", 0x3E5, L(F("group_object_number", 8), F(R, 4), F("start_index", 4)), cite="§3.4.6.1: 4 reserved bits + 4 bit start_index"),
    _s10("LinkResponse", 0x3E6, L(F("group_object_number", 8), F("sending_address", 4), F("start_index", 4), tail=("range", 0, 12, 2)), cite="§3.4.6.1"),
    _s10("LinkWrite", 0x3E7, L(F("group_object_number", 8), F(R, 6), F("delete", 1), F("sending", 1), F("group_address", 16)), cite="§3.4.6.2: 6 reserved bits, d, s"),
    _s10("GroupPropValueRead", 0x3E8, L(*_GPV_HDR), cite="LTE 10.01 §7.6.4"),
    _s10("GroupPropValueResponse", 0x3E9, L(*_GPV_HDR, tail=ANY), cite="LTE §7.6.4"),
    _s10("GroupPropValueWrite", 0x3EA, L(*_GPV_HDR, tail=ANY), cite="LTE §7.6.5"),
    _s10("GroupPropValueInfoReport", 0x3EB, L(*_GPV_HDR, tail=ANY), cite="LTE §7.6.6"),
    _s10("DomainAddressSerialNumberRead", 0x3EC, L(F("serial", 48)), cite="§3.3.6"),
    _s10("DomainAddressSerialNumberResponse", 0x3ED, L(F("serial", 48), tail=("set", (2, 6))), cite="§3.3.6"),
    _s10("DomainAddressSerialNumberWrite", 0x3EE, L(F("serial", 48), tail=("set", (2, 4, 6, 21))), cite="§3.3.7"),
    _s10("FileStreamInfoReport", 0x3F0, L(F("file_handle", 4), F("file_block_seq_number", 4), tail=ANY), cite="§3.4.2.3"),
    _s10("SecureAPDU", 0x3F1,
         L(F("tool_access", 1), F("algorithm", 3, (0, 1)), F("system_broadcast", 1), F("service", 3, (0, 2, 3)),
           F("sequence_number", 48), tail=("range", 4, None, 1)),
         cite="§5.1 S-A_Data: SCF, 6 octet sequence number, secured APDU, 4 octet MAC"),
)

BY_NAME: dict[str, Service] = {s.name: s for s in SERVICES}
_EXACT: dict[int, Service] = {s.code: s for s in SERVICES if s.code_mask == 0x3FF}
_RESTART = [s for s in SERVICES if s.code_mask == 0x3E1]
_FOUR: dict[int, Service] = {s.code: s for s in SERVICES if s.code_mask == 0x3C0}


def apci_of(raw: bytes) -> int:
    """10-bit APCI of an APDU of at least two octets."""
    return ((raw[0] << 8) | raw[1]) & 0x3FF


def lookup(apci: int) -> Service | None:
    """Service a 10-bit APCI code belongs to (10-bit codes first, then the A_Restart
    family with its reserved code bits ignored, then the 4-bit services)."""
    s = _EXACT.get(apci)
    if s is not None:
        return s
    if apci & 0x3C0 == 0x380:
        for r in _RESTART:
            if apci & r.code_mask == r.code:
                return r
        return None  # 1110 1 xxxx 0: response to a basic restart - not defined
    if apci & 0x3C0 in (0x2C0, 0x3C0):
        return None  # user-message / escape blocks have only 10-bit codes
    return _FOUR.get(apci & 0x3C0)


def canonical(apci: int) -> bool:
    """True if the code names its service with all reserved *code* bits zero."""
    s = lookup(apci)
    return s is not None and (apci & ~s.code_mask & s.octet1_reserved & 0xFF) == 0 and (
        s.code_mask != 0x3E1 or apci == s.code
    )


SERVICE_OF: list[Service | None] = [lookup(c) for c in range(1024)]
RECOGNISED: list[bool] = [s is not None and s.recognised for s in SERVICE_OF]
# class name a decoder must produce - only asserted for canonical codes
NAME_OF: list[str | None] = [
    (s.name if s is not None and s.recognised and canonical(c) else None) for c, s in enumerate(SERVICE_OF)
]
_VALID_LEN: dict[str, frozenset[int]] = {s.name: frozenset(s.valid_lengths()) for s in SERVICES}
_MIN_LEN: dict[str, int] = {s.name: min(v) for s, v in ((s, _VALID_LEN[s.name]) for s in SERVICES)}


def valid_lengths(apci: int) -> frozenset[int]:
    s = SERVICE_OF[apci]
    return _VALID_LEN[s.name] if s is not None else frozenset()


def min_length(apci: int) -> int | None:
    s = SERVICE_OF[apci]
    return _MIN_LEN[s.name] if s is not None else None


# ---------------------------------------------------------------------------
# reserved-bit masks
# ---------------------------------------------------------------------------

_mask_cache: dict[tuple[int, int], bytes] = {}


def reserved_mask(apci: int, length: int) -> bytes:
    """Mask (1 = reserved / not part of the APDU meaning) for an APDU of `length` octets
    carrying code `apci`. Octet 0 always masks the six TPCI bits. A code the table does
    not know gets nothing else masked (strictest)."""
    key = (apci, length)
    m = _mask_cache.get(key)
    if m is not None:
        return m
    out = bytearray(length)
    if length:
        out[0] = 0xFC
    s = SERVICE_OF[apci]
    if s is not None and length >= 2:
        out[1] |= s.octet1_reserved
        lay = s.layout_for(length)
        if lay is not None:
            for f, pos in s.field_positions(lay):
                if f.name != R:
                    continue
                for b in range(pos, pos + f.bits):
                    if b // 8 < length:
                        out[b // 8] |= 0x80 >> (b % 8)
    m = bytes(out)
    if len(_mask_cache) < 200_000:
        _mask_cache[key] = m
    return m


# ---------------------------------------------------------------------------
# building APDUs from the table (used by the generators; still no xknx)
# ---------------------------------------------------------------------------


def build(s: Service, lay: Layout, values: dict[str, int], tail: bytes = b"", reserved_fill: int = 0, code: int | None = None) -> bytes:
    """Assemble an APDU: code, header fields from `values` (missing -> 0, reserved ->
    all-zero or all-one by `reserved_fill`), then `tail`."""
    h = s.header_octets(lay)
    out = bytearray(h)
    c = s.code if code is None else code
    out[0] = (c >> 8) & 0x03
    out[1] = c & 0xFF
    if s.octet1_reserved and reserved_fill:
        out[1] |= s.octet1_reserved
    for f, pos in s.field_positions(lay):
        if f.name == R:
            v = ((1 << f.bits) - 1) if reserved_fill else 0
        else:
            v = values.get(f.name, 0) & ((1 << f.bits) - 1)
        for i in range(f.bits):
            if (v >> (f.bits - 1 - i)) & 1:
                b = pos + i
                out[b // 8] |= 0x80 >> (b % 8)
    return bytes(out) + tail


def dep_field(lay: Layout) -> tuple[str, int] | None:
    return (lay.tail[1], lay.tail[2]) if lay.tail is not None and lay.tail[0] == "dep" else None


def witness(s: Service, variant: int = 0) -> bytes:
    """A spec-valid APDU of the service (variant 0: minimal, zero fields where allowed;
    variant 1: non-zero distinctive field values and a short tail)."""
    lay = s.layouts[-1] if variant else s.layouts[0]
    vals: dict[str, int] = {}
    for i, f in enumerate(lay.fields):
        if f.name == R:
            continue
        if f.valid is not None:
            vals[f.name] = f.valid[-1 if variant else 0]
        elif variant:
            vals[f.name] = (0x5A5A5A5A5A5A5A >> 3 * i) & ((1 << f.bits) - 1) or 1
    tails = s.tail_lengths(lay)
    d = dep_field(lay)
    if d is not None:
        n = 2 if variant else 1
        vals[d[0]] = n
        tl = n * d[1]
    else:
        tl = tails[min(len(tails) - 1, 1)] if variant else tails[0]
    tail = bytes((0xA0 + i) & 0xFF for i in range(tl))
    return build(s, lay, vals, tail)


# ---------------------------------------------------------------------------
# self test: literal vectors (hand-computed from the layouts above)
# ---------------------------------------------------------------------------


def selftest() -> None:
    # code lookup
    assert lookup(0x000).name == "GroupValueRead" and lookup(0x03F).name == "GroupValueRead"
    assert lookup(0x080).name == "GroupValueWrite" and lookup(0x0BF).name == "GroupValueWrite"
    assert lookup(0x1C7).name == "ADCResponse" and lookup(0x1C8).name == "SystemNetworkParameterRead"
    assert lookup(0x1CB).name == "ADCResponse" and lookup(0x1FE).name == "MemoryExtendedReadResponse"
    assert lookup(0x2C3) is None and lookup(0x2CA) is None and lookup(0x3C4) is None and lookup(0x3FF) is None
    assert lookup(0x380).name == "Restart" and lookup(0x381).name == "RestartMasterReset"
    assert lookup(0x39E).name == "Restart" and lookup(0x383).name == "RestartMasterReset"
    assert lookup(0x3A1).name == "RestartMasterResetResponse" and lookup(0x3A0) is None
    assert canonical(0x380) and not canonical(0x382) and canonical(0x3A1) and not canonical(0x3A3)
    assert canonical(0x085) and canonical(0x3D5)
    assert lookup(0x3CD).name == "RouterStatusRead" and not RECOGNISED[0x3CD] and NAME_OF[0x3CD] is None
    # 13 four-bit blocks (the ADC_Response block is recognised throughout: ADC or a 10-bit
    # code), 48 A_Restart codes (16 "response to basic restart" undefined), 9 user codes,
    # 39 escape codes with a PDU definition
    assert sum(RECOGNISED) == 13 * 64 + 48 + 9 + 39, sum(RECOGNISED)
    # lengths
    assert BY_NAME["GroupValueRead"].valid_lengths() == {2}
    assert BY_NAME["GroupValueWrite"].valid_lengths() == set(range(2, 256))
    assert BY_NAME["PropertyValueRead"].valid_lengths() == {6}
    assert BY_NAME["PropertyExtDescriptionResponse"].valid_lengths() == {17}
    assert BY_NAME["LinkResponse"].valid_lengths() == {4, 6, 8, 10, 12, 14, 16}
    assert BY_NAME["DomainAddressSerialNumberWrite"].valid_lengths() == {10, 12, 14, 29}
    assert BY_NAME["MemoryWrite"].valid_lengths() == set(range(4, 68))
    assert BY_NAME["UserMemoryBitWrite"].min_length() == 5 and 7 in BY_NAME["UserMemoryBitWrite"].valid_lengths()
    assert 6 not in BY_NAME["UserMemoryBitWrite"].valid_lengths()
    assert BY_NAME["SecureAPDU"].min_length() == 13
    assert BY_NAME["IndividualAddressSerialWrite"].valid_lengths() == {14}
    # masks
    assert reserved_mask(0x000, 2) == bytes([0xFC, 0x3F])
    assert reserved_mask(0x080, 2) == bytes([0xFC, 0x00])
    assert reserved_mask(0x080, 3) == bytes([0xFC, 0x3F, 0x00])
    assert reserved_mask(0x0C0, 4) == bytes([0xFC, 0x3F, 0, 0])
    assert reserved_mask(0x180, 3) == bytes([0xFC, 0, 0])
    assert reserved_mask(0x380, 2) == bytes([0xFC, 0x1E])
    assert reserved_mask(0x3A0, 2) == bytes([0xFC, 0x00])
    assert reserved_mask(0x1C8, 7) == bytes([0xFC, 0, 0, 0, 0, 0x0F, 0])
    assert reserved_mask(0x1D3, 17)[13] == 0x40 and sum(reserved_mask(0x1D3, 17)[1:]) == 0x40
    assert reserved_mask(0x3D1, 7) == bytes([0xFC, 0, 0xFF, 0, 0, 0, 0])
    assert reserved_mask(0x3D9, 9) == bytes([0xFC, 0, 0, 0, 0, 0, 0xF0, 0, 0])
    assert reserved_mask(0x3DD, 12) == bytes([0xFC] + [0] * 9 + [0xFF, 0xFF])
    assert reserved_mask(0x3DE, 14) == bytes([0xFC] + [0] * 9 + [0xFF] * 4)
    assert reserved_mask(0x3E5, 4) == bytes([0xFC, 0, 0, 0xF0])
    assert reserved_mask(0x3E7, 6) == bytes([0xFC, 0, 0, 0xFC, 0, 0])
    assert reserved_mask(0x2C3, 5) == bytes([0xFC, 0, 0, 0, 0])
    # builder
    assert build(BY_NAME["PropertyValueRead"], BY_NAME["PropertyValueRead"].layouts[0],
                 {"object_index": 1, "property_id": 0x36, "count": 1, "start_index": 1}) == bytes.fromhex("03d501361001")
    assert build(BY_NAME["MemoryRead"], BY_NAME["MemoryRead"].layouts[0], {"count": 0x0B, "address": 0x1234}) == bytes.fromhex("020b1234")
    assert build(BY_NAME["LinkWrite"], BY_NAME["LinkWrite"].layouts[0],
                 {"group_object_number": 7, "delete": 1, "sending": 0, "group_address": 0x0901}, reserved_fill=1) == bytes.fromhex("03e707fe0901")
    assert build(BY_NAME["SystemNetworkParameterRead"], BY_NAME["SystemNetworkParameterRead"].layouts[0],
                 {"object_type": 1, "property_id": 0xABC}, b"\x99") == bytes.fromhex("01c80001abc099")
    assert witness(BY_NAME["GroupValueRead"]) == b"\x00\x00"
    assert witness(BY_NAME["UserMemoryBitWrite"]) == bytes.fromhex("02c4010000a0a1")
    for s in SERVICES:
        for v in (0, 1):
            w = witness(s, v)
            assert len(w) in s.valid_lengths(), (s.name, v, w.hex())
            assert lookup(apci_of(w)) is s
    assert {c & 0x3F for c in _EXACT if c & 0x3C0 == 0x1C0} == set(_ADC_BLOCK_10BIT)
