"""Deterministic virtual-time asyncio loop with fake UDP/TCP transports.

* `VLoop.time()` is a virtual clock; the selector never blocks, it advances the
  clock to the next timer. No sockets (except the loop's own self-pipe), no wall
  clock. 100+ virtual seconds of a tunnel session cost ~1 ms.
* `create_datagram_endpoint` / `create_connection` return fake transports wired to
  a `net` object (the simulator): `net.on_datagram(transport, data, addr)`,
  `net.on_stream_open(transport)` (may raise OSError), `net.on_stream_data(transport, data)`,
  `net.on_transport_closed(transport)`.
* Every loop iteration increments `loop.tick` and calls the registered tick hooks,
  so a harness can inject events at exact loop iterations.
* Exceptions reaching the loop's exception handler are collected in
  `loop.escaped` ("exception escaped into the event loop").
* An iteration budget ends runaway cases as *inconclusive* (`BudgetExceeded`),
  never as a violation.
"""

from __future__ import annotations

import asyncio
import selectors
from typing import Any, Callable, Coroutine


class BudgetExceeded(Exception):
    """Iteration budget exhausted - inconclusive case (harness), not a violation."""


class Deadlock(Exception):
    """The awaited coroutine can never complete: nothing ready, nothing scheduled."""


class _VSelector(selectors.BaseSelector):
    def __init__(self, loop: "VLoop") -> None:
        self._loop = loop
        self._real = selectors.DefaultSelector()

    def register(self, fileobj: Any, events: int, data: Any = None) -> selectors.SelectorKey:
        return self._real.register(fileobj, events, data)

    def unregister(self, fileobj: Any) -> selectors.SelectorKey:
        return self._real.unregister(fileobj)

    def modify(self, fileobj: Any, events: int, data: Any = None) -> selectors.SelectorKey:
        return self._real.modify(fileobj, events, data)

    def get_map(self):  # type: ignore[no-untyped-def]
        return self._real.get_map()

    def get_key(self, fileobj: Any) -> selectors.SelectorKey:
        return self._real.get_key(fileobj)

    def close(self) -> None:
        self._real.close()

    def select(self, timeout: float | None = None):  # type: ignore[no-untyped-def]
        loop = self._loop
        if timeout is None:
            # nothing ready and nothing scheduled: quiescent
            loop._quiescent = True
            loop.stop()
            return []
        if timeout > 0:
            loop._now += timeout
        return []


class VLoop(asyncio.SelectorEventLoop):
    """Virtual-time event loop."""

    def __init__(self, net: Any = None, max_iters: int = 2_000_000) -> None:
        self._now = 0.0
        self._quiescent = False
        self.tick = 0
        self.max_iters = max_iters
        self.tick_hooks: list[Callable[[int], None]] = []
        self.escaped: list[dict[str, Any]] = []
        self.net = net
        self.fake_transports: list[Any] = []
        self._port = 40000
        super().__init__(_VSelector(self))
        self.set_exception_handler(self._on_exception)

    # -- clock -------------------------------------------------------------
    def time(self) -> float:
        return self._now

    def _run_once(self) -> None:  # type: ignore[override]
        self.tick += 1
        if self.tick > self.max_iters:
            raise BudgetExceeded(f"more than {self.max_iters} loop iterations")
        for hook in list(self.tick_hooks):
            hook(self.tick)
        super()._run_once()  # type: ignore[misc]

    def _on_exception(self, loop: asyncio.AbstractEventLoop, context: dict[str, Any]) -> None:
        exc = context.get("exception")
        self.escaped.append(
            {
                "t": round(self._now, 6),
                "message": context.get("message", ""),
                "exception": exc,
                "repr": repr(exc),
            }
        )

    # -- running -----------------------------------------------------------
    def run(self, coro: Coroutine[Any, Any, Any]) -> Any:
        """Run a scenario coroutine to completion in virtual time."""
        self._quiescent = False
        fut = asyncio.ensure_future(coro, loop=self)
        try:
            return self.run_until_complete(fut)
        except RuntimeError as e:
            if self._quiescent and not fut.done():
                fut.cancel()
                try:
                    self.run_until_complete(asyncio.gather(fut, return_exceptions=True))
                except Exception:  # noqa: BLE001
                    pass
                raise Deadlock("scenario cannot complete: loop is quiescent") from e
            raise

    def shutdown(self) -> list[str]:
        """Cancel everything, drain, close. Returns names of tasks that were still alive."""
        alive = []
        try:
            tasks = [t for t in asyncio.all_tasks(self) if not t.done()]
            alive = [t.get_name() for t in tasks]
            for t in tasks:
                t.cancel()
            if tasks:
                self._quiescent = False
                try:
                    self.run_until_complete(asyncio.gather(*tasks, return_exceptions=True))
                except (RuntimeError, BudgetExceeded):
                    pass
        finally:
            try:
                self.close()
            except Exception:  # noqa: BLE001
                pass
        return alive

    # -- fake endpoints ----------------------------------------------------
    async def create_datagram_endpoint(self, protocol_factory, local_addr=None, remote_addr=None, **kw):  # type: ignore[no-untyped-def,override]
        protocol = protocol_factory()
        if local_addr is None:
            local_addr = ("10.0.0.2", 0)
        host, port = local_addr[0], local_addr[1]
        if not port:
            self._port += 1
            port = self._port
        tr = FakeDatagramTransport(self, protocol, (host, port), multicast=kw.get("sock") is not None)
        self.fake_transports.append(tr)
        if self.net is not None and hasattr(self.net, "on_datagram_open"):
            self.net.on_datagram_open(tr)
        protocol.connection_made(tr)
        return tr, protocol

    async def create_connection(self, protocol_factory, host=None, port=None, **kw):  # type: ignore[no-untyped-def,override]
        protocol = protocol_factory()
        self._port += 1
        tr = FakeStreamTransport(self, protocol, ("10.0.0.2", self._port), (host, port))
        if self.net is not None and hasattr(self.net, "on_stream_open"):
            delay = self.net.on_stream_open(tr)  # may raise OSError (connection refused)
            if delay:
                await asyncio.sleep(delay)
        self.fake_transports.append(tr)
        protocol.connection_made(tr)
        return tr, protocol


class _FakeTransport(asyncio.Transport):
    def __init__(self, loop: VLoop, protocol: Any, local: tuple[str, int], peer: Any = None) -> None:
        super().__init__()
        self.loop = loop
        self.protocol = protocol
        self.local = local
        self.peer = peer
        self.closed = False
        self.sent: list[tuple[float, int, bytes, Any]] = []

    def get_extra_info(self, name: str, default: Any = None) -> Any:
        if name == "sockname":
            return self.local
        if name == "peername":
            return self.peer
        return default

    def is_closing(self) -> bool:
        return self.closed

    def close(self) -> None:
        if self.closed:
            return
        self.closed = True
        net = self.loop.net
        if net is not None and hasattr(net, "on_transport_closed"):
            net.on_transport_closed(self)
        self.loop.call_soon(self.protocol.connection_lost, None)

    def abort(self) -> None:
        self.close()


class FakeDatagramTransport(_FakeTransport, asyncio.DatagramTransport):  # type: ignore[misc]
    kind = "udp"

    def __init__(self, loop: VLoop, protocol: Any, local: tuple[str, int], multicast: bool = False) -> None:
        super().__init__(loop, protocol, local)
        self.multicast = multicast

    def sendto(self, data: bytes, addr: Any = None) -> None:
        if self.closed:
            # a real closed datagram transport ignores/warns; record for the oracle
            self.sent.append((self.loop.time(), self.loop.tick, bytes(data), ("closed", addr)))
            return
        self.sent.append((self.loop.time(), self.loop.tick, bytes(data), addr))
        net = self.loop.net
        if net is not None:
            net.on_datagram(self, bytes(data), addr)

    # simulator -> client
    def deliver(self, data: bytes, addr: tuple[str, int], delay: float = 0.0) -> None:
        def _do() -> None:
            if not self.closed:
                self.protocol.datagram_received(data, addr)

        if delay > 0:
            self.loop.call_later(delay, _do)
        else:
            self.loop.call_soon(_do)


class FakeStreamTransport(_FakeTransport):
    kind = "tcp"

    def write(self, data: bytes) -> None:
        if self.closed:
            self.sent.append((self.loop.time(), self.loop.tick, bytes(data), "closed"))
            return
        self.sent.append((self.loop.time(), self.loop.tick, bytes(data), None))
        net = self.loop.net
        if net is not None:
            net.on_stream_data(self, bytes(data))

    def deliver(self, data: bytes, delay: float = 0.0) -> None:
        def _do() -> None:
            if not self.closed:
                self.protocol.data_received(data)

        if delay > 0:
            self.loop.call_later(delay, _do)
        else:
            self.loop.call_soon(_do)

    def lose(self, exc: Exception | None = None, delay: float = 0.0) -> None:
        """Server side / network closes the connection."""

        def _do() -> None:
            if not self.closed:
                self.closed = True
                self.protocol.connection_lost(exc)

        if delay > 0:
            self.loop.call_later(delay, _do)
        else:
            self.loop.call_soon(_do)


def run_case(scenario: Callable[[VLoop], Coroutine[Any, Any, Any]], net: Any = None, max_iters: int = 2_000_000):
    """Run one scenario on a fresh virtual loop. Returns (result, loop) after shutdown.

    The loop object is closed but keeps `escaped`, `tick`, `fake_transports` for the oracle.
    """
    loop = VLoop(net=net, max_iters=max_iters)
    try:
        asyncio.set_event_loop(loop)
        result = loop.run(scenario(loop))
        return result, loop
    finally:
        loop.alive_at_end = loop.shutdown()  # type: ignore[attr-defined]
        asyncio.set_event_loop(None)
