"""XKNX-level harness: a real XKNX instance on the virtual loop with a stub interface.

    async def scenario(loop):
        h = await XH.create(loop, rate_limit=0)       # real XKNX, queue / registry / updater started
        h.connect()                                   # report CONNECTED to the connection manager
        ... use h.xknx, add devices, h.inject(telegram) (incoming via the queue), await h.settle()
        await h.close()

The stub interface records every `send_cemi` (virtual time, tick, CEMIFrame), can delay,
raise, and feeds back the `L_Data.con` confirmation like a tunnel would. Nothing here decides
a property; it is plumbing shared by the XKNX-level checks.
"""

from __future__ import annotations

import asyncio
from typing import Any, Callable

from xknx import XKNX
from xknx.cemi import CEMIFrame, CEMILData, CEMIMessageCode
from xknx.core import XknxConnectionState, XknxConnectionType
from xknx.telegram import IndividualAddress, Telegram, TelegramDirection


class StubInterface:
    """Stands in for a Tunnel/Routing interface below KNXIPInterface."""

    def __init__(self, xknx: XKNX, loop: Any) -> None:
        self.xknx = xknx
        self.loop = loop
        self.sent: list[dict[str, Any]] = []  # {"t","tick","cemi","telegram","t_done","outcome"}
        self.inflight = 0
        self.max_inflight = 0
        # behaviour(index, cemi) -> dict(delay=0.0, exc=None, confirm=True, confirm_delay=0.0)
        self.behaviour: Callable[[int, CEMIFrame], dict[str, Any]] | None = None
        self.on_sent: Callable[[CEMIFrame], None] | None = None  # e.g. simulated bus reaction
        self.disconnected = False

    async def connect(self) -> None:
        return None

    async def disconnect(self) -> None:
        self.disconnected = True

    async def send_cemi(self, cemi: CEMIFrame) -> None:
        idx = len(self.sent)
        rec: dict[str, Any] = {"t": self.loop.time(), "tick": self.loop.tick, "cemi": cemi, "t_done": None, "outcome": None}
        try:
            rec["telegram"] = cemi.data.telegram() if isinstance(cemi.data, CEMILData) else None
        except Exception:  # noqa: BLE001
            rec["telegram"] = None
        self.sent.append(rec)
        self.inflight += 1
        self.max_inflight = max(self.max_inflight, self.inflight)
        b = {"delay": 0.0, "exc": None, "confirm": True, "confirm_delay": 0.0}
        if self.behaviour is not None:
            b.update(self.behaviour(idx, cemi) or {})
        try:
            if b["delay"]:
                await asyncio.sleep(b["delay"])
            if b["exc"] is not None:
                rec["outcome"] = "raise"
                raise b["exc"]
            rec["outcome"] = "ok"
            if b["confirm"]:
                raw = cemi.to_knx()
                con = bytes([CEMIMessageCode.L_DATA_CON.value]) + raw[1:]
                if b["confirm_delay"]:
                    self.loop.call_later(b["confirm_delay"], self.xknx.cemi_handler.handle_raw_cemi, con)
                else:
                    self.loop.call_soon(self.xknx.cemi_handler.handle_raw_cemi, con)
            if self.on_sent is not None:
                self.on_sent(cemi)
        finally:
            self.inflight -= 1
            rec["t_done"] = self.loop.time()


class XH:
    """Bundle of a real XKNX + stub interface on a VLoop."""

    def __init__(self, loop: Any, xknx: XKNX, stub: StubInterface) -> None:
        self.loop = loop
        self.xknx = xknx
        self.stub = stub
        self.states: list[tuple[float, Any]] = []

    @classmethod
    async def create(cls, loop: Any, start: bool = True, **xknx_kwargs: Any) -> "XH":
        xknx = XKNX(**xknx_kwargs)
        stub = StubInterface(xknx, loop)
        xknx.knxip_interface._interface = stub  # type: ignore[assignment]
        xknx.current_address = IndividualAddress("1.1.250")
        h = cls(loop, xknx, stub)
        xknx.connection_manager.register_connection_state_changed_cb(lambda s: h.states.append((loop.time(), s)))
        if start:
            xknx.task_registry.start()
            await xknx.telegram_queue.start()
            xknx.state_updater.start()
            xknx.devices.async_start_device_tasks()
            xknx.started.set()
        return h

    def connect(self) -> None:
        self.xknx.connection_manager.connection_state_changed(XknxConnectionState.CONNECTED, XknxConnectionType.TUNNEL_TCP)

    def disconnect(self) -> None:
        self.xknx.connection_manager.connection_state_changed(XknxConnectionState.DISCONNECTED)

    def inject(self, telegram: Telegram) -> None:
        """Incoming telegram as the CEMI handler would queue it."""
        telegram.direction = TelegramDirection.INCOMING
        self.xknx.telegrams.put_nowait(telegram)

    def inject_cemi(self, raw: bytes) -> None:
        """Raw cEMI frame as received from the interface."""
        self.xknx.knxip_interface.cemi_received(raw)

    def inject_ind(self, telegram: Telegram, src: str = "1.1.5") -> None:
        """Incoming telegram through the full cEMI receive path (L_Data.ind)."""
        data = CEMILData.init_from_telegram(telegram, src_addr=IndividualAddress(src))
        self.inject_cemi(CEMIFrame(code=CEMIMessageCode.L_DATA_IND, data=data).to_knx())

    async def settle(self, virtual_seconds: float = 0.0) -> None:
        """Let the loop run: a few iterations, or `virtual_seconds` of virtual time."""
        if virtual_seconds > 0:
            await asyncio.sleep(virtual_seconds)
        else:
            for _ in range(5):
                await asyncio.sleep(0)

    async def close(self) -> None:
        try:
            if self.xknx.started.is_set():
                await asyncio.wait_for(self.xknx.stop(), 30)
        finally:
            self.xknx.started.clear()
