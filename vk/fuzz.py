"""Coverage-guided fuzzing (atheris / libFuzzer) as part of the thorough tier.

Parent side.  `run_fuzz(ctx, prop, runs, jobs)` starts up to 8 campaigns of
`python -m vk.fuzzrun <prop> ...` in parallel (fresh processes: atheris has to
instrument xknx *before* its first import), half of them from an empty corpus and
half from the seed corpus of valid inputs the target builds with the check's own
generators, every campaign with its own `-seed` derived from VERIF_SEED and a
budget in executions (`-runs`), never wall time.  The semantic oracle runs inside
the target (fuzz/<prop>_target.py re-uses the check's per-input oracle); a property
violation is *recorded* (bucket, input, detail) to a JSON-lines file and the
campaign continues.  The records are merged into `ctx` with `ctx.fail`, so the
VIOLATION / KNOWN-FINDING / replay machinery of vk.run applies unchanged.

Accounting: every execution of the target is one evaluation; an execution is
non-trivial by the property's own rule, measured in the target; the distinct
non-trivial count is over input hashes (same hash as `ctx.case`, so inputs also
produced by the other generators are not counted twice; at most NT_HASH_CAP hashes
per campaign are kept).

Reproducibility: campaigns are started under `setarch -R` (no address-space
randomisation) because libFuzzer's value profile keys features by code addresses; the
cyclic GC of the campaign process runs by execution count (vk/fuzzrun.py).  With both,
repeated campaigns give identical corpus / cov / ft for C04, C07, C12, C20; seeded C22
(and long C07) campaigns still differ by a handful of executions between repetitions
(one input whose coverage differs; cause not found) - the inputs a campaign records are
replayable in any case, which is what the verdict rests on.

Also holds what the child side shares: `FuzzCtx` (a Ctx whose `fail` goes to the
recorder and whose `case` only measures non-triviality) and `examples()` (draw a few
deterministic examples of a Hypothesis strategy for the seed corpus).

CLI (fuzz part only, used by tools/fuzz_sensitivity.sh):
    python -m vk.fuzz C12 [--runs N] [--jobs J]
"""

from __future__ import annotations

import array
import importlib.util
import json
import os
import shutil
import subprocess
import sys
import tempfile
import time
from collections import Counter
from typing import Any

from .core import Ctx, HarnessError, _h

ROOT = os.path.dirname(os.path.dirname(os.path.abspath(__file__)))
MAX_JOBS = 8
NT_HASH_CAP = 250_000  # distinct non-trivial input hashes kept per campaign
EXIT_NO_ATHERIS = 77
CAMPAIGN_WALL_CAP_S = 1800  # harness safety net only: a hit is "explored so far", never a violation

# libFuzzer options per property (max input length; everything else is common)
MAX_LEN = {"C04": 255, "C07": 64, "C12": 300, "C20": 600, "C22": 400}


# --------------------------------------------------------------------------- child side helpers


class FuzzCtx(Ctx):
    """Ctx handed to the check's oracle functions inside a fuzz target.

    fail()  -> recorder (JSON lines), never raises;
    case()  -> only measures: was (a part of) this execution non-trivial, which class;
    nothing is accumulated per input besides the capped set of non-trivial hashes."""

    def __init__(self, prop: str, seed: int, record, excluded=()) -> None:
        super().__init__(prop, "thorough", seed)
        self.excluded = set(excluded)
        self._record = record
        self.nt = False  # a non-trivial case was seen in the current execution
        self.nt_hashes: set[int] = set()

    def case(self, key: Any = None, nontrivial: bool = True, cls=None, sample: Any = None) -> None:
        if nontrivial:
            self.nt = True
            if key is not None and len(self.nt_hashes) < NT_HASH_CAP:
                self.nt_hashes.add(_h(key))
        if cls is not None:
            if isinstance(cls, str):
                self.classes[cls] += 1
            else:
                for c in cls:
                    self.classes[c] += 1

    def bulk(self, n: int, nontrivial: int, cls: str | None = None) -> None:
        pass

    def sample(self, sample: Any) -> None:
        pass

    def fail(self, bucket: str, input: Any, detail: str = "") -> None:
        self._record(bucket, input, detail)

    def sub(self, shard: int) -> "FuzzCtx":
        return self


def ctx_of(record, prop: str) -> FuzzCtx:
    """The FuzzCtx behind a `record(bucket, input, detail)` callable: vk.fuzzrun's recorder
    carries one (`record.ctx`, it reads the non-triviality measurements from it); for a
    plain function (tests, ad-hoc use) a fresh one is made and cached on the function."""
    c = getattr(record, "ctx", None)
    if c is None:
        c = FuzzCtx(prop, 1, record)
        try:
            record.ctx = c
        except AttributeError:
            pass
    return c


def examples(strategy: Any, n: int, seed: int) -> list:
    """`n` deterministic examples of a Hypothesis strategy (for seed corpora)."""
    import hypothesis
    from hypothesis import HealthCheck, Phase, given, settings

    out: list = []

    @hypothesis.seed(seed)
    @settings(max_examples=n, phases=[Phase.generate], database=None, deadline=None, suppress_health_check=list(HealthCheck))
    @given(strategy)
    def body(x: Any) -> None:
        out.append(x)

    body()
    return out[:n]


def tail_ints(*vals: int) -> bytes:
    """Octets for the END of a fuzz input so that successive
    FuzzedDataProvider.ConsumeIntInRange(0, <=255) calls return `vals` in order
    (the provider takes integers from the back, byte strings from the front)."""
    return bytes(reversed([v & 0xFF for v in vals]))


# --------------------------------------------------------------------------- parent side


def available() -> bool:
    try:
        return importlib.util.find_spec("atheris") is not None
    except Exception:  # noqa: BLE001
        return False


_NOASLR: list | None = None


def no_aslr_prefix() -> list:
    """`setarch <arch> -R` if it works here, else [].  libFuzzer's value profile (and its
    memcmp hooks) key features by code addresses, so with address-space randomisation a
    campaign is not a function of its -seed; without ASLR it is (verified: identical
    cov/ft/corpus on repetition)."""
    global _NOASLR
    if _NOASLR is None:
        _NOASLR = []
        exe = shutil.which("setarch")
        if exe:
            cand = [exe, os.uname().machine, "-R"]
            try:
                if subprocess.run([*cand, "true"], stdout=subprocess.DEVNULL, stderr=subprocess.DEVNULL, timeout=20).returncode == 0:
                    _NOASLR = cand
            except Exception:  # noqa: BLE001
                pass
    return _NOASLR


def campaign_seed(seed: int, prop: str, j: int) -> int:
    s = (seed * 1_000_003 + (j + 1) * 7919 + int(prop[1:]) * 104_729) & 0x7FFFFFFF
    return s or 1  # libFuzzer: -seed=0 means "pick one from the clock"


def _read_out(path: str) -> tuple[list[dict], dict | None, str | None]:
    fails: list[dict] = []
    stats = None
    herr = None
    if os.path.exists(path):
        with open(path) as f:
            for line in f:
                line = line.strip()
                if not line:
                    continue
                try:
                    rec = json.loads(line)
                except ValueError:
                    continue  # torn last line of a killed campaign
                t = rec.get("t")
                if t == "fail":
                    fails.append(rec)
                elif t == "stats":
                    stats = rec
                elif t == "harness_error":
                    herr = rec.get("trace", "?")
    return fails, stats, herr


def _libfuzzer_done(log: str) -> dict:
    """cov / ft / corp of the last libFuzzer status line (DONE if present)."""
    out: dict = {}
    try:
        with open(log, errors="replace") as f:
            lines = [l for l in f if l.startswith("#")]
    except OSError:
        return out
    for l in reversed(lines):
        parts = l.split()
        if "corp:" in parts:
            try:
                out["corpus"] = int(parts[parts.index("corp:") + 1].split("/")[0])
                if "cov:" in parts:
                    out["cov"] = int(parts[parts.index("cov:") + 1])
                if "ft:" in parts:
                    out["ft"] = int(parts[parts.index("ft:") + 1])
            except (ValueError, IndexError):
                pass
            break
    return out


def run_fuzz(ctx: Ctx, prop: str, runs: int, jobs: int = MAX_JOBS, verbose: bool = False) -> dict:
    """Run the campaigns, merge failures / counts into ctx, set ctx.notes["fuzz"]."""
    prop = prop.upper()
    if not available():
        ctx.notes["fuzz"] = "unavailable (atheris not importable; tools/setup.sh installs it into /verif/.deps)"
        return {}
    jobs = max(1, min(MAX_JOBS, int(jobs)))
    if os.environ.get("VERIF_FUZZ_RUNS"):  # development aid: smaller campaigns (recorded in the note as runs_per_campaign)
        runs = max(1, int(os.environ["VERIF_FUZZ_RUNS"]))
    tmp = tempfile.mkdtemp(prefix=f"vkfuzz-{prop}-", dir="/tmp")
    campaigns: list[dict] = []
    try:
        known = os.path.join(tmp, "known.json")
        with open(known, "w") as f:
            json.dump(sorted(ctx.excluded), f)
        env = dict(os.environ, PYTHONHASHSEED="0")
        env.setdefault("XKNX_VERIF", "1")
        t0 = time.time()
        prefix = no_aslr_prefix()
        value_profile = 1 if prefix else 0  # without a way to switch ASLR off the value profile would make campaigns irreproducible
        for j in range(jobs):
            seeded = j % 2 == 1  # half from an empty corpus, half from the seed corpus
            d = os.path.join(tmp, f"c{j}")
            os.makedirs(os.path.join(d, "corpus"))
            os.makedirs(os.path.join(d, "artifacts"))
            c = {
                "j": j,
                "seed": campaign_seed(ctx.seed, prop, j),
                "seeded": seeded,
                "dir": d,
                "out": os.path.join(d, "out.jsonl"),
                "log": os.path.join(d, "stderr.log"),
            }
            cmd = [
                *prefix, sys.executable, "-m", "vk.fuzzrun", prop,
                "--out", c["out"], "--runs", str(runs), "--known", known, "--verif-seed", str(ctx.seed),
                "--corpus", os.path.join(d, "corpus"),
            ]
            if seeded:
                cmd += ["--seed-corpus", os.path.join(d, "seeds")]
            cmd += [
                "--",
                f"-seed={c['seed']}", f"-runs={runs}", f"-max_len={MAX_LEN.get(prop, 512)}",
                "-timeout=120", "-rss_limit_mb=4096", f"-use_value_profile={value_profile}", "-print_final_stats=1",
                f"-artifact_prefix={os.path.join(d, 'artifacts')}/",
            ]
            c["logf"] = open(c["log"], "w")
            c["proc"] = subprocess.Popen(cmd, cwd=ROOT, env=env, stdout=c["logf"], stderr=subprocess.STDOUT, stdin=subprocess.DEVNULL)
            campaigns.append(c)
        deadline = t0 + CAMPAIGN_WALL_CAP_S
        for c in campaigns:
            try:
                c["rc"] = c["proc"].wait(timeout=max(1.0, deadline - time.time()))
            except subprocess.TimeoutExpired:
                c["proc"].kill()
                c["proc"].wait()
                c["rc"] = "wall-cap"
            c["logf"].close()
        wall = time.time() - t0

        # ---- merge -----------------------------------------------------
        if any(c["rc"] == EXIT_NO_ATHERIS for c in campaigns):
            ctx.notes["fuzz"] = "unavailable (atheris failed to import in the campaign process)"
            return {}
        tot_exec = tot_nt = 0
        per: list[dict] = []
        first_find: dict[str, list] = {}
        classes: Counter = Counter()
        incomplete = []
        for c in campaigns:
            fails, stats, herr = _read_out(c["out"])
            if herr is not None:
                raise HarnessError(f"fuzz target {prop} campaign {c['j']} (seed {c['seed']}): exception in the target / oracle machinery:\n{herr[-3000:]}")
            if stats is None:
                tail = ""
                try:
                    with open(c["log"], errors="replace") as f:
                        tail = "".join([l for l in f if not l.startswith("INFO: Instrumenting")][-25:])
                except OSError:
                    pass
                raise HarnessError(f"fuzz campaign {prop}#{c['j']} produced no statistics (rc={c['rc']}):\n{tail[-3000:]}")
            if not stats.get("final") or c["rc"] != 0:
                incomplete.append({"campaign": c["j"], "rc": c["rc"], "executions": stats["execs"]})
            ex = int(stats["execs"])
            tot_exec += ex
            tot_nt += int(stats.get("nontrivial_execs", 0))
            classes.update(stats.get("classes", {}))
            lf = _libfuzzer_done(c["log"])
            el = float(stats.get("elapsed", 0.0)) or 1e-9
            cpu = float(stats.get("cpu_s", 0.0)) or el
            per.append({
                "campaign": c["j"], "seed": c["seed"], "corpus_start": "seeds" if c["seeded"] else "empty",
                "seed_inputs": stats.get("seed_inputs", 0), "executions": ex,
                "nontrivial_executions": stats.get("nontrivial_execs", 0),
                "corpus": lf.get("corpus", _count_files(os.path.join(c["dir"], "corpus"))),
                "cov": lf.get("cov"), "ft": lf.get("ft"),
                "exec_per_s": round(ex / el, 1), "exec_per_cpu_s": round(ex / cpu, 1), "fuzz_loop_s": round(el, 1),
                "buckets": len(stats.get("buckets", {})),
            })
            # failures: written records via ctx.fail, the rest only counted
            written: Counter = Counter()
            for r in fails:
                ctx.fail(r["bucket"], r["input"], r.get("detail", ""))
                written[r["bucket"]] += 1
            for b, info in stats.get("buckets", {}).items():
                extra = int(info["count"]) - written[b]
                if extra > 0 and b in ctx.failures:
                    ctx.fail_counts[b] += extra
                first_find.setdefault(b, []).append({"campaign": c["j"], "corpus_start": "seeds" if c["seeded"] else "empty", "exec": info["first_exec"]})
            # distinct non-trivial hashes
            hp = c["out"] + ".nth"
            if os.path.exists(hp):
                a = array.array("Q")
                with open(hp, "rb") as f:
                    a.frombytes(f.read())
                room = 3_000_000 - len(ctx.nontrivial)
                if room > 0:
                    ctx.nontrivial.update(a[:room])
        ctx.evaluations += tot_exec
        ctx.classes["fuzz-executions"] += tot_exec
        ctx.classes["fuzz-nontrivial-executions"] += tot_nt
        for k, v in classes.items():
            ctx.classes[f"fuzz:{k}"] += v
        loop_s = max((p["fuzz_loop_s"] for p in per), default=0.0) or 1e-9
        note = {
            "engine": "atheris (libFuzzer), xknx instrumented only, oracle inside the target",
            "campaigns": len(per),
            "reproducibility": "ASLR off (setarch -R), -use_value_profile=1" if prefix else "setarch -R not usable here: -use_value_profile=0",
            "runs_per_campaign": runs,
            "executions": tot_exec,
            "nontrivial_executions": tot_nt,
            "corpus": sum(p["corpus"] or 0 for p in per),
            "exec_per_s": round(tot_exec / loop_s, 1),
            "exec_per_s_per_campaign": round(sum(p["exec_per_s"] for p in per) / max(1, len(per)), 1),
            "exec_per_cpu_s_per_campaign": round(sum(p["exec_per_cpu_s"] for p in per) / max(1, len(per)), 1),  # load-independent rate
            "wall_s": round(wall, 1),
            "buckets": {b: sorted(v, key=lambda x: x["exec"]) for b, v in sorted(first_find.items())},
            "per_campaign": per,
        }
        if incomplete:
            note["incomplete_campaigns"] = incomplete
        ctx.notes["fuzz"] = note
        if verbose:
            for p in per:
                print(f"  campaign {p['campaign']} seed={p['seed']} start={p['corpus_start']}({p['seed_inputs']}) execs={p['executions']} nontrivial={p['nontrivial_executions']} "
                      f"corpus={p['corpus']} cov={p['cov']} ft={p['ft']} exec/s={p['exec_per_s']} exec/cpu-s={p['exec_per_cpu_s']} loop={p['fuzz_loop_s']}s buckets={p['buckets']}")
        return note
    finally:
        for c in campaigns:
            p = c.get("proc")
            if p is not None and p.poll() is None:
                p.kill()
                p.wait()
            lf = c.get("logf")
            if lf is not None and not lf.closed:
                lf.close()
        if os.environ.get("VERIF_FUZZ_KEEP"):
            print(f"(VERIF_FUZZ_KEEP set: campaign files kept in {tmp})")
        else:
            shutil.rmtree(tmp, ignore_errors=True)


def _count_files(d: str) -> int:
    try:
        return len(os.listdir(d))
    except OSError:
        return 0


# --------------------------------------------------------------------------- CLI: fuzz part only


def main() -> int:
    import argparse

    ap = argparse.ArgumentParser(description="run only the fuzz campaigns of one property")
    ap.add_argument("prop")
    ap.add_argument("--runs", type=int, default=20000)
    ap.add_argument("--jobs", type=int, default=MAX_JOBS)
    ap.add_argument("--dump", default=None, help="directory for one replay file per bucket (same format as evidence/replay/*.json)")
    a = ap.parse_args()
    prop = a.prop.upper()
    try:
        seed = int(os.environ.get("VERIF_SEED", "1") or 1)
    except ValueError:
        seed = 1
    from vk.run import load_findings

    known = {f["bucket"] for f in load_findings() if f.get("property") == prop and f.get("status") == "known"}
    ctx = Ctx(prop, "thorough", seed)
    ctx.excluded = set(known)
    try:
        note = run_fuzz(ctx, prop, a.runs, a.jobs, verbose=True)
    except HarnessError as e:
        print(f"HARNESS-ERROR property={prop} {e}")
        return 2
    if not note:
        print(f"FUZZ {prop}: {ctx.notes.get('fuzz')}")
        return 2
    print(f"FUZZ {prop} seed={seed} campaigns={note['campaigns']} executions={note['executions']} nontrivial_executions={note['nontrivial_executions']} "
          f"distinct_nontrivial={ctx.distinct_nontrivial} corpus={note['corpus']} exec/s={note['exec_per_s']} (per campaign {note['exec_per_s_per_campaign']}, per cpu-second {note['exec_per_cpu_s_per_campaign']}) wall={note['wall_s']}s")
    new = 0
    for b in sorted(ctx.failures):
        ff = note["buckets"].get(b, [])
        first = min((x["exec"] for x in ff), default=None)
        by = ", ".join(f"#{x['campaign']}({x['corpus_start']})@{x['exec']}" for x in ff)
        tag = "KNOWN" if b in known else "BUCKET"
        new += b not in known
        rec = ctx.failures[b][0]
        print(f"{tag} {b} cases={ctx.fail_counts[b]} campaigns_hit={len(ff)}/{note['campaigns']} first_find_exec={first} [{by}]")
        print(f"    smallest input: {json.dumps(rec['input'])[:300]}")
        print(f"    detail: {rec['detail'][:240]!r}")
        if a.dump:
            import hashlib

            os.makedirs(a.dump, exist_ok=True)
            path = os.path.join(a.dump, f"{prop}-{hashlib.sha1(b.encode()).hexdigest()[:10]}.json")
            with open(path, "w") as f:
                json.dump({"property": prop, "bucket": b, "input": rec["input"], "detail": rec["detail"], "seed": seed, "tier": "fuzz"}, f, indent=1, default=repr)
            print(f"    replay file: {path}")
    print(f"FUZZ {prop}: {new} bucket(s) outside the known findings")
    return 1 if new else 0


if __name__ == "__main__":
    repo = os.environ.get("VERIF_REPO", "/repo")
    deps = os.path.join(ROOT, ".deps")
    for p_ in (deps, ROOT, repo):
        if p_ in sys.path:
            sys.path.remove(p_)
    sys.path[:0] = [repo, ROOT]
    if os.path.isdir(deps):
        sys.path.append(deps)
    sys.exit(main())
