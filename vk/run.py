"""CLI runner: ./check <ID> [--tier quick|thorough] [--replay FILE]

Exit 0: property held on everything explored (KNOWN-FINDING lines allowed).
Exit 1: unlisted violation, with a line `VIOLATION property=<id> replay=<path>`.
Exit 2: harness error (never a VIOLATION line).
"""

from __future__ import annotations

import argparse
import hashlib
import importlib
import json
import os
import sys
import time
import traceback

ROOT = os.path.dirname(os.path.dirname(os.path.abspath(__file__)))


def _bootstrap() -> None:
    if os.environ.get("PYTHONHASHSEED") != "0":
        env = dict(os.environ, PYTHONHASHSEED="0")
        os.execve(sys.executable, [sys.executable, "-m", "vk.run", *sys.argv[1:]], env)
    repo = os.environ.get("VERIF_REPO", "/repo")
    deps = os.path.join(ROOT, ".deps")
    for p in (deps, ROOT, repo):
        if p in sys.path:
            sys.path.remove(p)
    sys.path[:0] = [repo, ROOT]
    if os.path.isdir(deps):
        sys.path.append(deps)
    os.environ.setdefault("XKNX_VERIF", "1")


def load_findings() -> list[dict]:
    out: list[dict] = []
    path = os.path.join(ROOT, "known_findings.json")
    if os.path.exists(path):
        with open(path) as f:
            out.extend(json.load(f).get("findings", []))
    ddir = os.path.join(ROOT, "findings.d")  # per-property drafts, merged into known_findings.json by tools/merge_findings.py
    if os.path.isdir(ddir):
        for name in sorted(os.listdir(ddir)):
            if name.endswith(".json"):
                with open(os.path.join(ddir, name)) as f:
                    out.extend(json.load(f).get("findings", []))
    return out


def main() -> int:
    ap = argparse.ArgumentParser()
    ap.add_argument("prop")
    ap.add_argument("--tier", default=os.environ.get("VERIF_TIER", "quick"), choices=["quick", "thorough"])
    ap.add_argument("--replay", default=None)
    ap.add_argument("--seed", type=int, default=None)
    a = ap.parse_args()
    prop = a.prop.upper()
    try:
        seed = a.seed if a.seed is not None else int(os.environ.get("VERIF_SEED", "1") or 1)
    except ValueError:
        seed = 1
    t0 = time.time()

    from vk.core import Ctx, HarnessError, unhex

    try:
        mod = importlib.import_module(f"checks.{prop.lower()}")
    except Exception:  # noqa: BLE001
        traceback.print_exc()
        print(f"HARNESS-ERROR property={prop} cannot import check module")
        return 2

    findings = [f for f in load_findings() if f.get("property") == prop]
    known = {f["bucket"]: f for f in findings if f.get("status") == "known"}
    ctx = Ctx(prop, a.tier, seed)
    ctx.excluded = set(known)
    replay_stats = {"replayed": 0}

    try:
        import logging

        logging.disable(logging.CRITICAL)  # xknx logs warnings for every bad frame
        if hasattr(mod, "selftest"):
            mod.selftest(ctx)
        # ---- replay tier ------------------------------------------------
        cases: list[dict] = []
        if a.replay:
            with open(a.replay) as f:
                doc = json.load(f)
            cases.append(doc["input"] if isinstance(doc, dict) and "input" in doc else doc)
        else:
            cdir = os.path.join(ROOT, "corpus", prop)
            if os.path.isdir(cdir):
                for name in sorted(os.listdir(cdir)):
                    if name.endswith(".json"):
                        with open(os.path.join(cdir, name)) as f:
                            doc = json.load(f)
                        cases.append(doc["input"] if isinstance(doc, dict) and "input" in doc else doc)
            for f_ in findings:
                if f_.get("input") is not None:
                    cases.append(f_["input"])
        if hasattr(mod, "replay"):
            for c in cases:
                mod.replay(ctx, unhex(c))
                replay_stats["replayed"] += 1
        elif a.replay:
            raise HarnessError(f"{prop} has no replay()")
        # ---- generated search -------------------------------------------
        if not a.replay:
            mod.run(ctx)
    except HarnessError as e:
        print(f"HARNESS-ERROR property={prop} {e}")
        return 2
    except Exception:  # noqa: BLE001
        traceback.print_exc()
        print(f"HARNESS-ERROR property={prop} unexpected exception in check machinery")
        return 2

    # ---- classify ---------------------------------------------------------
    evdir = os.environ.get("VERIF_EVIDENCE_DIR") or os.path.join(ROOT, "evidence")
    rdir = os.path.join(evdir, "replay")
    os.makedirs(rdir, exist_ok=True)
    violations = []
    known_hit = []
    for bucket in sorted(ctx.failures):
        recs = ctx.failures[bucket]
        if bucket in known:
            known_hit.append(bucket)
            print(f"KNOWN-FINDING: property={prop} {known[bucket].get('what', bucket)} [bucket {bucket}; {ctx.fail_counts[bucket]} cases]")
            continue
        hid = hashlib.sha1(bucket.encode()).hexdigest()[:10]
        path = os.path.join(rdir, f"{prop}-{hid}.json")
        with open(path, "w") as f:
            json.dump({"property": prop, "bucket": bucket, "input": recs[0]["input"], "detail": recs[0]["detail"], "others": recs[1:], "count": ctx.fail_counts[bucket], "seed": seed, "tier": a.tier}, f, indent=1, default=repr)
        violations.append((bucket, path))
        print(f"VIOLATION property={prop} replay={os.path.relpath(path, ROOT)} bucket={bucket} cases={ctx.fail_counts[bucket]} detail={recs[0]['detail'][:300]!r}")

    # ---- evidence ---------------------------------------------------------
    if not a.replay:
        cov = {
            "evaluations": ctx.evaluations,
            "distinct_nontrivial": ctx.distinct_nontrivial,
            "rule": getattr(mod, "RULE", ""),
            "samples": ctx.samples[:12] or ["(no samples recorded)"],
            "classes": dict(sorted(ctx.classes.items())),
            "buckets": {b: ctx.fail_counts[b] for b in sorted(ctx.failures)},
            "excluded_known": {b: ctx.fail_counts[b] for b in known_hit},
            "replayed_saved_inputs": replay_stats["replayed"],
        }
        if ctx.exhaustive is not None:
            cov["exhaustive"] = bool(ctx.exhaustive)
        cov.update(ctx.notes)
        ev = {
            "property_id": prop,
            "tier": a.tier,
            "seed": seed,
            "level": getattr(mod, "LEVEL", "exploration"),
            "coverage": cov,
            "assumptions": list(getattr(mod, "ASSUMPTIONS", [])),
            "wall_s": round(time.time() - t0, 2),
            "violations": len(violations),
        }
        os.makedirs(evdir, exist_ok=True)
        with open(os.path.join(evdir, f"{prop}.json"), "w") as f:
            json.dump(ev, f, indent=1, default=repr)
            f.write("\n")
        if ctx.evaluations < 1 or ctx.distinct_nontrivial < 2:
            print(f"HARNESS-ERROR property={prop} generator health: evaluations={ctx.evaluations} distinct_nontrivial={ctx.distinct_nontrivial}")
            return 2
    print(f"{prop} tier={a.tier} seed={seed} evaluations={ctx.evaluations} distinct_nontrivial={ctx.distinct_nontrivial} violations={len(violations)} known={len(known_hit)} wall={time.time() - t0:.1f}s")
    return 1 if violations else 0


if __name__ == "__main__":
    _bootstrap()
    sys.exit(main())
