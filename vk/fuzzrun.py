"""Subprocess entry of one fuzz campaign:

    python -m vk.fuzzrun <PROP> --out F --runs N [--corpus DIR] [--seed-corpus DIR]
                         [--known known.json] [--verif-seed S] -- <libFuzzer args>

* sys.path as in vk/run.py (VERIF_REPO first, /verif, then /verif/.deps);
* xknx is imported for the first time inside atheris.instrument_imports(include=["xknx"]),
  together with fuzz/<prop>_target.py (which imports the check module and, through it,
  the xknx modules the oracle needs) - only xknx code is instrumented;
* the target's `one_input(data, record)` holds the semantic oracle and never raises for
  a property violation; `record(bucket, input, detail)` appends a JSON line to --out;
* statistics (`{"t":"stats", execs, nontrivial_execs, buckets{count,first_exec}, ...}`)
  are appended every FLUSH_EVERY executions and when the execution count reaches --runs
  (atexit handlers do not run when libFuzzer ends the process), the last line wins;
  the hashes of the distinct non-trivial inputs go to <out>.nth (array of u64);
* a target may offer `dictionary() -> list[bytes]` (libFuzzer -dict tokens) besides
  `seeds() -> list[bytes]` and `one_input(data, record)`;
* an exception out of the target is a harness error: it is written as
  `{"t":"harness_error"}` and re-raised (libFuzzer then stops; the parent reports exit 2).
"""

from __future__ import annotations

import argparse
import array
import gc
import importlib
import json
import os
import sys
import time
import traceback

ROOT = os.path.dirname(os.path.dirname(os.path.abspath(__file__)))
FLUSH_EVERY = 2000
HASH_FLUSH_EVERY = 100_000
WRITE_PER_BUCKET = 12  # failure records written per bucket (+ later strictly smaller ones, up to 3x)
EXIT_NO_ATHERIS = 77


def _bootstrap() -> None:
    repo = os.environ.get("VERIF_REPO", "/repo")
    deps = os.path.join(ROOT, ".deps")
    for p in (deps, ROOT, repo):
        if p in sys.path:
            sys.path.remove(p)
    sys.path[:0] = [repo, ROOT]
    if os.path.isdir(deps):
        sys.path.append(deps)
    os.environ.setdefault("XKNX_VERIF", "1")


class Recorder:
    def __init__(self, out: str, known: set, runs: int) -> None:
        from vk.core import jsonable

        self.jsonable = jsonable
        self.out = out
        self.f = open(out, "a")
        self.known = known
        self.runs = runs
        self.execs = 0
        self.nt_execs = 0
        self.seed_inputs = 0
        self.buckets: dict[str, dict] = {}
        self.t_first = None
        self.cpu_first = 0.0
        self.fctx = None  # set by main
        self.ctx = None  # the same FuzzCtx, under the name the targets look for (vk.fuzz.ctx_of)

    def __call__(self, bucket: str, input, detail: str = "") -> None:
        """record(bucket, input, detail): the callable handed to the target's one_input."""
        b = self.buckets.get(bucket)
        if b is None:
            b = self.buckets[bucket] = {"count": 0, "first_exec": self.execs, "written": 0, "min_size": 1 << 62}
        b["count"] += 1
        cap = 1 if bucket in self.known else WRITE_PER_BUCKET
        if b["written"] >= 3 * cap:
            return
        inp = self.jsonable(input)
        size = len(json.dumps(inp, sort_keys=True, default=repr))
        if b["written"] >= cap and size >= b["min_size"]:
            return
        b["written"] += 1
        b["min_size"] = min(b["min_size"], size)
        self.f.write(json.dumps({"t": "fail", "bucket": bucket, "input": inp, "detail": str(detail)[:2000], "exec": self.execs}, default=repr) + "\n")
        self.f.flush()

    def stats(self, final: bool = False, hashes: bool = False) -> None:
        now = time.time()
        rec = {
            "t": "stats", "final": final, "execs": self.execs, "nontrivial_execs": self.nt_execs,
            "seed_inputs": self.seed_inputs,
            "elapsed": round(now - (self.t_first or now), 3),
            "cpu_s": round(time.process_time() - self.cpu_first, 3) if self.t_first else 0.0,
            "buckets": {k: {"count": v["count"], "first_exec": v["first_exec"]} for k, v in self.buckets.items()},
            "distinct_nontrivial": len(self.fctx.nt_hashes) if self.fctx is not None else 0,
            "classes": dict(self.fctx.classes) if self.fctx is not None else {},
        }
        self.f.write(json.dumps(rec) + "\n")
        self.f.flush()
        if (final or hashes) and self.fctx is not None:
            tmp = self.out + ".nth.tmp"
            with open(tmp, "wb") as f:
                f.write(array.array("Q", self.fctx.nt_hashes).tobytes())
            os.replace(tmp, self.out + ".nth")

    def harness_error(self, data: bytes) -> None:
        self.f.write(json.dumps({"t": "harness_error", "exec": self.execs, "input": bytes(data).hex(), "trace": traceback.format_exc()[-6000:]}) + "\n")
        self.f.flush()


def main() -> int:
    ap = argparse.ArgumentParser()
    ap.add_argument("prop")
    ap.add_argument("--out", required=True)
    ap.add_argument("--runs", type=int, required=True)
    ap.add_argument("--corpus", default=None, help="(empty) directory libFuzzer writes new units to")
    ap.add_argument("--seed-corpus", default=None, help="directory to be filled with the target's seeds() and given to libFuzzer as second corpus")
    ap.add_argument("--known", default=None, help="JSON list of known-finding buckets")
    ap.add_argument("--verif-seed", type=int, default=1)
    argv = sys.argv[1:]
    lf_args: list[str] = []  # libFuzzer arguments: everything after "--"
    if "--" in argv:
        k = argv.index("--")
        argv, lf_args = argv[:k], argv[k + 1 :]
    a = ap.parse_args(argv)
    prop = a.prop.upper()

    try:
        import atheris
    except Exception:  # noqa: BLE001
        traceback.print_exc()
        return EXIT_NO_ATHERIS

    import logging

    logging.disable(logging.CRITICAL)  # xknx logs a warning for every bad frame
    with atheris.instrument_imports(include=["xknx"]):
        import xknx  # noqa: F401 - first import of the package: instrumented

        target = importlib.import_module(f"fuzz.{prop.lower()}_target")

    from vk.fuzz import FuzzCtx

    known: set = set()
    if a.known and os.path.exists(a.known):
        with open(a.known) as f:
            known = set(json.load(f))
    rec = Recorder(a.out, known, a.runs)
    fctx = FuzzCtx(prop, a.verif_seed, rec, known)
    rec.fctx = rec.ctx = fctx

    corpora = []
    if a.corpus:
        os.makedirs(a.corpus, exist_ok=True)
        corpora.append(a.corpus)
    if a.seed_corpus:
        os.makedirs(a.seed_corpus, exist_ok=True)
        seeds = target.seeds()
        for i, s in enumerate(seeds):
            with open(os.path.join(a.seed_corpus, f"seed-{i:04d}"), "wb") as f:
                f.write(bytes(s))
        rec.seed_inputs = len(seeds)
        corpora.append(a.seed_corpus)

    extra: list[str] = []
    if hasattr(target, "dictionary"):  # libFuzzer dictionary (tokens from the check's own tables)
        dpath = os.path.join(os.path.dirname(os.path.abspath(a.out)), "dict.txt")
        with open(dpath, "w") as f:
            for i, tok in enumerate(target.dictionary()):
                f.write(f'kw{i}="' + "".join(f"\\x{b:02x}" for b in bytes(tok)) + '"\n')
        extra.append(f"-dict={dpath}")

    one_input = target.one_input
    runs = a.runs

    def test_one_input(data: bytes) -> None:
        if rec.t_first is None:
            rec.t_first = time.time()
            rec.cpu_first = time.process_time()
        rec.execs += 1
        if rec.execs & 0xFF == 0:
            gc.collect()  # cyclic GC only here (see gc.disable() below): by execution count, not by allocation count
        fctx.nt = False
        try:
            one_input(data, rec)
        except BaseException:
            rec.harness_error(data)
            rec.stats()
            raise
        if fctx.nt:
            rec.nt_execs += 1
        n = rec.execs
        if n == runs:
            rec.stats(final=True)
        elif n % FLUSH_EVERY == 0 or n > runs:
            rec.stats(final=n > runs, hashes=n % HASH_FLUSH_EVERY == 0 or n > runs)

    rec.stats()  # a campaign that dies before its first execution still leaves a line
    # Finalisers of the code under test (XKNX.__del__ ...) run when the cyclic collector does; with the
    # automatic collector their coverage would be attributed to whatever input happens to be executing.
    # gc.freeze(): everything loaded so far (xknx, the check, Hypothesis) leaves the collector's
    # view, so the periodic collections only look at what the executions allocated.
    gc.collect()
    gc.freeze()
    gc.disable()
    argv = [sys.argv[0], *lf_args, *extra, *corpora]
    atheris.Setup(argv, test_one_input)
    atheris.Fuzz()
    # not normally reached (libFuzzer exits the process when -runs is used up)
    rec.stats(final=True)
    return 0


if __name__ == "__main__":
    _bootstrap()
    sys.exit(main())
