#!/bin/sh
# usage: tools/regress_all.sh [jobs]  -- re-run every seeded change and every hand-written mutant against the
# check recorded as catching it, <jobs> at a time (default 4); prints one line per patch and a summary.
cd "$(dirname "$0")/.."
jobs=${1:-4}
list=$(mktemp /tmp/regress.XXXXXX); res=$(mktemp /tmp/regress.XXXXXX); trap 'rm -f "$list" "$res"' EXIT
for d in seeded/*/; do
  d=${d%/}
  /venv/bin/python - "$d" >> "$list" <<'PY'
import json, sys
d = sys.argv[1]; m = json.load(open(d + "/meta.json")); oc = m["our_check"]
if oc.get("disputed"):
    print("disputed", d, "-")
else:
    print("run", d + "/patch.diff", oc.get("caught_by") or m["property"])
PY
done
for p in mutants/*.patch; do echo "run $p $(basename "$p" | cut -d_ -f1)" >> "$list"; done
grep '^disputed' "$list" | sed 's/^/  /'
grep '^run' "$list" | cut -d' ' -f2,3 | xargs -P "$jobs" -L 1 sh -c '
  out=$(tools/mutcheck.sh "$0" "$1" quick 2>&1 | tail -1)
  case "$out" in
    *"MUTCHECK caught"*) echo "caught $0 by $1";;
    *"patch failed"*) echo "STALE $0 ($1)";;
    *) echo "NOT-CAUGHT $0 by $1 :: $out";;
  esac' | tee "$res"
echo "SUMMARY caught=$(grep -c '^caught' "$res") not_caught=$(grep -c '^NOT-CAUGHT' "$res") stale=$(grep -c '^STALE' "$res") disputed=$(grep -c '^disputed' "$list")"
