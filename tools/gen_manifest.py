#!/venv/bin/python
"""Regenerate MANIFEST.json from the check modules present in checks/."""
import importlib, json, os, sys
ROOT = os.path.dirname(os.path.dirname(os.path.abspath(__file__)))
sys.path[:0] = ["/repo", ROOT]
os.chdir(ROOT)
props = [json.loads(l) for l in open("properties.jsonl")]
checks, na = [], []
NA_REASONS = {}
if os.path.exists("tools/not_applicable.json"):
    NA_REASONS = json.load(open("tools/not_applicable.json"))
engines = {}
CLAIMED = set(open("tools/claimed.txt").read().split()) if os.path.exists("tools/claimed.txt") else None
for p in props:
    pid = p["id"]
    path = f"checks/{pid.lower()}.py"
    if not os.path.exists(path) or (CLAIMED is not None and pid not in CLAIMED):
        na.append({"property_id": pid, "reason": NA_REASONS.get(pid, "check not built yet in this session (planned in DESIGN.md §3); not claimed")})
        continue
    m = importlib.import_module(f"checks.{pid.lower()}")
    entry = {
        "property_id": pid,
        "quick_cmd": f"./check {pid} --tier quick",
        "thorough_cmd": f"./check {pid} --tier thorough",
        "evidence_file": f"evidence/{pid}.json",
        "replay_cmd_template": f"./check {pid} --replay {{path}}",
        "engine": getattr(m, "ENGINE", "vk"),
        "level_claimed": {
            "category": m.LEVEL,
            "text": getattr(m, "LEVEL_TEXT", m.RULE),
            "design_ref": f"DESIGN.md §3 {pid}",
        },
        "level_note": getattr(m, "LEVEL_NOTE", "; ".join(getattr(m, "ASSUMPTIONS", [])) or "trusted base: CPython, hypothesis, the check's reference model"),
        "technique": getattr(m, "TECHNIQUE", "property-based testing: generated inputs vs independent reference oracle"),
    }
    checks.append(entry)
man = {
    "version": 1,
    "setup_cmd": "sh tools/setup.sh",
    "hooks": {
        "guard": "XKNX_VERIF",
        "enable": "no source hooks: checks import /repo's working tree directly (editable install) and substitute clocks/RNGs/transports by patching module attributes; XKNX_VERIF=1 is exported by the runner for completeness",
        "baseline_off_cmd": "cd /repo && /venv/bin/python -m pytest -ra -q -p no:cacheprovider --timeout=900 --continue-on-collection-errors",
        "source_commits": [],
        "add_only": True,
    },
    "engines": [
        {"name": "vk", "path": "vk/", "serves_properties": [c["property_id"] for c in checks], "kind_free_text": "Python property-based testing kit: Hypothesis strategies / exhaustive enumerations with collect-then-shrink root-cause bucketing, virtual-time asyncio loop and simulated gateway for schedules"},
    ],
    "checks": checks,
    "not_applicable": na,
    "notes": "All checks: ./check <ID> --tier quick|thorough; VERIF_SEED selects the Hypothesis seed. Exit 2 = harness error (never a VIOLATION). known_findings.json lists recorded/fixed genuine defects.",
}
json.dump(man, open("MANIFEST.json", "w"), indent=1)
print(f"{len(checks)} checks, {len(na)} not claimed")
