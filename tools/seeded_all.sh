#!/bin/sh
# usage: tools/seeded_all.sh -- re-run every seeded change against the check recorded as catching it (regression of the whole seeded corpus)
cd "$(dirname "$0")/.."
ok=0; bad=0
for d in seeded/*/; do
  d=${d%/}; name=$(basename "$d")
  id=$(/venv/bin/python -c "import json,sys; m=json.load(open('$d/meta.json')); oc=m['our_check']; print(oc.get('caught_by') or m['property'], int(bool(oc.get('disputed'))))")
  set -- $id
  [ "$2" = "1" ] && { echo "disputed $name"; continue; }
  out=$(tools/mutcheck.sh "$d/patch.diff" "$1" quick 2>&1 | tail -1)
  case "$out" in *"MUTCHECK caught"*) ok=$((ok+1)); echo "caught $name by $1";; *) bad=$((bad+1)); echo "NOT-CAUGHT $name by $1 :: $out";; esac
done
echo "SUMMARY caught=$ok not_caught=$bad"
