#!/bin/sh
# usage: tools/mutcheck.sh <patch-file> <ID> [tier]
# Applies a property-breaking patch to a scratch copy of /repo (outside /repo and /verif),
# runs the check against it and expects exit 1. Removes the copy afterwards.
patch=$(realpath "$1"); id=$2; tier=${3:-quick}
d=$(mktemp -d /tmp/mut.XXXXXX)
trap 'rm -rf "$d"' EXIT
rsync -a --exclude .git --exclude '__pycache__' /repo/ "$d/repo/"
( cd "$d/repo" && patch -p1 -s < "$patch" ) || { echo "MUTCHECK patch failed: $patch"; exit 3; }
cd "$(dirname "$0")/.."
VERIF_REPO="$d/repo" VERIF_EVIDENCE_DIR="$d/ev" ./check "$id" --tier "$tier" > "$d/out" 2>&1
rc=$?
grep -E "^(VIOLATION|HARNESS)" "$d/out" | head -5
tail -1 "$d/out"
if [ $rc -eq 1 ]; then echo "MUTCHECK caught: $1 by $id"; exit 0; else echo "MUTCHECK MISSED (rc=$rc): $1 by $id"; exit 1; fi
