#!/bin/sh
# usage: tools/seed_verify.sh <ID> [worktree]  -- verify a seeded change independently, store it under seeded/<ID>/, run our check against it
id=$1; wt=${2:-/tmp/seed/$id}
cd "$(dirname "$0")/.." || exit 2
[ -f "$wt/SEED/patch.diff" ] || { echo "no patch in $wt/SEED"; exit 2; }
dest=seeded/$id; n=1
while [ -d "$dest" ]; do n=$((n+1)); dest=seeded/$id-$n; done
mkdir -p "$dest"; cp "$wt/SEED/patch.diff" "$wt/SEED/demo.py" "$dest/"; [ -f "$wt/SEED/notes.md" ] && cp "$wt/SEED/notes.md" "$dest/"
cd "$wt" && git checkout -q -- . && git clean -fdq -e SEED >/dev/null 2>&1
demo_clean=$(PYTHONPATH=$wt timeout 120 /venv/bin/python SEED/demo.py >/dev/null 2>&1; echo $?)
git apply SEED/patch.diff || { echo "patch does not apply"; exit 2; }
touched=$(git diff --name-only | tr '\n' ' ')
tests=$(PYTHONPATH=$wt /venv/bin/python -m pytest -q -p no:cacheprovider --timeout=900 --deselect test/io_tests/knxip_interface_test.py::TestKNXIPInterface::test_start_automatic_connection --deselect test/io_tests/secure_session_test.py::TestSecureSession::test_lifecycle 2>&1 | tail -1)
demo_seeded=$(PYTHONPATH=$wt timeout 120 /venv/bin/python SEED/demo.py >/dev/null 2>&1; echo $?)
git checkout -q -- .
cd - >/dev/null
out=$(tools/mutcheck.sh "$dest/patch.diff" "$id" quick 2>&1)
caught=$(echo "$out" | grep -c "MUTCHECK caught")
buckets=$(echo "$out" | grep '^VIOLATION' | sed 's/.*bucket=\([^ ]*\).*/\1/' | tr '\n' ' ')
echo "$id: demo_clean_exit=$demo_clean demo_seeded_exit=$demo_seeded tests='$tests' touched='$touched' caught_by_quick=$caught buckets='$buckets'"
/venv/bin/python - "$dest" "$id" "$demo_clean" "$demo_seeded" "$tests" "$touched" "$caught" "$buckets" <<'PY'
import json, sys
dest, pid, dc, ds, tests, touched, caught, buckets = sys.argv[1:9]
meta = {"property": pid, "files_changed": touched.split(), "needs_to_manifest": "see notes.md",
        "verified": {"demo_exit_unchanged_tree": int(dc), "demo_exit_with_change": int(ds), "existing_tests_with_change": tests,
                     "how": "tools/seed_verify.sh: git apply in a scratch worktree, pinned suite (2 always-failing tests deselected), SEED/demo.py with and without the change"},
        "our_check": {"cmd": f"tools/mutcheck.sh {dest}/patch.diff {pid} quick", "caught_by_quick": bool(int(caught)), "buckets": buckets.split()}}
json.dump(meta, open(f"{dest}/meta.json", "w"), indent=1)
PY
