#!/bin/sh
# usage: tools/repo_commit.sh "fix: message"  -- runs the pinned suite, commits /repo only if the baseline result is unchanged
set -e
cd /repo
out=$(/venv/bin/python -m pytest -q -p no:cacheprovider --timeout=900 --continue-on-collection-errors -x --deselect test/io_tests/knxip_interface_test.py::TestKNXIPInterface::test_start_automatic_connection --deselect test/io_tests/secure_session_test.py::TestSecureSession::test_lifecycle 2>&1 | tail -1)
echo "$out"
case "$out" in
  *"3893 passed"*) ;;
  *) echo "baseline changed - not committing"; exit 1;;
esac
case "$out" in *failed*) echo "failures - not committing"; exit 1;; esac
git add -A
git commit -q -m "$1"
git log --oneline | head -1
