#!/bin/sh
# usage: tools/fuzz_sensitivity.sh <patch-file> <ID> [runs-per-campaign] [jobs]
# Sensitivity of the FUZZ part alone: applies a property-breaking patch to a scratch copy of
# /repo under /tmp (never /repo itself), runs only the atheris campaigns of <ID>
# (python -m vk.fuzz, VERIF_REPO pointing at the copy; no Hypothesis / enumeration part),
# prints the buckets found with the executions-to-first-find per campaign, removes the copy.
# Exit 0 = the campaigns recorded a bucket outside the known findings ("FUZZ-SENS caught").
patch=$(realpath "$1"); id=$2; runs=${3:-20000}; jobs=${4:-8}
PY=/venv/bin/python; [ -x "$PY" ] || PY=python3
d=$(mktemp -d /tmp/fuzzsens.XXXXXX)
trap 'rm -rf "$d"' EXIT
rsync -a --exclude .git --exclude '__pycache__' /repo/ "$d/repo/"
( cd "$d/repo" && patch -p1 -s < "$patch" ) || { echo "FUZZ-SENS patch failed: $patch"; exit 3; }
cd "$(dirname "$0")/.." || exit 2
VERIF_REPO="$d/repo" "$PY" -m vk.fuzz "$id" --runs "$runs" --jobs "$jobs" > "$d/out" 2>&1
rc=$?
cat "$d/out"
if [ $rc -eq 1 ]; then echo "FUZZ-SENS caught: $1 by the fuzz part of $id"; exit 0
elif [ $rc -eq 0 ]; then echo "FUZZ-SENS MISSED: $1 by the fuzz part of $id ($runs runs x $jobs campaigns)"; exit 1
else echo "FUZZ-SENS harness problem (rc=$rc): $1 $id"; exit 2; fi
