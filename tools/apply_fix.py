#!/venv/bin/python
"""usage: tools/apply_fix.py <findings.d file> "<fix: commit message>" <bucket> [<bucket>...]
Apply the proposed_fix diff(s) of the named buckets to /repo (deduplicated), run the pinned suite,
commit as ONE fix: commit, and flip those findings to status=fixed with the commit id."""
import json, os, subprocess, sys, tempfile
ROOT = os.path.dirname(os.path.dirname(os.path.abspath(__file__)))
path, msg, buckets = sys.argv[1], sys.argv[2], sys.argv[3:]
doc = json.load(open(path))
sel = [f for f in doc["findings"] if f["bucket"] in buckets]
assert len(sel) == len(buckets), "bucket not found: %s" % (set(buckets) - {f["bucket"] for f in sel})
diffs = []
for f in sel:
    d = f.get("proposed_fix", "")
    d = d[d.index("--- a/"):] if "--- a/" in d else d  # drop prose before the diff
    if d not in diffs:
        diffs.append(d)
if subprocess.run(["git", "-C", "/repo", "status", "--porcelain"], capture_output=True, text=True).stdout.strip():
    sys.exit("/repo not clean")
for d in diffs:
    with tempfile.NamedTemporaryFile("w", suffix=".diff", delete=False) as t:
        t.write(d if d.endswith("\n") else d + "\n")
    r = subprocess.run(["patch", "-p1", "--fuzz=3", "--no-backup-if-mismatch", "-d", "/repo", "-i", t.name], capture_output=True, text=True)
    print(r.stdout.strip()); 
    if r.returncode:
        print(r.stderr); subprocess.run(["git", "-C", "/repo", "checkout", "--", "."]); subprocess.run(["git", "-C", "/repo", "clean", "-fdq"]); sys.exit("patch failed")
subprocess.run(["git", "-C", "/repo", "clean", "-fdq", "-e", "*.py"])  # drop .orig/.rej leftovers
subprocess.run("find /repo -name '*.orig' -o -name '*.rej' | xargs -r rm -f", shell=True)
r = subprocess.run([os.path.join(ROOT, "tools/repo_commit.sh"), msg], capture_output=True, text=True)
print(r.stdout.strip(), r.stderr.strip())
if r.returncode:
    subprocess.run(["git", "-C", "/repo", "checkout", "--", "."]); sys.exit("suite failed or commit refused - reverted")
commit = subprocess.run(["git", "-C", "/repo", "rev-parse", "--short", "HEAD"], capture_output=True, text=True).stdout.strip()
for f in sel:
    f["status"] = "fixed"; f["commit"] = commit
    f["what"] = f"fixed: property={f['property']} {commit} " + f["what"]
json.dump(doc, open(path, "w"), indent=1)
print("fixed", len(sel), "finding(s) in", commit)
