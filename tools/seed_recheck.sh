#!/bin/sh
# usage: tools/seed_recheck.sh <seeded-dir-name> <PROP> "<note>"  -- re-run the check against a seeded change that was missed before and update its meta.json
d=$1; id=$2; note=$3
cd "$(dirname "$0")/.."
out=$(tools/mutcheck.sh seeded/$d/patch.diff $id 2>&1); echo "$out" | tail -1
b=$(echo "$out" | grep '^VIOLATION' | sed 's/.*bucket=\([^ ]*\).*/\1/' | tr '\n' ' ')
/venv/bin/python - "$d" "$b" "$note" <<'PY'
import json, sys
d, b, note = sys.argv[1], sys.argv[2].split(), sys.argv[3]
p = f"seeded/{d}/meta.json"; m = json.load(open(p))
m["our_check"].update({"caught_by_quick_initially": False, "caught_by_quick": bool(b), "buckets": b, "note": note})
json.dump(m, open(p, "w"), indent=1)
PY
