#!/bin/sh
# usage: tools/run_all.sh [tier] [ids...]  -- runs checks one after another, prints one summary line each
cd "$(dirname "$0")/.."
tier=${1:-quick}; shift 2>/dev/null
ids="$*"
[ -n "$ids" ] || ids=$(ls checks/c*.py | sed 's/.*\/c\([0-9]*\)\.py/C\1/')
L=${RUNALL_LOG:-/tmp/verif-runall}; mkdir -p "$L"
for id in $ids; do
  start=$(date +%s)
  ./check "$id" --tier "$tier" > "$L/$id.log" 2>&1
  rc=$?
  end=$(date +%s)
  echo "$id rc=$rc $((end-start))s $(grep -c '^KNOWN-FINDING' $L/$id.log) known; $(grep -c '^VIOLATION' $L/$id.log) viol; $(tail -1 $L/$id.log | cut -c1-160)"
done
