#!/bin/sh
# usage: tools/run_all.sh [tier] [ids...]  -- runs checks one after another, prints one summary line each
cd "$(dirname "$0")/.."
tier=${1:-quick}; shift 2>/dev/null
ids="$*"
[ -n "$ids" ] || ids=$(ls checks/c*.py | sed 's/.*\/c\([0-9]*\)\.py/C\1/')
mkdir -p /tmp/verif-runall
for id in $ids; do
  start=$(date +%s)
  ./check "$id" --tier "$tier" > "/tmp/verif-runall/$id.log" 2>&1
  rc=$?
  end=$(date +%s)
  echo "$id rc=$rc $((end-start))s $(grep -c '^KNOWN-FINDING' /tmp/verif-runall/$id.log) known; $(grep -c '^VIOLATION' /tmp/verif-runall/$id.log) viol; $(tail -1 /tmp/verif-runall/$id.log | cut -c1-160)"
done
