#!/opt/veriftools/pyvenv/bin/python
"""Validate MANIFEST.json and every evidence file against the schemas (uses the tooling venv's jsonschema)."""
import glob, json, sys, os
import jsonschema
os.chdir(os.path.dirname(os.path.dirname(os.path.abspath(__file__))))
ok = True
def v(path, schema):
    global ok
    try:
        jsonschema.validate(json.load(open(path)), json.load(open(schema)))
    except Exception as e:
        ok = False
        print("INVALID", path, str(e)[:300])
v("MANIFEST.json", "/root/.vp/MANIFEST.schema.json")
man = json.load(open("MANIFEST.json"))
for c in man["checks"]:
    if os.path.exists(c["evidence_file"]):
        v(c["evidence_file"], "/root/.vp/EVIDENCE.schema.json")
    else:
        print("MISSING", c["evidence_file"]); ok = False
ids = {json.loads(l)["id"] for l in open("properties.jsonl")}
claimed = {c["property_id"] for c in man["checks"]}; na = {n["property_id"] for n in man.get("not_applicable", [])}
if claimed | na != ids or claimed & na:
    print("coverage mismatch", ids - claimed - na, claimed & na); ok = False
print("valid" if ok else "PROBLEMS")
sys.exit(0 if ok else 1)
