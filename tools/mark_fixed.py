#!/venv/bin/python
"""usage: tools/mark_fixed.py <findings file> <commit> <bucket>..."""
import json, sys
path, commit, buckets = sys.argv[1], sys.argv[2], sys.argv[3:]
doc = json.load(open(path)); n = 0
for f in doc["findings"]:
    if f["bucket"] in buckets and f["status"] != "fixed":
        f["status"] = "fixed"; f["commit"] = commit; f["what"] = f"fixed: property={f['property']} {commit} " + f["what"]; n += 1
json.dump(doc, open(path, "w"), indent=1); print("marked", n)
