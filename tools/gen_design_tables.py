#!/venv/bin/python
"""Regenerate the generated tables of DESIGN.md (findings, seeded changes, check sizes) between their markers."""
import glob, json, os, re, subprocess
os.chdir(os.path.dirname(os.path.dirname(os.path.abspath(__file__))))
design = open("DESIGN.md").read()

def put(marker, text):
    global design
    b, e = f"<!-- {marker}-BEGIN -->", f"<!-- {marker}-END -->"
    assert b in design and e in design, marker
    design = design[: design.index(b) + len(b)] + "\n" + text.rstrip() + "\n" + design[design.index(e):]

def short(s, n=230):
    s = re.sub(r"^fixed: property=\S+ \S+ ", "", s).replace("|", "\\|").replace("\n", " ")
    return s if len(s) <= n else s[: n - 1] + "…"

# ---- findings -------------------------------------------------------------
fs = json.load(open("known_findings.json"))["findings"]
groups = {}
for f in fs:
    key = (f["property"], f["status"], f.get("commit", ""))
    groups.setdefault(key, []).append(f)
rows = ["| Prop | Status | /repo commit | Buckets | What failed (first bucket of the group) | Minimal failing input |", "|---|---|---|---|---|---|"]
for (prop, status, commit), lst in sorted(groups.items()):
    inp = json.dumps(lst[0].get("input"), default=str)
    rows.append(f"| {prop} | {status} | {commit or '—'} | {len(lst)} | {short(lst[0]['what'])} | `{short(inp, 140)}` |")
n_fixed = sum(1 for f in fs if f["status"] == "fixed"); n_known = sum(1 for f in fs if f["status"] == "known")
commits = sorted({f.get("commit") for f in fs if f.get("commit")})
head = f"{len(fs)} root-cause buckets were found on the pinned tree by the checks: {n_fixed} repaired by {len(commits)} `fix:` commits in /repo, {n_known} recorded as known findings (the repair would break an existing unit test or is not small).\n\n"
put("FINDINGS", head + "\n".join(rows))

# ---- seeded changes -------------------------------------------------------
rows = ["| Seeded change | Property | Files changed | Existing suite with the change | Demo exit (unchanged / changed) | Caught by quick check | Buckets that caught it |", "|---|---|---|---|---|---|---|"]
caught = total = 0
for path in sorted(glob.glob("seeded/*/meta.json")):
    m = json.load(open(path)); d = os.path.dirname(path)
    oc = m["our_check"]; total += 1; caught += bool(oc["caught_by_quick"]); disputed = locals().get("disputed", 0) + bool(oc.get("disputed"))
    note = " (missed by the first version, caught after strengthening)" if oc.get("caught_by_quick_initially") is False and oc["caught_by_quick"] else ""
    rows.append(f"| `{d}/` | {m['property']} | {', '.join(m['files_changed'])} | {m['verified']['existing_tests_with_change'].split(',')[0]} | {m['verified']['demo_exit_unchanged_tree']} / {m['verified']['demo_exit_with_change']} | {('yes' + (' (by ' + oc['caught_by'] + ')' if oc.get('caught_by') else '')) if oc['caught_by_quick'] else ('disputed (see note)' if oc.get('disputed') else 'NO')}{note} | {', '.join('`'+b+'`' for b in oc['buckets'][:3])}{' …' if len(oc['buckets'])>3 else ''} |")
put("SEEDED", f"{total} independently seeded changes (one sub-agent per pair of properties, given only the property text and a scratch worktree); {caught} are caught by the quick tier of the property's check (or, where marked, of the sibling check whose property the change really breaks); {sum(1 for p_ in glob.glob("seeded/*/meta.json") if json.load(open(p_))["our_check"].get("disputed"))} disputed (not a violation of the property as stated - see its note).\n\n" + "\n".join(rows))

miss = []
for path in sorted(glob.glob("seeded/*/meta.json")):
    m = json.load(open(path)); oc = m["our_check"]
    if oc.get("caught_by_quick_initially") is False:
        miss.append(f"* **{os.path.basename(os.path.dirname(path))}** ({'caught now' if oc['caught_by_quick'] else 'STILL MISSED'}): {oc.get('note', '')}")
    elif oc.get("disputed"):
        miss.append(f"* **{os.path.basename(os.path.dirname(path))}** (disputed): {oc.get('note', '')}")
put("MISSES", "\n".join(miss) if miss else "(none)")

# ---- check sizes ----------------------------------------------------------
rows = ["| Check | Level | Evaluations (quick) | Distinct non-trivial | Wall s (quick, this run) | Technique |", "|---|---|---|---|---|---|"]
import importlib, sys
sys.path[:0] = ["/repo", os.getcwd()]
for path in sorted(glob.glob("evidence/C*.json")):
    e = json.load(open(path)); pid = e["property_id"]
    try:
        tech = getattr(importlib.import_module(f"checks.{pid.lower()}"), "TECHNIQUE", "")
    except Exception:
        tech = ""
    rows.append(f"| {pid} | {e['level']} | {e['coverage']['evaluations']:,} | {e['coverage']['distinct_nontrivial']:,} | {e['wall_s']} | {short(tech, 160)} |")
put("SIZES", "\n".join(rows))
open("DESIGN.md", "w").write(design)
print("DESIGN.md tables regenerated:", len(fs), "findings,", total, "seeded,", len(rows) - 2, "checks")
