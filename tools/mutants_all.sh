#!/bin/sh
# usage: tools/mutants_all.sh [IDs...] -- run every mutants/<ID>_*.patch against its check; prints one line per mutant and a summary
cd "$(dirname "$0")/.."
ids="$*"; caught=0; missed=0; stale=0
for p in mutants/*.patch; do
  id=$(basename "$p" | cut -d_ -f1)
  if [ -n "$ids" ]; then case " $ids " in *" $id "*) ;; *) continue;; esac; fi
  out=$(tools/mutcheck.sh "$p" "$id" quick 2>&1 | tail -1)
  case "$out" in
    *"MUTCHECK caught"*) caught=$((caught+1)); echo "caught $p";;
    *"patch failed"*) stale=$((stale+1)); echo "STALE  $p";;
    *) missed=$((missed+1)); echo "MISSED $p :: $out";;
  esac
done
echo "SUMMARY caught=$caught missed=$missed stale=$stale"
