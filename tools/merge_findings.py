#!/venv/bin/python
"""Merge findings.d/CNN.json drafts into known_findings.json (entries keyed by property+bucket; known_findings.json wins)."""
import glob, json, os
os.chdir(os.path.dirname(os.path.dirname(os.path.abspath(__file__))))
main = json.load(open("known_findings.json"))
have = {(f["property"], f["bucket"]) for f in main["findings"]}
n = 0
for path in sorted(glob.glob("findings.d/*.json")):
    for f in json.load(open(path)).get("findings", []):
        if (f["property"], f["bucket"]) not in have:
            main["findings"].append(f); have.add((f["property"], f["bucket"])); n += 1
main["findings"].sort(key=lambda f: (f["property"], f["status"], f["bucket"]))
json.dump(main, open("known_findings.json", "w"), indent=1)
print("merged", n, "entries; total", len(main["findings"]))
