#!/bin/sh
# offline, idempotent: make sure hypothesis is importable in /venv and atheris in /verif/.deps
cd "$(dirname "$0")/.." || exit 1
/venv/bin/python -c "import hypothesis" 2>/dev/null || /venv/bin/pip install -q --no-index --find-links /opt/veriftools/wheels hypothesis || exit 1
/venv/bin/python -c "import sys; sys.path.append('.deps'); import atheris" 2>/dev/null || /venv/bin/pip install -q --no-index --find-links /opt/veriftools/wheels --target .deps atheris || echo "atheris not installed (thorough fuzz tiers fall back to hypothesis only)"
exit 0
