#!/venv/bin/python
"""usage: tools/mkmut.py <out.patch> <repo-relative-file> <old> <new> [count]
Create a -p1 unified diff replacing the first (or count-th) occurrence of <old> by <new>."""
import difflib, sys
out, rel, old, new = sys.argv[1:5]
nth = int(sys.argv[5]) if len(sys.argv) > 5 else 1
src = open(f"/repo/{rel}").read()
assert old in src, "old text not found"
idx = -1
for _ in range(nth):
    idx = src.index(old, idx + 1)
dst = src[:idx] + new + src[idx + len(old):]
diff = difflib.unified_diff(src.splitlines(True), dst.splitlines(True), f"a/{rel}", f"b/{rel}")
mode = "a" if out.startswith("+") else "w"
open(out.lstrip("+"), mode).write("".join(diff))
print("wrote", out)
