#!/venv/bin/python
"""Print the prompt for a seeding sub-agent: tools/seed_prompt.py C24 C26"""
import json, sys
props = {json.loads(l)["id"]: json.loads(l) for l in open("/verif/properties.jsonl")}
ids = sys.argv[1:]
out = []
out.append("""You are a careful Python developer asked to produce *seeded defects* for a robustness study of the open-source library xknx (asynchronous KNX/IP library). For each property below you get your own scratch git worktree of the repository. Work ONLY inside those worktrees (and /tmp/seedwork-* scratch files you create); do not read or touch /repo or /verif or any other directory — your result must be independent of any existing verification machinery.

For EACH property, produce ONE change to the library source (files under xknx/, never under test/) that BREAKS the property while:
 (a) the package still imports and the existing test suite still passes UNEDITED with the change:
     cd <worktree> && PYTHONPATH=<worktree> /venv/bin/python -m pytest -q -p no:cacheprovider --timeout=900 -x --deselect test/io_tests/knxip_interface_test.py::TestKNXIPInterface::test_start_automatic_connection --deselect test/io_tests/secure_session_test.py::TestSecureSession::test_lifecycle
     (expect "3893 passed"; those two tests fail on the unchanged tree already);
 (b) the change is REALISTIC — the kind of slip a maintainer could make in a refactoring, optimisation, clean-up or small feature (an off-by-one, a moved statement, a dropped guard, a changed comparison, state updated at the wrong moment, two sites that each look fine alone) — no magic trigger values, no dead code, no comments announcing it;
 (c) it needs something SPECIFIC to manifest — a particular interleaving or timing, a fault at a particular point, a multi-step sequence of operations, an unusual input, or two cooperating sites — i.e. ordinary everyday use (and the existing tests) would not expose it at once;
 (d) you provide a demonstration: a standalone script demo.py (plain asyncio / plain Python, no pytest needed, may use unittest.mock) that exercises the real xknx code, exits 0 on the unchanged tree and exits non-zero (assertion failure) with your change applied. Run it as: cd <worktree> && PYTHONPATH=<worktree> /venv/bin/python SEED/demo.py . It must be deterministic and fast (< 30 s); use mocks / fake transports / patched clocks instead of real sockets or real sleeping where needed (look at how the repository's own tests under test/ drive the same classes).

Deliverables per property, inside its worktree, in a new directory SEED/: patch.diff (output of `git diff` of your source change, applying cleanly with `git apply` on the unchanged worktree), demo.py, notes.md (which property clause it breaks, what exactly is needed for it to manifest, what you ran and the outcomes: tests with the change, demo with and without the change). NEVER use `git stash` (the stash is shared between all worktrees of the repository and other people are working in sibling worktrees) - to test without your change use `git apply -R SEED/patch.diff` and `git apply SEED/patch.diff`. Leave the worktree's tracked files UNCHANGED at the end (git checkout -- . after saving patch.diff), with SEED/ as the only untracked content.

Read the relevant source first (the files listed per property are where the behaviour lives), then design the change. Prefer subtle semantic changes in the core mechanism over peripheral ones. If your first idea makes an existing test fail, pick another.
""")
import os
for i in ids:
    p = props[i]
    prev = ""
    for d in sorted(x for x in os.listdir("/verif/seeded") if x == i or x.startswith(i + "-")):
        try:
            prev += f"\n--- earlier seeded change ({d}) ---\n" + open(f"/verif/seeded/{d}/patch.diff").read()
        except OSError:
            pass
    out.append(f"""
=== Property {i}: {p['title']} ===
Worktree: /tmp/seed/{i}
Statement: {p['statement']}
Quantified over: {p['quantifier']['text']}
Where it lives: {', '.join(p['anchors']['files'])}
""" + (f"""An earlier round of this study already produced the change(s) below for this property. Produce a DIFFERENT defect: another mechanism, preferably another clause of the statement and another code site (do not merely vary the earlier one).{prev}
""" if prev else ""))
out.append("""
When done, reply with a short report per property: the idea of the change (2-3 lines), what is needed for it to manifest, and the exact outcomes you observed (test suite result with the change; demo exit status without and with the change).""")
print("".join(out))
