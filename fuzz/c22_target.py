"""atheris target for C22 (transports deliver stream frames once, in order, never raise).

Structured input (atheris.FuzzedDataProvider: integers from the END, octets from the front):

    transport   0..5 TCP stream, 6..7 UDP datagram sequence
    TCP:  mode  0,3 explicit chunk sizes / 1 octet-by-octet / 2 one chunk
          n     0..12 chunk sizes follow, each 1..48 (the last chunk takes the rest)
    UDP:  n     1..6 datagrams, n-1 lengths 0..255 follow (the last takes the rest)
    octets      the stream / the concatenated datagrams

TCP oracle = checks.c22.Plan + deliver_tcp on exactly this chunking: the reference
splitter (checks.c22.ref_split, reads only header length octet and announced length)
cuts the stream into frames with a readable header - each becomes an item of the
check's "c20:" kind (metamorphic: the transport must deliver exactly the frames the
stand-alone parser accepts, in order, once) - and the rest becomes the check's tail
(incomplete / unreadable / announced length < 6).  After an unreadable header the
property only demands "no exception, terminates", so chunk boundaries inside such a
tail are fed in a second, exceptions-only delivery (deliveries are not compared there;
the transport drops the chunk and would legitimately resynchronise on the next one).
UDP oracle = checks.c22.deliver_udp.  Recorded inputs are the dicts checks.c22.replay
expects.  Non-trivial as in the check (measured by deliver_tcp / deliver_udp): a
malformed frame followed by a valid one, or a chunk boundary inside a 6-octet header.
"""

from __future__ import annotations

import asyncio

import atheris

from checks import c22
from vk.fuzz import ctx_of, examples, tail_ints

PROP = "C22"
MAX_CHUNKS = 12
MAX_CHUNK = 48

_loop = asyncio.new_event_loop()
asyncio.set_event_loop(_loop)

_ONLY_NO_EXCEPTION = ("C22:exception-escaped:", "C22:nontermination:", "C22:escape-from-parser:")


class _ExceptionsOnly:
    """ctx proxy for the part of a delivery where only 'no exception, terminates' is demanded."""

    def __init__(self, ctx) -> None:
        self._ctx = ctx

    def case(self, *a, **kw) -> None:
        self._ctx.case(*a, **kw)

    def fail(self, bucket: str, input, detail: str = "") -> None:
        if bucket.startswith(_ONLY_NO_EXCEPTION):
            self._ctx.fail(bucket, input, detail)


def decode_input(data: bytes):
    """-> ("tcp", stream, cuts) | ("udp", [datagram, ...])"""
    fdp = atheris.FuzzedDataProvider(data)
    transport = fdp.ConsumeIntInRange(0, 7)
    if transport <= 5:
        mode = fdp.ConsumeIntInRange(0, 3)
        sizes = []
        if mode in (0, 3):
            for _ in range(fdp.ConsumeIntInRange(0, MAX_CHUNKS)):
                sizes.append(fdp.ConsumeIntInRange(1, MAX_CHUNK))
        stream = fdp.ConsumeBytes(fdp.remaining_bytes())
        n = len(stream)
        if mode == 1:
            cuts = list(range(1, n))
        else:
            cuts, pos = [], 0
            for s in sizes:
                pos += s
                if pos >= n:
                    break
                cuts.append(pos)
        return "tcp", stream, cuts
    k = fdp.ConsumeIntInRange(1, 6)
    lens = [fdp.ConsumeIntInRange(0, 255) for _ in range(k - 1)]
    blob = fdp.ConsumeBytes(fdp.remaining_bytes())
    out, pos = [], 0
    for ln in lens:
        out.append(blob[pos : pos + ln])
        pos += ln
    out.append(blob[pos:])
    return "udp", out


def encode_tcp(stream: bytes, sizes=(), mode: int = 0) -> bytes:
    sizes = [max(1, min(MAX_CHUNK, s)) for s in sizes][:MAX_CHUNKS]
    if mode in (0, 3):
        return bytes(stream) + tail_ints(0, mode, len(sizes), *[s - 1 for s in sizes])  # ConsumeIntInRange(1, 48) = 1 + octet % 48
    return bytes(stream) + tail_ints(0, mode)


def encode_udp(datagrams) -> bytes:
    ds = [bytes(d) for d in datagrams][:6]
    return b"".join(ds) + tail_ints(6, len(ds) - 1, *[len(d) for d in ds[:-1]])  # ConsumeIntInRange(1, 6) = 1 + octet % 6


def case_of_stream(stream: bytes) -> dict:
    """The check's stream description (items + tail) of arbitrary stream octets."""
    spans, stop = c22.ref_split(stream)
    items = [["c20:fuzz", stream[s:e]] for s, e in spans]
    rest = stream[spans[-1][1] if spans else 0 :]
    if not rest:
        tail = ["none", b""]
    elif stop == "incomplete":
        tail = ["tail:incomplete", rest]
    elif rest[0] != 6:
        tail = ["tail:unreadable", rest]
    else:
        tail = ["tail:announced-lt-6", rest]
    return {"items": items, "tail": tail}


def seeds() -> list[bytes]:
    out: list[bytes] = []
    for case in c22.SHORT_STREAMS:
        stream = b"".join(bytes(i[1]) for i in case["items"]) + bytes(case["tail"][1])
        out.append(encode_tcp(stream, (3, 4, 2)))
        out.append(encode_tcp(stream, mode=1))
    for i, case in enumerate(examples(c22.streams(max_items=4, max_len=150), 30, 22)):
        stream = b"".join(bytes(it[1]) for it in case["items"]) + bytes(case["tail"][1])
        if 0 < len(stream) <= 300:
            out.append(encode_tcp(stream, (5, 1 + i % 7, 9, 2 + i % 11), mode=(0, 0, 2, 1)[i % 4]))
    for case in examples(c22.udp_cases(), 12, 23):
        ds = [bytes(d[1]) for d in case["datagrams"]]
        if all(len(d) <= 255 for d in ds[:-1]) and sum(map(len, ds)) <= 300:
            out.append(encode_udp(ds))
    return out


def dictionary() -> list[bytes]:
    """Complete small frames and header prefixes (service codes of the specification table)."""
    from vk.strategies import knxip as S

    toks = [bytes((6, 0x10, c >> 8, c & 0xFF)) for c in sorted(S.KNOWN_SERVICE_CODES)]
    toks += [bytes(c22.V6_ROUTING[1]), bytes(c22.V8_CSR[1]), bytes(c22.M6_VERSION[1]), bytes(c22.M8_STATUS[1]), bytes(c22.ACK)]
    return toks


def one_input(data: bytes, record) -> None:
    ctx = ctx_of(record, PROP)
    dec = decode_input(bytes(data))
    if dec[0] == "udp":
        c22.deliver_udp(ctx, {"datagrams": [["fuzz", d] for d in dec[1]]})
        return
    _t, stream, cuts = dec
    if not stream:
        ctx.case(b"", nontrivial=False, cls="empty")
        return
    plan = c22.Plan(case_of_stream(stream))
    if not plan.usable:  # cannot happen for "c20:" items; kept for symmetry with run_plan
        return
    if plan.stop == "unreadable":
        tail_start = len(stream) - len(plan.case["tail"][1])
        outside = [c for c in cuts if c <= tail_start]
        c22.deliver_tcp(ctx, plan, outside, "fuzz-tcp")
        if len(outside) != len(cuts):
            c22.deliver_tcp(_ExceptionsOnly(ctx), plan, cuts, "fuzz-tcp-cuts-after-unreadable")
    else:
        c22.deliver_tcp(ctx, plan, cuts, "fuzz-tcp")
