"""atheris target for C07 (datapoint decoding is total).

Structured input (atheris.FuzzedDataProvider; integers are taken from the END of the
input, the payload octets from the front, so payload mutations keep the selectors):

    class index   0 .. len(all_dpt_classes())-1
    mode          0..4  payload of the class's own kind, array padded / cut to its own length
                  5, 7  DPTArray of the octets as they are (any length: validate_payload path)
                  6     DPTBinary(first octet & 0x3F) whatever the class wants
    response      GroupValueResponse instead of GroupValueWrite on the consumer path
    payload       the remaining octets

Oracle = checks.c07.decode (T.from_knx: value or CouldNotParseTelegram / ConversionError)
and checks.c07.consumer (GroupAddressDPT.set_decoded_data must not raise and must agree).
Non-trivial = vk.strategies.dpts.is_own_shape (payload of the type's own kind and
length, i.e. the execution reaches the type's decoder).  Recorded inputs have the shape
checks.c07.replay expects ({"dpt": name, "array"| "binary": ...}).
"""

from __future__ import annotations

import random

import atheris

from checks import c07
from vk.fuzz import ctx_of, tail_ints
from vk.strategies import dpts as D

PROP = "C07"
CLASSES = D.all_dpt_classes()
_GAD: dict = {}  # class -> GroupAddressDPT (built once per class; set_decoded_data does not modify it)


def decode_input(data: bytes):
    fdp = atheris.FuzzedDataProvider(data)
    T = CLASSES[fdp.ConsumeIntInRange(0, len(CLASSES) - 1)]
    mode = fdp.ConsumeIntInRange(0, 7)
    response = bool(fdp.ConsumeIntInRange(0, 1))
    body = fdp.ConsumeBytes(fdp.remaining_bytes())
    if mode == 6 or (mode <= 4 and D.is_binary(T)):
        v = (body[0] if body else 0) & 0x3F
        if mode <= 4:
            v &= (1 << T.payload_length) - 1
        spec = ("b", v)
    elif mode <= 4:
        n = T.payload_length
        spec = ("a", (body + bytes(n))[:n])
    else:
        spec = ("a", body[:255])
    return T, spec, response


def encode_case(T, spec, response: bool = False, mode: int | None = None) -> bytes:
    """Inverse of decode_input for seeds."""
    own = D.is_own_shape(T, spec)
    if mode is None:
        mode = 0 if own else (6 if spec[0] == "b" else 5)
    body = bytes((spec[1],)) if spec[0] == "b" else bytes(spec[1])
    return body + tail_ints(CLASSES.index(T), mode, int(response))


def seeds() -> list[bytes]:
    """For every class the all-zero payload of its own shape, plus one random own-shape array."""
    rng = random.Random(7)
    out: list[bytes] = []
    for T in CLASSES:
        out.append(encode_case(T, D.zero_spec(T)))
        if not D.is_binary(T) and T.payload_length >= 1:
            out.append(encode_case(T, next(iter(D.random_array_specs(T.payload_length, rng, 1))), response=True))
    return out


def one_input(data: bytes, record) -> None:
    ctx = ctx_of(record, PROP)
    T, spec, response = decode_input(bytes(data))
    own = D.is_own_shape(T, spec)
    ctx.case((T.__name__, spec), nontrivial=own, cls=f"kind:{D.kind(T)}" if own else "other-shape")
    c07.decode(ctx, T, spec)
    gad = _GAD.get(T)
    if gad is None:
        gad = _GAD[T] = c07._gadpt_for(T)  # noqa: SLF001
    c07.consumer(ctx, T, spec, gad, response=response)
