"""atheris target for C04 (APCI decode totality).

Input = the APDU octets (TPCI/APCI octets + ASDU, <= 255).  Oracle = checks.c04.judge
on the outcome of APCI.from_knx under a step budget, then checks.c04.check_cemi (the
cEMI mapping of the same APDU).  The budget here is the sys.monitoring one of
vk/budget.py (the check's own settrace budget would slow every execution ~10x);
exhaustion is handed to judge() as the check's StepBudgetExceeded, so it lands in the
same `C04:step-budget` bucket and the check's replay() re-judges it under its own
budget.  Non-trivial = checks.c04.nontrivial (recognised service at a length other
than its minimal valid one, or a decode that raised).
"""

from __future__ import annotations

import random

from checks import c04
from vk.budget import StepBudget
from vk.budget import StepBudgetExceeded as MonBudgetExceeded
from vk.fuzz import ctx_of
from vk.ref import apci_layout as T
from vk.strategies import apdus as G
from xknx.telegram.apci import APCI

PROP = "C04"
# sys.monitoring steps (PY_START/LINE/JUMP/BRANCH in xknx code): <= ~3 events per settrace
# line/call event, so 4x the check's budget keeps its >= 20x headroom over valid APDUs
STEP_FACTOR = 4


def seeds() -> list[bytes]:
    """One table-built valid APDU (witness) per recognised service + one random valid one."""
    out: list[bytes] = []
    seen: set[bytes] = set()
    rng = random.Random(4)
    for _s, raw in G.valid_apdus(rng, 1):
        if raw not in seen and len(raw) <= 64:
            seen.add(raw)
            out.append(raw)
    return out


def one_input(data: bytes, record) -> None:
    ctx = ctx_of(record, PROP)
    raw = bytes(data[:255])
    try:
        with StepBudget(STEP_FACTOR * c04.budget_for(len(raw))):
            res = APCI.from_knx(raw)
    except MonBudgetExceeded:
        res = c04.StepBudgetExceeded()
    except Exception as e:  # noqa: BLE001 - handed to the oracle
        res = e
    out = c04.judge(ctx, raw, res)
    ctx.case(raw, c04.nontrivial(raw, out), cls=f"outcome:{out}")
    if out != "budget":
        c04.check_cemi(ctx, raw)
