"""atheris target for C20 (KNX/IP frame parsing terminates, declared errors only).

Input = the octets handed to KNXIPFrame.from_knx.  Oracle = checks.c20.check_bytes:
the parse runs under the deterministic sys.monitoring step budget of vk/budget.py
(tool id 4; atheris instruments by bytecode rewriting, not by tracing, so both work on
the same code objects - vk.budget.selftest() is run at import here, on atheris-
instrumented code, and interrupts a `while True`) and the tracemalloc peak budget, then
the returned (frame, rest) / exception is judged exactly as in the check.  A
non-terminating parse is recorded as C20:nontermination:<hot functions> and the
campaign goes on.  Non-trivial = checks.c20.reaches_body_parser (valid header of an
implemented service with 6 <= announced <= len).
"""

from __future__ import annotations

import atheris

from checks import c20
from vk import budget
from vk.fuzz import ctx_of, examples
from vk.strategies import knxip as S

PROP = "C20"


def _selftest_budget_under_atheris() -> None:
    """The step budget must interrupt an atheris-instrumented endless loop filed under xknx."""
    import os

    import xknx.knxip.hpai as hpai_mod

    budget.selftest()
    src = "def _vk_spin2(n):\n    i = 0\n    while True:\n        i += 1\n        if i == n:\n            return i\n"
    ns: dict = {"__name__": "xknx.knxip._vk_budget_selftest2"}
    exec(compile(src, os.path.join(os.path.dirname(hpai_mod.__file__), "_vk_budget_selftest2.py"), "exec"), ns)  # noqa: S102
    spin = atheris.instrument_func(ns["_vk_spin2"])
    budget.mon.set_local_events(budget.TOOL_ID, spin.__code__, budget._EVENTS)  # noqa: SLF001
    try:
        with budget.StepBudget(5_000):
            spin(-1)
    except budget.StepBudgetExceeded:
        pass
    else:
        raise AssertionError("step budget did not interrupt an atheris-instrumented loop")
    finally:
        budget.mon.set_local_events(budget.TOOL_ID, spin.__code__, 0)


_selftest_budget_under_atheris()


def seeds() -> list[bytes]:
    """Two valid frames of every service type (C21 strategies), at most 200 octets each."""
    out: list[bytes] = []
    seen: set[bytes] = set()
    for i, cls in enumerate(S.BODY_CLASSES):
        for _c, frame in examples(S.valid_frames((cls,)), 3, 2000 + i):
            if frame not in seen and len(frame) <= 200 and sum(1 for f in out if f[2:4] == frame[2:4]) < 2:
                seen.add(frame)
                out.append(frame)
    return out


def dictionary() -> list[bytes]:
    """Header prefixes of every service code of the specification table + structure heads."""
    toks = [bytes((6, 0x10, c >> 8, c & 0xFF)) for c in sorted(S.KNOWN_SERVICE_CODES)]
    toks += [b"\x08\x01", b"\x08\x02", b"\x04\x04\x02\x00", b"\x02\x03", b"\x36\x01", b"\x00\x06"]
    return toks


def one_input(data: bytes, record) -> None:
    c20.check_bytes(ctx_of(record, PROP), bytes(data), "fuzz")
