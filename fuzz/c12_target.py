"""atheris target for C12 (cEMI parse totality).

Input = the raw cEMI octets.  Oracle = checks.c12.oracle_full (direct parse +
CEMIHandler.handle_raw_cemi + the device-management receive path with the
last-resort guards observed), preceded by checks.c12.terminates (one parse under the
sys.monitoring step budget) so that a non-terminating parse is recorded
(C12:nontermination:<hot functions>) instead of hanging the campaign.
Non-trivial (c12.nontrivial): message code L_Data.* / M_Prop* and at least one more
octet, i.e. the input reaches CEMILData / CEMIMPropInfo parsing.
"""

from __future__ import annotations

import random

from checks import c12
from vk.fuzz import ctx_of, examples
from vk.strategies import apdus as G
from vk.strategies import cemi as S

PROP = "C12"

_patched = c12.Patched()
_rec = _patched.__enter__()  # logger.exception / handle_cemi_frame recorders stay installed for the process


def seeds() -> list[bytes]:
    out: list[bytes] = []
    out += examples(S.wellformed_ldata_frames(), 24, 12)
    out += [f for f in examples(S.mprop_frames(), 12, 13)]
    rng = random.Random(12)
    apdus = [raw for _s, raw in G.valid_apdus(rng, 0)][::6]
    out += examples(S.plausible_ldata_frames(apdus), 12, 14)
    # A_Sec APDUs: valid, reserved algorithm, reserved service, too short
    out += [S.asec_frame(0x29, True, scf, n) for scf in (0x10, 0x00, 0x20, 0x70, 0x11, 0x97) for n in (12, 13, 20)]
    seen, uniq = set(), []
    for f in out:
        f = bytes(f)
        if f not in seen:
            seen.add(f)
            uniq.append(f)
    return uniq


def one_input(data: bytes, record) -> None:
    ctx = ctx_of(record, PROP)
    raw = bytes(data)
    del _rec.guard[:], _rec.handled[:]  # per-iteration state of the observation points
    if not c12.terminates(ctx, raw):
        ctx.case(raw, nontrivial=c12.nontrivial(raw), cls="nonterminating")
        return
    c12.oracle_full(ctx, raw, _rec)
