"""C19 - Data Secure output conforms to the KNX CCM construction.

`SecureData.init_from_plain_apdu(...)` (the function that turns a plain APDU into the
secured ASDU) is called directly with generated inputs; its octets must equal
vk/ref/ccm.py, an independent CCM built from single-block AES only and validated
against the AN158 Annex A example frame and frames from the repo's tests.
"""

from __future__ import annotations

from hypothesis import strategies as st

from vk.core import exc_site
from vk.engine import hyp_search, parallel
from vk.ref import ccm
from vk.strategies import cemi as S
from xknx.cemi.flags import CEMIAddressType, CEMIFrameFormat
from xknx.secure.data_secure_asdu import SecureData, SecurityAlgorithmIdentifier, SecurityALService, SecurityControlField
from xknx.telegram import apci, tpci as T

PROPERTY = "C19"
LEVEL = "exploration"
TECHNIQUE = "property-based testing (Hypothesis) against an independent reference implementation (CCM from single-block AES), reference validated on specification / recorded vectors"
RULE = (
    "generated (key, source, destination, address type, extended frame format {0, LTE 0100b}, data TPCI {T_Data_Group/"
    "Broadcast/Individual 0x00, T_Data_Tag_Group 0x04, T_Data_Connected seq 0..15}, 48-bit sequence number incl. 0 and 2^48-1, "
    "SCF {tool access, system broadcast, service S-A_Data/Sync_Req/Sync_Res}, algorithm {authentication only, authenticated "
    "encryption}, plain APDU of 0..240 octets); plus every APDU length 0..240 x both algorithms enumerated once. "
    "Every case is non-trivial (distinct by input)."
)
ASSUMPTIONS = [
    "reference construction (03_03_07 §5 / AN158): B0 = seq|SA|DA|00|AT+EFF|TPCI+APCI_SEC[9:8]|APCI_SEC[7:0]|00|Q, Ctr0 = seq|SA|DA|00 00 00 00 01 00, "
    "CBC-MAC over B0|len(A)|A|P zero padded, 4 octet MAC; A+C: A=SCF, P=APDU, one continuous CTR key stream S0|S1.. whose first 4 "
    "octets encrypt the MAC and the following ones the APDU (settled by the AN158 Annex A vector and a frame recorded from a device)",
    "authentication only: A = SCF|APDU, Q = 0, MAC transmitted unencrypted (no literal vector available for this mode; "
    "same reading as Calimero and the code under test - a shared misreading would not be detected)",
    "control TPDUs (T_Connect etc.) carry no APDU and are outside the domain",
]
LEVEL_TEXT = "no generated input makes xknx's secured ASDU differ from the independent CCM reference"
LEVEL_NOTE = "sampling; trusted: AES block primitive of `cryptography`, vk/ref/ccm.py (self-tested on 4 literal frames incl. the AN158 example)"

TPCIS = [("TDataGroup", 0), ("TDataBroadcast", 0), ("TDataIndividual", 0), ("TDataTagGroup", 0)] + [("TDataConnected", s) for s in range(16)]


def tpci_obj(kind: str, seq: int):
    return {
        "TDataGroup": T.TDataGroup,
        "TDataBroadcast": T.TDataBroadcast,
        "TDataIndividual": T.TDataIndividual,
        "TDataTagGroup": T.TDataTagGroup,
    }[kind]() if kind != "TDataConnected" else T.TDataConnected(seq)


def ref_tpci_octet(kind: str, seq: int) -> int:
    return {"TDataGroup": 0, "TDataBroadcast": 0, "TDataIndividual": 0, "TDataTagGroup": 0x04}.get(kind, 0x40 | seq << 2)


def specs():
    return st.fixed_dictionaries(
        {
            "key": st.binary(min_size=16, max_size=16),
            "src": S.u16,
            "dst": S.u16,
            "group": st.booleans(),
            "eff": st.sampled_from((0, 0, 0, 4)),
            "tpci": st.one_of(st.sampled_from(TPCIS[:4]), st.sampled_from(TPCIS)),
            "seq": st.one_of(st.sampled_from((0, 1, S.SEQ_MAX)), S.sequence_numbers(0)),
            "tool": st.booleans(),
            "sbc": st.booleans(),
            "service": st.sampled_from((0, 0, 2, 3)),
            "alg": st.sampled_from((0, 1, 1)),
            "apdu": st.one_of(st.binary(max_size=20), st.integers(0, 240).flatmap(lambda n: st.binary(min_size=n, max_size=n))),
        }
    )


def oracle(ctx, spec) -> None:
    spec = dict(spec)
    kind, tseq = spec["tpci"]
    apdu = bytes(spec["apdu"])
    alg = spec["alg"]
    scf_octet = (0x80 if spec["tool"] else 0) | alg << 4 | (0x08 if spec["sbc"] else 0) | spec["service"]
    t_oct = ref_tpci_octet(kind, tseq)
    ctx.case(
        repr(sorted(spec.items())),
        nontrivial=True,
        cls=("alg:auth" if alg == 0 else "alg:enc", f"tpci:{kind}", f"len:{min(len(apdu) // 16, 15) * 16}+", "eff:%d" % spec["eff"], "at:group" if spec["group"] else "at:individual"),
    )
    if len(apdu) in (0, 1, 16, 240):
        ctx.sample({**spec, "key": spec["key"].hex(), "apdu": apdu.hex()[:40]})
    kw = dict(alg=alg, scf=scf_octet, seq=spec["seq"], src=spec["src"], dst=spec["dst"], group=spec["group"], eff=spec["eff"], apdu=apdu)
    expected = ccm.asdu(spec["key"], tpci=t_oct, **kw)
    try:
        scf = SecurityControlField(
            tool_access=spec["tool"],
            algorithm=SecurityAlgorithmIdentifier(alg),
            system_broadcast=spec["sbc"],
            service=SecurityALService(spec["service"]),
        )
        if scf.to_knx() != bytes([scf_octet]):
            ctx.fail("C19:scf-octet", spec, f"SCF {scf.to_knx().hex()} != reference {scf_octet:02x}")
        sd = SecureData.init_from_plain_apdu(
            key=spec["key"],
            apdu=apdu,
            scf=scf,
            sequence_number=spec["seq"],
            address_fields_raw=spec["src"].to_bytes(2, "big") + spec["dst"].to_bytes(2, "big"),
            address_type=CEMIAddressType.GROUP if spec["group"] else CEMIAddressType.INDIVIDUAL,
            frame_format=CEMIFrameFormat(spec["eff"]),
            tpci=tpci_obj(kind, tseq),
        )
        got = sd.to_knx()
        wire = bytes(apci.SecureAPDU(scf=scf, secured_data=sd).to_knx())
    except Exception as e:  # noqa: BLE001
        site = exc_site(e)
        if t_oct and isinstance(e, ValueError) and site.endswith("data_secure_asdu:block_0"):
            ctx.fail("C19:block0-tpci-octet", spec, f"init_from_plain_apdu raised {type(e).__name__}: {e} for TPCI octet {t_oct:#04x} (block 0 octet 12 computed as (tpci << 2) + 3 = {(t_oct << 2) + 3})")
        else:
            ctx.fail(f"C19:exc:{site}", spec, f"init_from_plain_apdu raised {type(e).__name__}: {e}")
        return
    if got == expected:
        if wire != bytes([0x03, 0xF1, scf_octet]) + expected:
            ctx.fail("C19:secure-apdu-octets", spec, f"SecureAPDU.to_knx {wire.hex()} != 03f1|scf|asdu {expected.hex()}")
        return
    # diagnose by field
    if got[:6] != expected[:6] or len(got) != len(expected):
        ctx.fail("C19:differs:sequence-number-or-length", spec, f"xknx {got.hex()} reference {expected.hex()}")
        return
    body_ok = got[6:-4] == expected[6:-4]
    if body_ok and t_oct and (t_oct << 2) < 256 and got == ccm.asdu(spec["key"], tpci=(t_oct << 2) & 0xFC, **kw):
        ctx.fail(
            "C19:block0-tpci-octet",
            spec,
            f"MAC {got[-4:].hex()} != reference {expected[-4:].hex()} for TPCI octet {t_oct:#04x}: block 0 octet 12 is (tpci << 2) + 3 = "
            f"{(t_oct << 2) + 3:#04x} instead of tpci | 3 = {t_oct | 3:#04x}",
        )
        return
    which = "mac" if body_ok else "ciphertext"
    ctx.fail(f"C19:differs:{which}:{'auth' if alg == 0 else 'enc'}", spec, f"xknx {got.hex()} reference {expected.hex()}")


def _shard(ctx, n: int) -> None:
    hyp_search(ctx, specs(), oracle, n)


def enumerate_lengths(ctx) -> None:
    for alg in (0, 1):
        for n in range(0, 241):
            oracle(ctx, {"key": bytes((7 * i + n) & 0xFF for i in range(16)), "src": 0x1101, "dst": 0x0801 + n, "group": True, "eff": 0,
                         "tpci": ("TDataGroup", 0), "seq": 0x010203040506 + n, "tool": False, "sbc": False, "service": 0, "alg": alg,
                         "apdu": bytes((i * 5 + n) & 0xFF for i in range(n))})  # fmt: skip


def selftest(ctx) -> None:
    ccm.selftest()


def run(ctx) -> None:
    enumerate_lengths(ctx)
    parallel(ctx, _shard, [(ctx.n(500, 8000),)] * ctx.n(8, 16))


def replay(ctx, case) -> None:
    case = dict(case)
    case["tpci"] = tuple(case["tpci"])
    oracle(ctx, case)
