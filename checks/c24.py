"""C24 - outgoing tunnel frames are sequenced and confirmed only by their own ACK.

The real UDPTunnel / TCPTunnel run on the virtual-time loop against the simulated
gateway. The gateway's reaction to every received TunnellingRequest transmission is
drawn from a fault alphabet (ack, drop, late ack, duplicate ack, stale ack, wrong
channel, error status, server disconnect): all plans up to a bounded length are
enumerated, longer ones (with failing reconnects and heartbeats) are sampled. The
oracle reads the wire log and the outcome of every `send_cemi` call.
"""

from __future__ import annotations

import asyncio
import itertools

from hypothesis import strategies as st

from vk.core import HarnessError, exc_site
from vk.engine import hyp_search, parallel
from vk.simgw import GW_ADDR, SimGateway
from vk.vloop import BudgetExceeded, Deadlock, run_case

PROPERTY = "C24"
LEVEL = "fault_enumeration"
TECHNIQUE = "bounded exhaustive enumeration of gateway ACK-fault plans + Hypothesis-sampled longer schedules; real UDP/TCP tunnel on a virtual-time loop vs simulated gateway; wire-log oracle"
RULE = (
    "case = (transport, auto_reconnect, number of senders, concurrent or sequential, per-transmission ACK fault plan); "
    "all plans over the 8-symbol alphabet up to length 3 (quick) / 4 (thorough) x 1..3 sends x {sequential, concurrent, staggered arrivals} x auto_reconnect on/off, "
    "plus sampled schedules with up to 8 sends, reconnect and heartbeat faults; non-trivial = plan containing a stale/duplicate/late/wrong-channel/error ACK, a drop or a disconnect; distinct by case"
)
LEVEL_TEXT = "Every bounded ACK-fault plan is executed against the real tunnel client in virtual time; counters, repetitions, one-outstanding-request and the 'succeeds only on its own ACK' clause are decided from the simulated gateway's wire log. Longer schedules are sampled, not enumerated."
LEVEL_NOTE = "Schedules are those expressible by the simulator: single client, virtual time, faults per received transmission; KNX/IP codec used to parse the wire log is trusted here (judged by C20/C21)."
ASSUMPTIONS = [
    "single-threaded asyncio on a virtual clock; network delay 5 ms; gateway behaviour limited to the fault alphabet",
    "wire log parsed with xknx.knxip (codec judged separately by C20/C21)",
]

ALPHABET = ["ack", "drop", ("late", 1.5), ("dup", 0.5), "stale", "wrongch", "err", "disc"]
SYM = {"ack": "a", "drop": "d", "stale": "s", "wrongch": "w", "err": "e", "disc": "x"}


def _sym(o):
    return SYM[o] if isinstance(o, str) else {"late": "L", "dup": "D"}[o[0]]


def make_cemi(i: int):
    from xknx.cemi import CEMIFrame, CEMILData, CEMIMessageCode
    from xknx.dpt import DPTArray
    from xknx.telegram import GroupAddress, IndividualAddress, Telegram
    from xknx.telegram.apci import GroupValueWrite

    tg = Telegram(destination_address=GroupAddress(0x0900 + i), payload=GroupValueWrite(DPTArray((0xA0, i & 0xFF))))
    return CEMIFrame(code=CEMIMessageCode.L_DATA_REQ, data=CEMILData.init_from_telegram(tg, src_addr=IndividualAddress("1.1.7")))


def execute(case):
    from xknx import XKNX
    from xknx.exceptions import CommunicationError
    from xknx.io.tunnel import TCPTunnel, UDPTunnel

    gw = SimGateway()
    gw.ack_plan = [tuple(o) if isinstance(o, list) else o for o in case["plan"]]
    gw.connect_plan = ["ok"] + [tuple(o) if isinstance(o, list) else o for o in case.get("connect_plan", [])]
    gw.hb_plan = list(case.get("hb_plan", []))
    results: dict[int, tuple] = {}
    cemis = {}

    async def scenario(loop):
        gw.attach(loop)
        xknx = XKNX()
        received = []
        if case["transport"] == "udp":
            tunnel = UDPTunnel(xknx, received.append, gateway_ip=GW_ADDR[0], gateway_port=GW_ADDR[1], local_ip="10.0.0.2", auto_reconnect=case["auto_reconnect"], auto_reconnect_wait=3)
        else:
            tunnel = TCPTunnel(xknx, received.append, gateway_ip=GW_ADDR[0], gateway_port=GW_ADDR[1], auto_reconnect=case["auto_reconnect"], auto_reconnect_wait=3)
        await tunnel.connect()

        async def send(i: int) -> None:
            cemi = make_cemi(i)
            cemis[i] = cemi.to_knx()
            t0 = loop.time()
            try:
                await tunnel.send_cemi(cemi)
                results[i] = ("ok", t0, loop.time(), loop.tick)
            except CommunicationError as e:
                results[i] = ("comm", t0, loop.time(), loop.tick, repr(e))
            except asyncio.CancelledError:
                results[i] = ("cancelled", t0, loop.time(), loop.tick)
                raise
            except Exception as e:  # noqa: BLE001
                results[i] = ("exc", t0, loop.time(), loop.tick, exc_site(e), repr(e))

        n = case["sends"]
        if case["mode"] == "conc":
            await asyncio.gather(*(asyncio.create_task(send(i)) for i in range(n)))
        elif case["mode"] == "stag":
            # concurrent senders arriving one after the other (a later sender may arrive after a reconnect
            # that happened while an earlier one is still in flight)
            offs = case.get("offsets") or [0.03 * i for i in range(n)]

            async def later(i: int) -> None:
                if offs[i]:
                    await asyncio.sleep(offs[i])
                await send(i)

            await asyncio.gather(*(asyncio.create_task(later(i)) for i in range(n)))
        else:
            gaps = case.get("gaps") or [0.0] * n
            for i in range(n):
                if gaps[i]:
                    await asyncio.sleep(gaps[i])
                await send(i)
        await asyncio.sleep(case.get("tail", 3.0))
        try:
            await tunnel.disconnect()
        except CommunicationError:
            pass
        xknx.started.clear()
        return None

    _, loop = run_case(scenario, net=None, max_iters=400_000)
    if gw.errors:
        raise HarnessError("simulator error: " + gw.errors[0])
    return gw.log, results, cemis, loop.escaped


def judge(ctx, case, log, results, cemis, escaped) -> None:
    inp = case
    udp = case["transport"] == "udp"
    by_cemi = {v: k for k, v in cemis.items()}
    txs = [e for e in log if e["dir"] == "c2s" and e["kind"] == "TunnellingRequest" and e.get("raw_cemi") in by_cemi]
    acks = [e for e in log if e["dir"] == "s2c" and e["kind"] == "TunnellingAck"]
    for e in escaped:
        ctx.fail(f"C24:escaped:{type(e['exception']).__name__}", inp, e["repr"] + " " + e["message"])
    for i, r in results.items():
        if r[0] == "exc":
            ctx.fail(f"C24:send-raised-undeclared:{r[4]}", inp, f"send {i}: {r[5]}")
    # (1) counters per epoch, (2) at most two transmissions with the same counter per epoch
    per_epoch: dict[int, list] = {}
    for e in txs:
        per_epoch.setdefault(e["epoch"], []).append(e)
    for ep, lst in per_epoch.items():
        order: list[bytes] = []
        for e in lst:
            c = e["raw_cemi"]
            if c not in order:
                order.append(c)
            k = order.index(c)
            if e["sequence_counter"] != k % 256:
                ctx.fail("C24:counter", inp, f"epoch {ep}: frame #{k} of the connection (send {by_cemi[c]}) carried counter {e['sequence_counter']}")
                break
        for c in order:
            n = sum(1 for e in lst if e["raw_cemi"] == c)
            if udp and n > 2:
                ctx.fail("C24:repeated-more-than-once", inp, f"epoch {ep}: send {by_cemi[c]} transmitted {n} times")
            if not udp and n > 1:
                ctx.fail("C24:tcp-repeated", inp, f"epoch {ep}: send {by_cemi[c]} transmitted {n} times over TCP")
    # (3) one request at a time: transmissions of one cEMI are contiguous; the next frame starts after the previous send completed
    seen: list[bytes] = []
    for e in txs:
        c = e["raw_cemi"]
        if seen and seen[-1] == c:
            continue
        if c in seen:
            ctx.fail("C24:interleaved", inp, f"send {by_cemi[c]} transmitted again after another frame went out")
            break
        if seen:
            prev = results.get(by_cemi[seen[-1]])
            if prev is None or prev[2] > e["t"] + 1e-9:
                ctx.fail("C24:two-outstanding", inp, f"send {by_cemi[c]} transmitted at {e['t']} while send {by_cemi[seen[-1]]} was still awaiting its ACK (completed {prev[2] if prev else None})")
                break
        seen.append(c)
    # (4) success only on own ack
    if udp:
        for i, r in results.items():
            if r[0] != "ok":
                continue
            mine = [e for e in txs if e["raw_cemi"] == cemis[i]]
            good = any(
                a["status_code"] == "E_NO_ERROR"
                and a["communication_channel_id"] == e["communication_channel_id"]
                and a["sequence_counter"] == e["sequence_counter"]
                and a["epoch"] == e["epoch"]
                and (a["t"], a["tick"]) > (e["t"], e["tick"])
                and a["t"] <= r[2] + 1e-9
                for e in mine
                for a in acks
            )
            if not good:
                got = [(a["t"], a["communication_channel_id"], a["sequence_counter"], a["status_code"]) for a in acks if r[1] <= a["t"] <= r[2]]
                # which foreign ACK ended the wait: the last one delivered before the call returned
                last_tx = mine[-1] if mine else None
                cand = [a for a in acks if last_tx is not None and (a["t"], a["tick"]) > (last_tx["t"], last_tx["tick"]) and a["t"] <= r[2] + 1e-9]
                if not cand:
                    why = "no-ack"
                else:
                    # a normal return needs an error-free ACK: the first such ACK after the last
                    # transmission is the one that completed the call (an error ACK delivered in the
                    # same loop iteration does not stop a later error-free one from being taken)
                    ok_acks = [x for x in cand if x["status_code"] == "E_NO_ERROR"]
                    a = ok_acks[0] if ok_acks else cand[0]
                    if a["status_code"] != "E_NO_ERROR":
                        why = "error-status"
                    elif a["communication_channel_id"] != last_tx["communication_channel_id"]:
                        why = "foreign-channel"
                    elif a["sequence_counter"] != last_tx["sequence_counter"]:
                        why = "foreign-counter"
                    else:
                        why = "other"
                ctx.fail(f"C24:success-without-own-ack:{why}", inp, f"send {i} (tx {[(e['t'], e['communication_channel_id'], e['sequence_counter']) for e in mine]}) returned normally at {r[2]}; acks delivered meanwhile (t, channel, counter, status): {got}")


def check_case(ctx, case) -> None:
    try:
        log, results, cemis, escaped = execute(case)
    except (BudgetExceeded, Deadlock):
        ctx.notes["inconclusive"] = ctx.notes.get("inconclusive", 0) + 1
        return
    except HarnessError:
        raise
    except Exception as e:  # noqa: BLE001
        ctx.fail(f"C24:scenario-exc:{exc_site(e)}", case, repr(e))
        return
    judge(ctx, case, log, results, cemis, escaped)


def _enum_shard(ctx, L: int, first) -> None:
    n = nt = 0
    for rest in itertools.product(ALPHABET, repeat=L - 1):
        plan = [first, *rest]
        label = "".join(_sym(o) for o in plan)
        for sends in (1, 2, 3):
            for mode in ("seq", "conc", "stag"):
                for ar in (True, False):
                    case = {"transport": "udp", "auto_reconnect": ar, "sends": sends, "mode": mode, "plan": [list(o) if isinstance(o, tuple) else o for o in plan]}
                    check_case(ctx, case)
                    n += 1
                    if label.strip("a"):
                        nt += 1
        if n % 1500 < 12:
            ctx.sample({"plan": label, "sends": 3, "mode": "conc"})
    ctx.bulk(n, nt, f"enum-L{L}")


_outcome = st.sampled_from(ALPHABET) | st.tuples(st.just("late"), st.sampled_from([0.9, 1.02, 1.5, 2.5])) | st.tuples(st.just("dup"), st.sampled_from([0.2, 0.5, 1.01, 1.9]))


@st.composite
def cases(draw):
    transport = draw(st.sampled_from(["udp", "udp", "udp", "tcp"]))
    sends = draw(st.integers(1, 8))
    mode = draw(st.sampled_from(["seq", "conc", "stag"]))
    plan = draw(st.lists(_outcome, min_size=0, max_size=14))
    # bias towards mostly-acked plans so that long counter runs happen
    if draw(st.booleans()):
        plan = [o if draw(st.integers(0, 3)) == 0 else "ack" for o in plan]
    case = {
        "transport": transport,
        "auto_reconnect": draw(st.booleans()),
        "sends": sends,
        "mode": mode,
        "plan": [list(o) if isinstance(o, tuple) else o for o in plan],
        "connect_plan": draw(st.lists(st.sampled_from(["ok", "ok", "drop", ["err", "E_NO_MORE_CONNECTIONS"]]), max_size=3)),
        "hb_plan": draw(st.lists(st.sampled_from(["ok", "drop", "err"]), max_size=4)),
        "tail": draw(st.sampled_from([3.0, 80.0])),
    }
    if mode == "stag":
        case["offsets"] = sorted(draw(st.lists(st.sampled_from([0.0, 0.012, 0.03, 0.06, 0.5, 1.03, 2.1]), min_size=sends, max_size=sends)))
    if mode == "seq":
        case["gaps"] = draw(st.lists(st.sampled_from([0.0, 0.0, 0.3, 1.1, 75.0]), min_size=sends, max_size=sends))
    return case


def _norm(case):
    from xknx.knxip import ErrorCode

    c = dict(case)
    c["connect_plan"] = [("err", ErrorCode[o[1]]) if isinstance(o, (list, tuple)) and o[0] == "err" else o for o in case.get("connect_plan", [])]
    return c


def _hyp_oracle(ctx, case) -> None:
    check_case_norm(ctx, case)
    label = "".join(_sym(tuple(o) if isinstance(o, list) else o) for o in case["plan"])
    ctx.case(
        repr(sorted(case.items())),
        nontrivial=bool(label.strip("a")) or bool(case["connect_plan"]) or bool(case["hb_plan"]),
        cls=[case["transport"], case["mode"], "reconnect-faults" if case["connect_plan"] else "plain-reconnect", "sends>3" if case["sends"] > 3 else "sends<=3"],
        sample={"plan": label, **{k: case[k] for k in ("transport", "sends", "mode", "auto_reconnect")}} if len(label) > 5 else None,
    )


def check_case_norm(ctx, case) -> None:
    c = _norm(case)
    try:
        log, results, cemis, escaped = execute(c)
    except (BudgetExceeded, Deadlock):
        ctx.notes["inconclusive"] = ctx.notes.get("inconclusive", 0) + 1
        return
    except HarnessError:
        raise
    except Exception as e:  # noqa: BLE001
        ctx.fail(f"C24:scenario-exc:{exc_site(e)}", case, repr(e))
        return
    judge(ctx, case, log, results, cemis, escaped)


def _hyp_shard(ctx, n: int) -> None:
    hyp_search(ctx, cases(), _hyp_oracle, n)


def _wrap_shard(ctx, transport: str) -> None:
    """Counter wrap-around: 300 acknowledged sends on one connection."""
    case = {"transport": transport, "auto_reconnect": True, "sends": 300, "mode": "seq", "plan": [], "tail": 1.0}
    check_case(ctx, case)
    ctx.case(("wrap", transport), True, "wraparound-300", sample={"wraparound": transport, "sends": 300})


def run(ctx) -> None:
    L = ctx.n(3, 4)
    jobs = []
    for length in range(1, L + 1):
        for first in ALPHABET:
            jobs.append((length, first))
    parallel(ctx, _enum_shard, jobs)
    parallel(ctx, _wrap_shard, [("udp",), ("tcp",)])
    parallel(ctx, _hyp_shard, [(ctx.n(120, 3000),)] * 16)
    ctx.notes["exhaustive_plan_length"] = L


def replay(ctx, case) -> None:
    check_case_norm(ctx, case)
