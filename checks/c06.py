"""C06 - encoding an application PDU never silently changes a field.

Every concrete APCI service class (walked from APCI.__subclasses__): base instances are
decoded from table-built valid APDUs (vk/ref/apci_layout.py); each int field is swept over
{-1, 0, 1, 2^k-1, 2^k, 2^k+1 (k <= 48), 2^32}, each bytes field over lengths 0..20, 254,
255, enum / address / bool / DPT / list fields over values of their own type, the other
fields varying with the base instance. Oracle: the constructor or to_knx() raises
(refusal, exception class recorded) OR APCI.from_knx(o.to_knx()) == o.
"""

from __future__ import annotations

import dataclasses
import enum
import inspect
import random

from hypothesis import strategies as st

from xknx.dpt import DPTArray, DPTBinary
from xknx.secure.data_secure_asdu import SecureData, SecurityAlgorithmIdentifier, SecurityALService, SecurityControlField
from xknx.telegram import apci as A
from xknx.telegram.address import GroupAddress, IndividualAddress

from vk.core import HarnessError, exc_site
from vk.engine import hyp_search
from vk.ref import apci_layout as T
from vk.strategies import apdus as G

PROPERTY = "C06"
LEVEL = "exploration"
TECHNIQUE = "boundary-value enumeration per class.field + property-based testing (Hypothesis); encode/decode round trip"
LEVEL_TEXT = (
    "every field of every concrete service class is swept across all wire-width boundaries up to 2^48 and byte "
    "lengths 0..20/254/255 with several base objects; other value combinations are sampled - can refute, not prove"
)
LEVEL_NOTE = (
    "trusted: dataclass __eq__ of the service objects (the property's own notion of 'equal'); base objects come from "
    "table-built valid APDUs passed through the decoder under test (only used as starting points, never as verdicts)"
)
RULE = (
    "for each of the concrete APCI dataclasses x each field: int fields over {-1,0,1,2^k-1,2^k,2^k+1 (k<=48),2^32}, "
    "bytes fields over lengths 0..20,254,255 (auto-derived count/number both derived and kept), enum/address/bool/"
    "DPT/list/SCF fields over their own types, other fields taken from several decoded base objects; + Hypothesis "
    "with arbitrary ints / byte strings; non-trivial = int value negative or >= 2^w-1 for the field's wire width w "
    "(from the layout table, 8 if unknown), bytes of zero length or a length other than the base object's, or any "
    "non-int/bytes field value"
)
ASSUMPTIONS = [
    "any exception out of the constructor or to_knx() counts as refusal (class recorded in `classes`), as the "
    "property only forbids *silent* change",
    "a class whose decoded copy is field-wise identical but not `==` (a member type without __eq__) is reported once "
    "as C06:neq:<Class>.* and its field sweeps continue under field-wise equality, so that this root cause hides "
    "no other; a class whose unmodified base object fails the round trip for another reason has its sweeps skipped",
    "fields are set to values of their annotated type only (no str for int etc.)",
]

INT_VALUES: list[int] = sorted({-1, 0, 1, 2**32} | {v for k in range(1, 49) for v in (2**k - 1, 2**k, 2**k + 1)})
BYTES_LENGTHS: list[int] = list(range(0, 21)) + [254, 255]

_ALIAS = {"type_": "type", "memory_address": "address", "filter_table_address": "address"}


def concrete_classes() -> list[type]:
    seen: list[type] = []

    def walk(c: type) -> None:
        for s in c.__subclasses__():
            if s not in seen:
                seen.append(s)
                walk(s)

    walk(A.APCI)
    return sorted((c for c in seen if not inspect.isabstract(c) and dataclasses.is_dataclass(c)), key=lambda c: c.__name__)


CLASSES = {c.__name__: c for c in concrete_classes()}


# -- value specs (JSON-able descriptions of field values) ---------------------------------


def materialise(spec):
    """Value spec -> python value. Plain ints/bools/None/bytes are themselves."""
    if isinstance(spec, (list, tuple)) and spec and isinstance(spec[0], str):
        kind, *args = spec
        if kind == "enum":
            return getattr(A, args[0])(args[1])
        if kind == "ia":
            return IndividualAddress(args[0])
        if kind == "ga":
            return GroupAddress(args[0])
        if kind == "galist":
            return [GroupAddress(r) for r in args[0]]
        if kind == "dptbinary":
            return DPTBinary(args[0])
        if kind == "dptarray":
            return DPTArray(tuple(bytes(args[0])))
        if kind == "dptarray-ints":
            return DPTArray(tuple(args[0]))
        if kind == "scf":
            tool, alg, sbc, svc = args
            return SecurityControlField(tool_access=bool(tool), algorithm=SecurityAlgorithmIdentifier(alg),
                                        system_broadcast=bool(sbc), service=SecurityALService(svc))
        if kind == "securedata":
            return SecureData(sequence_number_bytes=bytes(args[0]), secured_apdu=bytes(args[1]), message_authentication_code=bytes(args[2]))
        raise HarnessError(f"unknown value spec {spec!r}")
    if isinstance(spec, bytearray):
        return bytes(spec)
    return spec


def wire_width(cls_name: str, fname: str) -> int | None:
    s = T.BY_NAME.get(cls_name)
    if s is None:
        return None
    want = _ALIAS.get(fname, fname)
    w = None
    for lay in s.layouts:
        for f in lay.fields:
            if f.name == want:
                w = f.bits
    if w is not None and fname == "address" and any(f.name == "address_ext" for lay in s.layouts for f in lay.fields):
        w += 4  # A_UserMemory_*: 4 bit address extension + 16 bit address
    return w


def field_values(cls: type, f: dataclasses.Field, rng: random.Random) -> list[tuple[object, bool]]:
    """[(value spec, non-trivial?)] for one field."""
    t = f.type if isinstance(f.type, str) else getattr(f.type, "__name__", str(f.type))
    out: list[tuple[object, bool]] = []
    optional = t.endswith("| None")
    base_t = t.replace(" | None", "")
    if base_t == "int":
        w = wire_width(cls.__name__, f.name) or 8
        out += [(v, v < 0 or v >= (1 << w) - 1) for v in INT_VALUES]
    elif base_t == "bool":
        out += [(False, True), (True, True)]
    elif base_t == "bytes":
        for n in BYTES_LENGTHS:
            out.append((rng.randbytes(n), True))
            if n in (0, 1, 2, 4, 6, 16):
                out.append((bytes(n), True))
    elif base_t == "ReturnCode":
        out += [(["enum", "ReturnCode", m.value], True) for m in A.ReturnCode]
    elif base_t == "IndividualAddress":
        out += [(["ia", r], True) for r in (0, 1, 0x1101, 0xFFFF, rng.getrandbits(16))]
    elif base_t == "GroupAddress":
        out += [(["ga", r], True) for r in (0, 1, 0x0901, 0xFFFF, rng.getrandbits(16))]
    elif base_t == "list[GroupAddress]":
        out += [(["galist", [rng.getrandbits(16) for _ in range(n)]], True) for n in range(0, 9)]
    elif base_t == "DPTBinary | DPTArray":
        out += [(["dptbinary", v], True) for v in (0, 1, 31, 32, 63, 64, -1)]
        out += [(["dptarray", rng.randbytes(n)], True) for n in BYTES_LENGTHS]
        out += [(["dptarray", bytes(n)], True) for n in (0, 1, 2)]
        out += [(["dptarray-ints", [256]], True), (["dptarray-ints", [-1, 0]], True)]
    elif base_t == "SecurityControlField":
        out += [(["scf", t_, a, s, v], True) for t_ in (0, 1) for a in (0, 1) for s in (0, 1) for v in (0, 2, 3)]
    elif base_t == "SecureData":
        out += [(["securedata", rng.randbytes(6), rng.randbytes(n), rng.randbytes(4)], True) for n in range(0, 21)]
        out += [(["securedata", rng.randbytes(sl), b"\x01", rng.randbytes(ml)], True) for sl, ml in ((0, 4), (5, 4), (7, 4), (6, 0), (6, 3), (6, 5))]
    else:
        raise HarnessError(f"{cls.__name__}.{f.name}: no sweep for field type {t!r}")
    if optional:
        out.append((None, True))
    return out


def auto_fields(cls: type) -> list[str]:
    """int fields derived in __post_init__ when left None (count / number)."""
    return [f.name for f in dataclasses.fields(cls) if f.default is None and f.type == "int"]


# -- bases --------------------------------------------------------------------------------


def base_apdus(cls_name: str, seed: int) -> list[bytes | None]:
    s = T.BY_NAME.get(cls_name)
    if s is None or not s.recognised:
        return [None]
    rng = random.Random(seed * 977 + sum(cls_name.encode()))
    out: list[bytes | None] = [T.witness(s, 0), T.witness(s, 1)]
    for lay in s.layouts:
        for _ in range(3):
            vals = {f.name: (f.valid[rng.randrange(len(f.valid))] if f.valid else rng.getrandbits(f.bits)) for f in lay.fields if f.name != T.R}
            dep = T.dep_field(lay)
            tails = s.tail_lengths(lay)
            if dep is not None:
                n = rng.choice([1, 2, 3, 5])
                vals[dep[0]] = n
                tl = n * dep[1]
            else:
                tl = rng.choice([t for t in tails if t <= 12] or tails[:1])
            out.append(T.build(s, lay, vals, rng.randbytes(tl), 0))
    return out


def make_base(cls: type, apdu: bytes | None):
    """Base object, or None if the decoder does not turn the table-valid APDU into this
    class (that is C04's / C05's business, not a verdict here)."""
    if apdu is None:
        return cls()
    try:
        o = A.APCI.from_knx(bytes(apdu))
    except Exception:  # noqa: BLE001
        return None
    return o if type(o) is cls else None


# -- oracle -------------------------------------------------------------------------------


def check_case(ctx, case: dict) -> str:
    """case = {cls, field, base (APDU or None), value (spec), derive (auto fields reset to None)}."""
    cls = CLASSES[case["cls"]]
    fname = case["field"]
    key = f"{cls.__name__}.{fname}"
    base = make_base(cls, case.get("base"))
    if base is None:
        return "base-unavailable"
    try:
        changes = {fname: materialise(case["value"])} if fname != "*" else {}
        for a in case.get("derive") or ():
            if a != fname:
                changes[a] = None
        o = dataclasses.replace(base, **changes)
    except Exception as e:  # noqa: BLE001 - constructor refusal
        return f"refused-ctor:{type(e).__name__}"
    try:
        raw = o.to_knx()
    except Exception as e:  # noqa: BLE001 - encoder refusal
        return f"refused:{type(e).__name__}"
    try:
        o2 = A.APCI.from_knx(bytes(raw))
    except Exception as e:  # noqa: BLE001
        ctx.fail(f"C06:undecodable:{key}", case, f"{o!r}.to_knx() = {bytes(raw).hex()} which the decoder rejects: {e!r} [{exc_site(e)}]")
        return "undecodable"
    if type(o2) is o.__class__ and o2 == o:
        return "roundtrip"
    if struct_eq(o2, o):
        # field-wise identical but `==` is False: some member type defines no __eq__, so no
        # object of this class ever equals its decoded copy - one root cause per class
        ctx.fail(f"C06:neq:{cls.__name__}.*", case,
                 f"{o!r}.to_knx() = {bytes(raw).hex()} decodes to a field-wise identical object that does not compare equal "
                 f"(member without __eq__: {no_eq_members(o)})")
        return "neq-identity"
    ctx.fail(f"C06:neq:{key}", case, f"{o!r}.to_knx() = {bytes(raw).hex()} decodes to {describe(o2)} (sent {describe(o)})")
    return "neq"


def _members(x) -> list[str] | None:
    if dataclasses.is_dataclass(x) and not isinstance(x, type):
        return [f.name for f in dataclasses.fields(x)]
    if (type(x).__eq__ is object.__eq__ and not isinstance(x, (int, str, bytes, enum.Enum, type))
            and type(x).__module__.startswith("xknx.")):
        slots = getattr(type(x), "__slots__", None)
        return list(slots) if slots else (list(vars(x)) if hasattr(x, "__dict__") else [])
    return None


def struct_eq(a, b) -> bool:
    """Field-wise equality that looks through classes lacking __eq__ (identity compare)."""
    if type(a) is not type(b):
        return False
    m = _members(a)
    if m is not None:
        return all(struct_eq(getattr(a, n), getattr(b, n)) for n in m)
    if isinstance(a, (list, tuple)):
        return len(a) == len(b) and all(struct_eq(x, y) for x, y in zip(a, b))
    return a == b


def no_eq_members(o) -> list[str]:
    return sorted({type(getattr(o, n)).__name__ for n in (_members(o) or []) if _members(getattr(o, n)) is not None and not dataclasses.is_dataclass(getattr(o, n))})


def describe(x) -> str:
    m = _members(x)
    if m is None:
        return repr(x)
    return f"{type(x).__name__}({', '.join(f'{n}={describe(getattr(x, n))}' for n in m)})"


def cases_for(cls: type, seed: int):
    """Yield (case, nontrivial) for every field of the class; first the untouched bases."""
    # table-valid APDUs the decoder does not map to this class (e.g. the 14-octet
    # A_DeviceDescriptor_Response) cannot serve as starting points
    bases = [b for b in base_apdus(cls.__name__, seed) if make_base(cls, b) is not None]
    if not bases:
        return
    rng = random.Random(seed * 131 + sum(cls.__name__.encode()))
    autos = auto_fields(cls)
    for b in bases:
        yield {"cls": cls.__name__, "field": "*", "base": b, "value": None}, True
    for f in dataclasses.fields(cls):
        vals = field_values(cls, f, rng)
        is_bytes = "bytes" in str(f.type)
        for i, (spec, non) in enumerate(vals):
            # two bases per value: a fixed one (so every value meets the same object) and a rotating one
            for b in {id(x): x for x in (bases[1 if len(bases) > 1 else 0], bases[i % len(bases)])}.values():
                derive_opts = [[], autos] if (autos and is_bytes) else [[]]
                for derive in derive_opts:
                    yield {"cls": cls.__name__, "field": f.name, "base": b, "value": spec, "derive": derive}, non


def sweep_class(ctx, cls: type) -> None:
    base_bad = False
    n_all = len(base_apdus(cls.__name__, ctx.seed))
    n_ok = sum(make_base(cls, b) is not None for b in base_apdus(cls.__name__, ctx.seed))
    if n_ok < n_all:
        ctx.classes["base-apdu-not-decoded-to-class"] += n_all - n_ok
    if not n_ok:
        # not a verdict of this property (decoding is C04/C05); keep the loss of coverage visible
        ctx.notes["classes_without_base"] = (ctx.notes.get("classes_without_base", "") + " " + cls.__name__).strip()
    for case, non in cases_for(cls, ctx.seed):
        if case["field"] == "*":
            out = check_case(ctx, case)
            ctx.case(("base", cls.__name__, case["base"]), True, cls=("base", f"outcome:{out.split(':')[0]}"))
            if out in ("neq", "undecodable"):
                base_bad = True  # "neq-identity" is not: field sweeps continue under field-wise equality
            continue
        if base_bad:
            return
        out = check_case(ctx, case)
        labels = [f"outcome:{out.split(':')[0]}"]
        if out.startswith("refused"):
            labels.append(out)
        if non and isinstance(case["value"], int) and not isinstance(case["value"], bool):
            labels.append("int-at-or-beyond-width")
        elif isinstance(case["value"], (bytes, bytearray)):
            labels.append("bytes-len-0" if not case["value"] else "bytes")
        ctx.case((case["cls"], case["field"], case["base"], repr(case["value"]), tuple(case["derive"])), non, cls=labels)
        if out == "roundtrip" and non and isinstance(case["value"], int):
            ctx.sample({"cls": case["cls"], "field": case["field"], "value": case["value"], "outcome": out})


# -- Hypothesis: arbitrary values between the boundaries ----------------------------------


def _hyp_cases(seed: int):
    targets = []
    for cls in CLASSES.values():
        for f in dataclasses.fields(cls):
            t = str(f.type).replace(" | None", "")
            if t in ("int", "bytes"):
                targets.append((cls.__name__, f.name, t))
    targets.sort()

    @st.composite
    def strat(draw):
        cname, fname, t = draw(st.sampled_from(targets))
        bases = base_apdus(cname, seed)
        b = draw(st.sampled_from(bases))
        if t == "int":
            v = draw(st.one_of(st.integers(-(2**33), 2**49), st.integers(-2, 70000), st.sampled_from(INT_VALUES)))
        else:
            v = draw(st.binary(max_size=40) | st.binary(min_size=250, max_size=260))
        derive = auto_fields(CLASSES[cname]) if draw(st.booleans()) else []
        return {"cls": cname, "field": fname, "base": b, "value": v, "derive": derive}

    return strat()


def hyp_oracle(ctx, case: dict) -> None:
    cls = CLASSES[case["cls"]]
    # a class whose base object does not round-trip is already reported by the sweep
    if check_case(ctx.sub(0), {"cls": case["cls"], "field": "*", "base": case["base"], "value": None}) not in ("roundtrip", "neq-identity"):
        ctx.classes["hyp:base-does-not-roundtrip"] += 1
        return
    out = check_case(ctx, case)
    v = case["value"]
    w = wire_width(cls.__name__, case["field"]) or 8
    non = (v < 0 or v >= (1 << w) - 1) if isinstance(v, int) else True
    ctx.case(("hyp", case["cls"], case["field"], case["base"], repr(v), tuple(case["derive"])), non, cls=("hyp", f"outcome:{out.split(':')[0]}"))


# ------------------------------------------------------------------------------------------


def selftest(ctx) -> None:
    T.selftest()
    assert -1 in INT_VALUES and 2**32 in INT_VALUES and 63 in INT_VALUES and 64 in INT_VALUES and 65 in INT_VALUES and 2**48 + 1 in INT_VALUES
    assert wire_width("ADCRead", "channel") == 6 and wire_width("PropertyValueRead", "start_index") == 12
    assert wire_width("UserMemoryRead", "address") == 20 and wire_width("FilterTableRead", "filter_table_address") == 16
    assert materialise(["ia", 0x1101]) == IndividualAddress("1.1.1") and materialise(b"\x01") == b"\x01"
    missing = sorted(set(CLASSES) - set(T.BY_NAME))
    if missing:
        raise HarnessError(f"service classes without a reference layout (add them to vk/ref/apci_layout.py): {missing}")


def run(ctx) -> None:
    for cls in CLASSES.values():
        sweep_class(ctx, cls)
    ctx.notes["classes_walked"] = len(CLASSES)
    ctx.notes["fields_swept"] = sum(len(dataclasses.fields(c)) for c in CLASSES.values())
    hyp_search(ctx, _hyp_cases(ctx.seed), hyp_oracle, ctx.n(4000, 60000))


def replay(ctx, case) -> None:
    if not isinstance(case, dict) or case.get("cls") not in CLASSES:
        return
    check_case(ctx, case)
