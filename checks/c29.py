"""C29 - a secure session only accepts fresh wrapped frames and never sends plain ones.

The real `SecureSession` (xknx/io/ip_secure.py) runs on the virtual-time loop over a fake
TCP transport. The server side of the handshake is played by the check itself with the
independent reference `vk/ref/ipsecure.py` (pure-Python X25519, CBC-MAC/CTR built by
hand): SessionResponse (with or without device authentication), wrapped SessionStatus,
and then a generated history of frames: genuine wrappers (next / skipped / same / old
sequence numbers), forged ones (MAC, ciphertext, sequence field, session id, key), plain
frames of every service type, nested wrappers, wrapped remote-diagnosis services,
SessionResponse before / after initialisation, wrapped SessionStatus frames of every
status code from the server at any point (CLOSE / TIMEOUT / UNAUTHENTICATED make the
client close the transport) followed by further frames in the same TCP chunk, in the next
loop iteration and later - interleaved with client sends, 50 s idle periods (keepalive),
stop and reconnect.

Oracle (event log of the fake transport + a catch-all callback on the session):
  receive: a wrapped frame is passed on (exactly once, with the decrypted content) iff it
    was built with the session key and id, is not tampered, carries an allowed, parseable
    service and its sequence number is greater than that of the last frame passed on;
    everything else is dropped and must not change what is accepted later; plain frames
    are never passed on, except a SessionResponse before authentication;
  send: every frame the client writes is either a plain SessionRequest before the
    handshake or a SecureWrapper that the reference unwraps with the session key / id,
    with strictly increasing sequence numbers per session.
"""

from __future__ import annotations

import asyncio
from functools import lru_cache
from unittest.mock import patch

from hypothesis import strategies as st

from vk.core import HarnessError, exc_site
from vk.engine import hyp_search, parallel
from vk.ref import ipsecure as ref
from vk.strategies import secureio
from vk.vloop import BudgetExceeded, Deadlock, run_case

PROPERTY = "C29"
LEVEL = "exploration"
TECHNIQUE = "stateful model-based histories (Hypothesis) against the real SecureSession on a virtual-time loop; server side and all frames built with an independent IP-Secure reference; freshness model + wire-log oracle"
RULE = (
    "history = handshake (connect, SessionResponse, wrapped SessionStatus) with generated noise before / inside / after it, then up to 14 ops: wrapped frame (inner service from a catalogue of all service types, nested wrapper, remote diagnosis; "
    "several frames coalesced into one TCP chunk (in particular a server-side SessionStatus of any code followed by plain / wrapped frames, which are still handled before connection_lost runs), "
    "sequence mode next/skip/same/old/zero/big/max; flaw none/MAC/ciphertext/sequence field/session id (wrapped for another id, or id field overwritten)/key), plain frame of any service, client send, idle 51..61 s, stop, reconnect; optionally the send counter is set to a generated start value (2^48-1-k, around the 2^8..2^40 octet boundaries) before a run of sends / idle periods / stop; "
    "non-trivial = session initialised and at least one wrapped frame that must be rejected (replayed/old number, forged, forbidden or plain) was delivered after initialisation together with at least one that must be accepted; distinct by history"
)
LEVEL_TEXT = "Generated receive/send histories around the handshake are run against the real SecureSession in virtual time; the frames handed to callbacks and the bytes written to the transport are compared with a freshness model and with the independent reference implementation of the wrapper. Sampled, not exhaustive."
LEVEL_NOTE = "Frames are built by vk/ref/ipsecure.py (validated against AN159 vectors); the MAC/CTR algorithm itself is judged by C28; single TCP connection per session epoch, virtual time."
ASSUMPTIONS = [
    "server side (X25519, PBKDF2, wrapper, MACs) played by the independent reference vk/ref/ipsecure.py; the cryptographic construction itself is judged by C28, here only acceptance / freshness / wrapping logic",
    "generate_ecdh_key_pair is patched to draw the client key from a fixed pool (one fresh key per connect) and the PBKDF2 derivations in xknx.io.ip_secure are memoised (same function, cached) so that a case is a pure function of its data and cheap",
    "an authenticated wrapper whose inner frame xknx cannot parse (unknown service) may or may not advance the counter: the model keeps both possibilities",
    "a plain SessionResponse between initialisation and successful authentication may be passed on or dropped (statement: 'before authentication'); after authentication it must be dropped",
    "exceptions raised by the receive path (a SecureWrapper before the session is initialised raises CouldNotParseKNXIP out of data_received) are counted in the evidence notes, not judged: C29 does not state a no-raise clause",
    "callback frames are compared through KNXIPFrame.to_knx() (codec judged by C20/C21)",
    "the start value of the send counter is injected after the handshake (session._sequence_number set to a generated value >= its current value: 2^48-1-k, octet boundaries 2^8..2^40 +-2; 0 mostly) because 2^48 frames cannot be generated; the verdict still comes from the wire only. A send the library refuses (IPSecureError / CommunicationError to the caller of send()/stop(), or IPSecureError ending the keepalive task) with nothing on the wire is not a violation",
    "after the server ended the session (accepted wrapped SessionStatus CLOSE / TIMEOUT / UNAUTHENTICATED after authentication) the rest of the chunk is still handled: nothing plain may be passed on (authentication has happened), wrapped frames only if genuine and fresh; that they must still be passed on is not demanded. Frames behind a frame that made data_received raise are not demanded either",
    "after transport.close() no further data_received call reaches the client (as with real asyncio transports): frames following a server-side close in a later loop iteration are generated but not delivered",
]

GW = ("10.0.0.1", 3671)
SERVER_SERIAL = bytes.fromhex("00fa12345678")
PASSWORDS = ["secret", "user-pw-2"]
DEVICE_PASSWORDS = [None, "trustme", "device-pw-2"]
CLIENT_PRIV = [bytes([0x11 + i]) * 32 for i in range(6)]
SERVER_PRIV = [bytes([0x71 + i]) * 32 for i in range(3)]
MAX_SEQ = 2**48 - 1

STATUS = {"status_ok": 0, "status_fail": 1, "status_unauth": 2, "status_timeout": 3, "status_keepalive": 4, "status_close": 5}


def status_frame(code: int) -> bytes:
    return bytes.fromhex("061009540008") + bytes((code, 0))


# -- cached crypto ------------------------------------------------------------


@lru_cache(maxsize=None)
def _server_pub(i: int) -> bytes:
    return ref.x25519_public(SERVER_PRIV[i])


@lru_cache(maxsize=None)
def _session_key(i: int, client_pub: bytes) -> bytes:
    return ref.session_key(SERVER_PRIV[i], client_pub)


@lru_cache(maxsize=None)
def _dev_code(pw: str) -> bytes:
    return ref.derive_device_authentication_code(pw)


_PBKDF: dict = {}


def _memo(fn):
    def wrapper(pw):
        k = (fn.__name__, pw)
        if k not in _PBKDF:
            _PBKDF[k] = fn(pw)
        return _PBKDF[k]

    return wrapper


def _client_keypair(i: int):
    from cryptography.hazmat.primitives.asymmetric.x25519 import X25519PrivateKey

    priv = X25519PrivateKey.from_private_bytes(CLIENT_PRIV[i % len(CLIENT_PRIV)])
    return priv, priv.public_key().public_bytes_raw()


def inner_frame(name: str):
    """(service code, bytes, parseable) of an inner / plain frame by name."""
    if name in STATUS:
        return 0x0954, status_frame(STATUS[name]), True
    if name == "truncated":
        return 0x0420, bytes.fromhex("06100420000a0401"), False
    return secureio.catalogue()[name]


# ---------------------------------------------------------------------------
# execution


def execute(case):
    from xknx.exceptions import CommunicationError, IPSecureError
    from xknx.io import ip_secure as mod
    from xknx.knxip import KNXIPFrame
    from xknx.secure import security_primitives as sp

    events: list[tuple] = []
    frames: list[dict] = []  # meta of every frame the server tried to deliver
    cur = [None]
    cat = secureio.catalogue()
    srv = {"epoch": 0, "tr": None, "client_pub": None, "key": None, "seq": -1, "last": None}
    sid = int(case.get("sid", 1))
    skey = int(case.get("skey", 0)) % len(SERVER_PRIV)
    dev_pw = DEVICE_PASSWORDS[int(case.get("dev", 0)) % len(DEVICE_PASSWORDS)]
    user_pw = PASSWORDS[int(case.get("user", 0)) % len(PASSWORDS)]
    kidx = [int(case.get("ckey", 0))]

    def gen_keys():
        kp = _client_keypair(kidx[0])
        kidx[0] += 1
        return kp

    class Net:
        def on_stream_open(self, tr):
            srv.update(epoch=srv["epoch"] + 1, tr=tr, client_pub=None, key=None, seq=-1, last=None)
            events.append(("open", srv["epoch"], tr.loop.time()))
            return 0

        def on_stream_data(self, tr, data):
            events.append(("tx", srv["epoch"], data, tr.loop.time()))
            if len(data) == 0x2E and data[:6] == bytes.fromhex("06100951002e") and srv["client_pub"] is None:
                srv["client_pub"] = data[14:46]
                srv["key"] = _session_key(skey, srv["client_pub"])

        def on_transport_closed(self, tr):
            events.append(("closed", srv["epoch"], tr.loop.time()))

    async def scenario(loop):
        loop.net = Net()
        class _Recording(mod.SecureSession):
            """Real session; only notes which received frame is being handled (to attribute callbacks inside a chunk)."""

            __slots__ = ()

            def handle_knxipframe(self, knxipframe, source):
                hk[0] += 1
                hk[1] = knxipframe.to_knx()
                return super().handle_knxipframe(knxipframe, source)

        hk = [0, b""]
        session = _Recording(remote_addr=GW, user_id=int(case.get("user_id", 2)), user_password=user_pw, device_authentication_password=dev_pw, connection_lost_cb=lambda: events.append(("lost", srv["epoch"])))
        session.register_callback(lambda f, src, tr: events.append(("cb", cur[0], f.header.service_type_ident.value, f.to_knx(), hk[0], hk[1])), None)
        connect_task = [None]

        def deliver(items: list) -> None:
            """Hand one TCP chunk (one or several complete frames) to the client in the next loop iteration."""
            tr = srv["tr"]
            items = [it for it in items if it is not None]
            if tr is None or tr.closed or not items:
                return
            ks = []
            for raw, meta in items:
                ks.append(len(frames))
                frames.append({**meta, "epoch": srv["epoch"], "raw": raw})
            chunk = b"".join(raw for raw, _ in items)

            def _do() -> None:
                if tr.closed:
                    return
                events.append(("rx", ks, loop.time()))
                cur[0] = ks[0]
                try:
                    tr.protocol.data_received(chunk)
                except Exception as e:  # noqa: BLE001
                    events.append(("rxexc", ks[0], exc_site(e), repr(e)))
                finally:
                    cur[0] = None

            loop.call_soon(_do)

        def build(op):
            """(raw, meta) of one server->client frame; op = [.., kind, args...] (op[0] ignored)."""
            kind = op[1]
            if kind == "resp":
                cp = srv["client_pub"] or bytes(32)
                sp_ = _server_pub(skey)
                mac = ref.session_response_mac(_dev_code(dev_pw), sid, cp, sp_) if dev_pw else bytes(16)
                if op[2] == "badmac":
                    mac = bytes([mac[0] ^ 1]) + mac[1:]
                raw = ref.header(ref.SESSION_RESPONSE_SERVICE, 0x38) + sid.to_bytes(2, "big") + sp_ + mac
                return raw, {"type": "plain", "name": "session_response", "code": 0x0952, "handshake": op[2]}
            if kind == "plain":
                code, raw, ok = inner_frame(op[2])
                return raw, {"type": "plain", "name": op[2], "code": code}
            if kind == "wrap":
                name, mode, flaw = op[2], op[3], op[4]
                key = srv["key"]
                if key is None:
                    key, flaw = bytes(range(16)), "key"
                if name == "nested":
                    code, ok = 0x0950, True
                    inner = ref.wrap(key, sid, (srv["seq"] + 1).to_bytes(6, "big"), SERVER_SERIAL, b"\x00\x00", cat["tunnelling_request"][1])
                else:
                    code, inner, ok = inner_frame(name)
                hi, last = srv["seq"], srv["last"]
                seq = {
                    "next": hi + 1,
                    "skip": hi + 3,
                    "same": max(hi, 0),
                    "old": max((last if last is not None else hi) - 2, 0),
                    "zero": 0,
                    "big": hi + 1000,
                    "max": MAX_SEQ,
                }[mode]
                seq = min(max(seq, 0), MAX_SEQ)
                use_sid, use_key = sid, key
                if flaw == "sid":
                    use_sid = (sid + 1) & 0xFFFF
                if flaw == "key":
                    use_key = bytes([key[0] ^ 1]) + key[1:]
                raw = bytearray(ref.wrap(use_key, use_sid, seq.to_bytes(6, "big"), SERVER_SERIAL, b"\x00\x00", inner))
                wire_seq = seq
                if flaw == "mac":
                    raw[-1] ^= 0x01
                elif flaw == "body":
                    raw[22] ^= 0x80
                elif flaw == "sidfield":
                    raw[6:8] = ((sid + 1) & 0xFFFF).to_bytes(2, "big")
                elif flaw == "seqfield":
                    wire_seq = min(seq + 5, MAX_SEQ) if seq < MAX_SEQ else seq - 1
                    raw[8:14] = wire_seq.to_bytes(6, "big")
                srv["seq"] = max(hi, wire_seq) if wire_seq < MAX_SEQ else hi
                if flaw == "none":
                    srv["last"] = seq
                return bytes(raw), {"type": "wrap", "name": name, "code": code, "inner": inner, "parseable": ok, "seq": wire_seq, "flaw": flaw, "mode": mode}
            raise HarnessError(f"not a receive op: {op}")

        def do(op) -> None:
            kind = op[1]
            if kind == "connect":
                if (connect_task[0] is None or connect_task[0].done()) and session.transport is None:
                    t = connect_task[0] = loop.create_task(session.connect())

                    def _done(task, ep=srv["epoch"] + 1):
                        if task.cancelled():
                            events.append(("connect", ep, "cancelled"))
                        elif task.exception() is not None:
                            e = task.exception()
                            events.append(("connect", ep, type(e).__name__, exc_site(e)))
                        else:
                            events.append(("connect", ep, "ok"))

                    t.add_done_callback(_done)
            elif kind in ("resp", "plain", "wrap"):
                if srv["tr"] is not None and not srv["tr"].closed:
                    deliver([build(op)])
            elif kind == "chunk":
                # several frames in ONE data_received call (TCP coalescing): what follows a frame that makes
                # the client close the transport is still parsed and handled before connection_lost runs
                if srv["tr"] is not None and not srv["tr"].closed:
                    deliver([build([0, *sub]) for sub in op[2]])
            elif kind == "send":
                code, raw, ok = inner_frame(op[2])
                frame, _ = KNXIPFrame.from_knx(raw)
                try:
                    session.send(frame)
                    events.append(("send", op[2], "ok"))
                except (IPSecureError, CommunicationError) as e:
                    events.append(("send", op[2], type(e).__name__))
                except Exception as e:  # noqa: BLE001
                    events.append(("sendexc", op[2], exc_site(e), repr(e)))
            elif kind == "stop":
                try:
                    session.stop()
                    events.append(("stop",))
                except (IPSecureError, CommunicationError) as e:
                    events.append(("stop-refused", type(e).__name__, exc_site(e)))
                except Exception as e:  # noqa: BLE001
                    events.append(("stopexc", exc_site(e), repr(e)))
            elif kind == "setseq":
                # start value of the send counter, injected (2^48 frames cannot be generated); never lowered
                if session.initialized and hasattr(session, "_sequence_number"):
                    v = max(int(op[2]), session._sequence_number)
                    session._sequence_number = v
                    events.append(("setseq", v))
            else:
                raise HarnessError(f"unknown op {op}")

        for op in case["ops"]:
            if op[0] > 0:
                await asyncio.sleep(op[0] / 1000.0)
            do(op)
        await asyncio.sleep(float(case.get("tail", 12.0)))
        try:
            session.stop()
        except (IPSecureError, CommunicationError) as e:
            events.append(("stop-refused", type(e).__name__, exc_site(e)))
        except Exception as e:  # noqa: BLE001
            events.append(("stopexc", exc_site(e), repr(e)))
        if connect_task[0] is not None and not connect_task[0].done():
            connect_task[0].cancel()
        await asyncio.sleep(0.01)
        return None

    with (
        patch.object(mod, "generate_ecdh_key_pair", gen_keys),
        patch.object(mod, "derive_user_password", _memo(sp.derive_user_password)),
        patch.object(mod, "derive_device_authentication_password", _memo(sp.derive_device_authentication_password)),
    ):
        _, loop = run_case(scenario, max_iters=400_000)
    return events, frames, loop.escaped, {"sid": sid, "skey": skey}


# ---------------------------------------------------------------------------
# oracle


def _why(m, cands, foreign=False) -> str:
    if foreign:
        return "wrong-key"
    if m["flaw"] != "none":
        return {"mac": "forged-mac", "body": "tampered-ciphertext", "seqfield": "tampered-sequence-field", "sid": "wrong-session-id", "sidfield": "tampered-session-id-field", "key": "wrong-key"}[m["flaw"]]
    if m["code"] in secureio.FORBIDDEN_WRAPPED:
        return "nested-wrapper" if m["code"] == 0x0950 else f"forbidden-service-{m['code']:04x}"
    if not m["parseable"]:
        return "unparseable-inner"
    if any(m["seq"] == l for l in cands):
        return "replayed-sequence-number"
    return "old-sequence-number"


def _judge_frame(ctx, inp, info, st_, m, got, raised: bool, in_chunk: bool) -> None:
    """Verdict for one delivered frame given the callbacks attributed to it; updates the epoch model."""
    e_ = st_.get(m["epoch"])
    if e_ is None:
        raise HarnessError("frame delivered without connection")
    n = len(got)
    if e_["srv_closed"]:
        info["after_server_close"] += 1
    if m["type"] == "plain":
        if m["code"] == 0x0952 and not e_["auth"]:
            if n > 1:
                ctx.fail("C29:passed-on:twice", inp, f"plain SessionResponse handed to the callback {n} times")
            if n and not e_["init"]:
                # the client uses the last SessionResponse it got before it resumed; if that is not the
                # simulator's own, the session key is unknown to the oracle ("foreign" epoch)
                e_["foreign"] = m.get("handshake") is None
            return
        if n:
            why = "session-response-after-authentication" if m["code"] == 0x0952 else f"{m['code']:04x}"
            ctx.fail(f"C29:accepted:plain:{why}", inp, f"plain frame {m['name']} ({m['raw'].hex()}) passed on (initialised={e_['init']}, authenticated={e_['auth']})")
        if e_["init"]:
            info["must_reject"] += 1
        return
    # wrapped
    authentic = m["flaw"] == "none" and e_["init"] and e_["key"] is not None and not e_["foreign"]
    allowed = m["parseable"] and m["code"] not in secureio.FORBIDDEN_WRAPPED
    cands = e_["cands"]
    fresh = {m["seq"] > l for l in cands}
    if not e_["init"]:
        if n:
            ctx.fail("C29:accepted:wrapped-before-initialisation", inp, f"wrapped {m['name']} passed on before the session key exists")
        return
    if not authentic or not allowed or fresh == {False}:
        info["must_reject"] += 1
        if n:
            ctx.fail(f"C29:accepted:{_why(m, cands, e_['foreign'])}", inp, f"wrapped {m['name']} seq={m['seq']} flaw={m['flaw']} passed on; last accepted sequence number(s) {sorted(cands)}")
            if authentic and allowed:
                e_["cands"] = {m["seq"]}
        elif authentic and not m["parseable"] and True in fresh and m["code"] not in secureio.FORBIDDEN_WRAPPED:
            e_["cands"] = cands | {m["seq"]}  # may or may not have advanced
        e_["rejected_hi"] = m["seq"] if e_["rejected_hi"] is None else max(e_["rejected_hi"], m["seq"])
        return
    if fresh == {True}:
        info["must_accept"] += 1
        if n == 0 and ((raised and in_chunk) or e_["srv_closed"]):
            # not stated: frames behind a raising frame in the same chunk were never looked at; after the server
            # ended the session (accepted CLOSE / TIMEOUT / UNAUTHENTICATED) nothing has to be passed on any more
            return
        if n != 1:
            after = e_["rejected_hi"] is not None and e_["rejected_hi"] >= m["seq"]
            ctx.fail(
                "C29:dropped:fresh-frame:after-rejected-frame" if (n == 0 and after) else ("C29:dropped:fresh-frame" if n == 0 else "C29:passed-on:twice"),
                inp,
                f"genuine wrapped {m['name']} seq={m['seq']} (last accepted {sorted(cands)}, highest rejected {e_['rejected_hi']}) handed to the callback {n} times",
            )
            if n == 0:
                return
        e_["cands"] = {m["seq"]}
    else:  # depends on the unparseable-inner ambiguity
        if n:
            e_["cands"] = {m["seq"]}
        else:
            e_["cands"] = {l for l in cands if not m["seq"] > l}
    if n:
        if got[0][3] != m["inner"]:
            ctx.fail("C29:passed-on:content", inp, f"callback got {got[0][3].hex()} for wrapped {m['inner'].hex()}")
        if m["inner"] == status_frame(0):
            e_["auth"] = True
            info["auth"] = True
        elif e_["auth"] and m["inner"] in (status_frame(2), status_frame(3), status_frame(5)):
            e_["srv_closed"] = True
            info["srv_closed"] = True


def judge(ctx, case, events, frames, escaped, cfg) -> dict:
    inp = case
    info = {"init": False, "auth": False, "must_reject": 0, "must_accept": 0, "keepalive": 0, "epochs": 0, "tx_wrapped": 0, "srv_closed": False, "after_server_close": 0}
    for e in escaped:
        exc = e["exception"]
        if type(exc).__name__ == "IPSecureError":
            # the keepalive task refusing to send (exhausted counter) ends with IPSecureError: a refused send, nothing on the wire
            ctx.notes["send_refused_in_keepalive_task"] = ctx.notes.get("send_refused_in_keepalive_task", 0) + 1
            continue
        ctx.fail(f"C29:escaped:{exc_site(exc) if exc is not None else e['message'][:40]}", inp, e["repr"] + " " + e["message"])
    sid = cfg["sid"]
    # group callbacks by delivered frame
    cbs: dict[int, list[tuple]] = {}
    for ev in events:
        if ev[0] == "cb":
            if ev[1] is None:
                ctx.fail("C29:callback-outside-receive", inp, f"callback for service {ev[2]:#06x} outside any delivered frame")
            else:
                cbs.setdefault(ev[1], []).append(ev)
    # per epoch state
    ep = None
    st_ = {}

    def new_epoch(n):
        return {"n": n, "client_pub": None, "key": None, "init": False, "auth": False, "cands": {-1}, "tx_last": None, "rejected_hi": None, "foreign": False, "srv_closed": False}

    for ev in events:
        kind = ev[0]
        if kind == "open":
            ep = st_[ev[1]] = new_epoch(ev[1])
            info["epochs"] += 1
        elif kind == "rxexc":
            key = f"receive_raised:{ev[2]}"
            ctx.notes[key] = ctx.notes.get(key, 0) + 1
        elif kind == "stop-refused":
            ctx.notes["stop_refused:" + ev[1]] = ctx.notes.get("stop_refused:" + ev[1], 0) + 1
        elif kind == "setseq":
            info["setseq"] = max(info.get("setseq", 0), ev[1])
        elif kind in ("sendexc", "stopexc"):
            ctx.fail(f"C29:{kind}:{ev[-2]}", inp, ev[-1])
        elif kind == "tx":
            if ep is None:
                ctx.fail("C29:sent:without-connection", inp, ev[2].hex())
                continue
            data = ev[2]
            if len(data) < 6 or data[:2] != b"\x06\x10" or int.from_bytes(data[4:6], "big") != len(data):
                ctx.fail("C29:sent:not-one-frame-per-write", inp, f"write of {data.hex()}")
                continue
            service = int.from_bytes(data[2:4], "big")
            if service == 0x0950:
                if not ep["init"]:
                    ep["init"] = True
                    info["init"] = True
                if ep["key"] is None:
                    ctx.fail("C29:sent:wrapper-before-session-request", inp, data.hex())
                    continue
                info["tx_wrapped"] += 1
                if ep["foreign"]:
                    continue
                try:
                    plain = ref.unwrap(ep["key"], data, sid)
                except ref.RefError as e:
                    ctx.fail("C29:sent:not-correctly-wrapped", inp, f"reference cannot unwrap {data.hex()} with the session key / id {sid}: {e}")
                    continue
                if plain == status_frame(4):
                    info["keepalive"] += 1
                seq = int.from_bytes(data[8:14], "big")
                if ep["tx_last"] is not None and not seq > ep["tx_last"]:
                    ctx.fail("C29:sent:sequence-not-increasing", inp, f"wrapper with sequence {seq} written after {ep['tx_last']}")
                ep["tx_last"] = seq if ep["tx_last"] is None else max(seq, ep["tx_last"])
            else:
                if service != 0x0951:
                    ctx.fail(f"C29:sent:plain:{service:04x}", inp, f"plain frame written: {data.hex()} (session initialised: {ep['init']})")
                elif ep["init"]:
                    ctx.fail("C29:sent:plain-session-request-after-handshake", inp, data.hex())
                elif len(data) == 0x2E and ep["client_pub"] is None:
                    ep["client_pub"] = data[14:46]
                    ep["key"] = _session_key(cfg["skey"], ep["client_pub"])
        elif kind == "rx":
            ks = ev[1]
            got_all = cbs.get(ks[0], [])
            raised = any(x[0] == "rxexc" and x[1] == ks[0] for x in events)
            # callbacks are grouped by the handle_knxipframe() call they happened in; the calls come in frame
            # order and see the frame as received, so each is given to the first not yet served identical frame
            per: dict[int, list] = {k: [] for k in ks}
            groups: dict[int, list] = {}
            for cb in got_all:
                groups.setdefault(cb[4], []).append(cb)
            ptr = 0
            for hid in sorted(groups):
                grp = groups[hid]
                j = next((i for i in range(ptr, len(ks)) if frames[ks[i]]["raw"] == grp[0][5]), None)
                if j is None:
                    ctx.fail("C29:passed-on:unknown-frame", inp, f"callback for a frame that was not delivered in this chunk: {grp[0][5].hex()}")
                    continue
                ptr = j + 1
                per[ks[j]].extend(grp)
            for k in ks:
                _judge_frame(ctx, inp, info, st_, frames[k], per[k], raised, len(ks) > 1)
    return info


def check_case(ctx, case):
    try:
        events, frames, escaped, cfg = execute(case)
    except (BudgetExceeded, Deadlock):
        ctx.notes["inconclusive"] = ctx.notes.get("inconclusive", 0) + 1
        return None
    except HarnessError:
        raise
    except Exception as e:  # noqa: BLE001
        ctx.fail(f"C29:scenario-exc:{exc_site(e)}", case, repr(e))
        return None
    return judge(ctx, case, events, frames, escaped, cfg)


# ---------------------------------------------------------------------------
# generator

_CAT_NAMES = sorted(secureio.catalogue())
_INNER_COMMON = ["tunnelling_request", "tunnelling_ack", "connect_response", "connectionstate_response", "disconnect_response", "status_keepalive", "description_response", "tunnelling_feature_response"]
_INNER_FORBIDDEN = ["nested", "secure_wrapper_garbage", "remote_diag_request", "remote_diag_response", "remote_config_request", "remote_reset_request"]
_INNER_RARE = ["status_close", "status_unauth", "status_timeout", "status_fail", "status_ok", "session_response", "session_request", "session_authenticate", "truncated", "unknown_service_0999", "disconnect_request", "routing_indication", "timer_notify_zero_mac"]
_inner = st.one_of(st.sampled_from(_INNER_COMMON), st.sampled_from(_INNER_COMMON), st.sampled_from(_INNER_COMMON), st.sampled_from(_INNER_FORBIDDEN), st.sampled_from(_INNER_RARE), st.sampled_from(_CAT_NAMES))
_mode = st.sampled_from(["next", "next", "next", "skip", "same", "same", "old", "zero", "big", "max"])
_flaw = st.sampled_from(["none", "none", "none", "none", "none", "mac", "body", "seqfield", "sid", "sidfield", "key"])
_dt = st.sampled_from([0, 0, 0, 1, 5, 100, 1000, 30000, 51000, 61000])
_dt_short = st.sampled_from([0, 0, 1, 5, 100])
_SEND = ["connect_request", "tunnelling_request", "connectionstate_request", "disconnect_request", "session_request", "tunnelling_ack", "description_request"]


def _wrap_op(dt=_dt):
    return st.tuples(dt, st.just("wrap"), _inner, _mode, _flaw)


def _plain_op(dt=_dt):
    return st.tuples(dt, st.just("plain"), st.one_of(st.sampled_from(_CAT_NAMES), st.sampled_from(list(STATUS))))


def _send_op(dt=_dt):
    return st.tuples(dt, st.just("send"), st.sampled_from(_SEND))


def _resp_op(dt=_dt):
    return st.tuples(dt, st.just("resp"), st.sampled_from(["ok", "ok", "ok", "badmac"]))


_sub_wrap = st.tuples(st.just("wrap"), _inner, _mode, _flaw)
_sub_plain = st.tuples(st.just("plain"), st.one_of(st.sampled_from(_CAT_NAMES), st.sampled_from(list(STATUS)), st.just("session_response")))
_sub_resp = st.tuples(st.just("resp"), st.sampled_from(["ok", "ok", "badmac"]))
_sub_status = st.tuples(st.just("wrap"), st.sampled_from(list(STATUS)), st.sampled_from(["next", "next", "skip", "same"]), st.sampled_from(["none", "none", "none", "mac"]))


def _chunk_op(dt=_dt):
    """Several frames coalesced into one TCP chunk; biased to 'server status, then plain / wrapped frames'."""
    subs = st.lists(st.one_of(_sub_wrap, _sub_plain, _sub_resp, _sub_status), min_size=2, max_size=5)
    close_then = st.tuples(_sub_status, st.lists(st.one_of(_sub_plain, _sub_resp, _sub_resp, _sub_wrap), min_size=1, max_size=3)).map(lambda t: [t[0], *t[1]])
    return st.tuples(dt, st.just("chunk"), st.one_of(subs, close_then).map(lambda l: [list(x) for x in l]))


def _status_op(dt=_dt):
    return st.tuples(dt, st.just("wrap"), st.sampled_from(list(STATUS)), st.sampled_from(["next", "next", "skip"]), st.just("none"))


SEQ_STARTS = sorted({MAX_SEQ - k for k in range(0, 5)} | {2 ** (8 * b) + d for b in range(1, 6) for d in (-2, -1, 0, 1)})
_seq_start = st.one_of(st.sampled_from([MAX_SEQ - k for k in range(0, 4)]), st.sampled_from(SEQ_STARTS))


def _setseq_then_sends():
    """Inject the start value of the send counter, then exercise the send paths (requests, keepalive idle, stop)."""
    sends = st.lists(st.one_of(_send_op(_dt_short), _send_op(_dt_short), _send_op(st.sampled_from([51000, 61000])), _wrap_op(_dt_short)), min_size=1, max_size=6)
    return st.tuples(_seq_start, sends).map(lambda t: [(1, "setseq", t[0]), *t[1]])


def _noise(dt=_dt_short, n=3):
    return st.lists(st.one_of(_plain_op(dt), _plain_op(dt), _wrap_op(dt), _send_op(dt), _resp_op(dt)), max_size=n)


@st.composite
def histories(draw):
    ops: list = []
    ops += draw(_noise(n=2))
    ops.append((draw(_dt_short), "connect"))
    ops += draw(_noise(n=2))
    ops.append((draw(st.sampled_from([1, 5, 100])), "resp", "ok"))
    ops += draw(_noise(n=2))
    if draw(st.integers(0, 9)) > 0:
        ops.append((draw(st.sampled_from([1, 5, 100])), "wrap", "status_ok", "next", "none"))
    body = draw(st.lists(st.one_of(_wrap_op(), _wrap_op(), _wrap_op(), _plain_op(), _send_op(), _resp_op(), _chunk_op(), _chunk_op(), _status_op()), min_size=1, max_size=14))
    if draw(st.integers(0, 3)) == 0:  # send counter mostly starts at 0
        pos = draw(st.integers(0, len(body)))
        body[pos:pos] = draw(_setseq_then_sends())
    ops += body
    if draw(st.integers(0, 3)) == 0:
        ops.append((draw(_dt), "stop"))
        ops.append((draw(_dt_short), "connect"))
        ops.append((5, "resp", "ok"))
        ops.append((5, "wrap", "status_ok", "next", "none"))
        ops += draw(st.lists(st.one_of(_wrap_op(), _plain_op(), _send_op(), _chunk_op()), max_size=5))
    return {
        "user": draw(st.integers(0, 1)),
        "dev": draw(st.integers(0, 2)),
        "user_id": draw(st.sampled_from([1, 2, 127])),
        "sid": draw(st.sampled_from([1, 2, 0x1234, 0xFFFF])),
        "skey": draw(st.integers(0, 2)),
        "ckey": draw(st.integers(0, 3)),
        "tail": draw(st.sampled_from([1.0, 12.0, 61.0])),
        "ops": [list(o) for o in ops],
    }


def _labels(case, info) -> list[str]:
    cl = []
    ops = case["ops"]
    if info:
        cl.append("initialised" if info["init"] else "never-initialised")
        if info["auth"]:
            cl.append("authenticated")
        if info["keepalive"]:
            cl.append("keepalive-sent")
        if info["epochs"] > 1:
            cl.append("reconnect")
        if info.get("setseq"):
            cl.append("send-counter-start-injected")
            if info["setseq"] >= MAX_SEQ - 8:
                cl.append("send-counter-near-2^48")
        if info["srv_closed"]:
            cl.append("server-side-close-accepted")
        if info["after_server_close"]:
            cl.append("frames-handled-after-server-side-close")
    flat = []
    for o in ops:
        if o[1] == "chunk":
            cl.append("chunk(several frames in one data_received)")
            flat += [[0, *sub] for sub in o[2]]
        else:
            flat.append(o)
    for o in flat:
        if o[1] == "wrap":
            cl.append(f"flaw:{o[4]}")
            cl.append(f"seq:{o[3]}")
            if o[2] in _INNER_FORBIDDEN:
                cl.append("wrapped-forbidden-service")
        elif o[1] == "plain":
            cl.append("plain-frame")
    return sorted(set(cl))


def _hyp_oracle(ctx, case) -> None:
    info = check_case(ctx, case)
    nt = bool(info and info["init"] and info["must_reject"] and info["must_accept"])
    ctx.case(repr(case), nontrivial=nt, cls=_labels(case, info), sample=case["ops"] if len(case["ops"]) > 8 else None)


def _hyp_shard(ctx, n: int) -> None:
    hyp_search(ctx, histories(), _hyp_oracle, n)


HANDSHAKE = [[0, "connect"], [5, "resp", "ok"], [5, "wrap", "status_ok", "next", "none"]]


def _sweep_shard(ctx, part: int) -> None:
    """Every catalogue frame plain (before / inside / after the handshake) and wrapped (fresh and replayed) once."""
    names = _CAT_NAMES + list(STATUS) + ["nested", "truncated"]
    n = nt = 0
    for i, name in enumerate(names):
        if i % 4 != part:
            continue
        cases = []
        if name not in ("nested", "truncated"):
            cases.append([[0, "connect"], [1, "plain", name], [5, "resp", "ok"], [0, "plain", name], [5, "wrap", "status_ok", "next", "none"], [5, "plain", name], [5, "wrap", "tunnelling_request", "next", "none"]])
        for flaw in ("none", "mac"):
            cases.append(HANDSHAKE + [[5, "wrap", "tunnelling_request", "next", "none"], [5, "wrap", name, "next", flaw], [5, "wrap", name, "same", "none"], [5, "wrap", "tunnelling_ack", "same", "none"], [5, "wrap", "tunnelling_ack", "next", "none"]])
        for ops in cases:
            case = {"user": 0, "dev": i % 3, "user_id": 2, "sid": 1 + i, "skey": i % 3, "ckey": i, "tail": 1.0, "ops": ops}
            info = check_case(ctx, case)
            n += 1
            if info and info["init"] and info["must_reject"] and info["must_accept"]:
                nt += 1
    ctx.bulk(n, nt, "sweep:every-service-plain-and-wrapped")
    ctx.sample({"sweep": "connect, plain X, response, plain X, status, plain X / wrapped X fresh, forged, replayed", "part": part})
    # every server-side status code after authentication, followed by every plain frame / the genuine
    # SessionResponse / a genuine wrapped frame: in the same chunk, in the next loop iteration, 5 ms later
    followers = [["plain", nm] for nm in _CAT_NAMES + list(STATUS)] + [["resp", "ok"], ["wrap", "tunnelling_request", "next", "none"], ["wrap", "tunnelling_request", "same", "none"]]
    n = nt = 0
    for si, status in enumerate(STATUS):
        for fi, fol in enumerate(followers):
            if (si + fi) % 4 != part:
                continue
            for timing in ("chunk", "next-iteration", "later"):
                pre = HANDSHAKE + [[5, "wrap", "tunnelling_request", "next", "none"]]
                st_op = ["wrap", status, "next", "none"]
                if timing == "chunk":
                    ops = pre + [[5, "chunk", [st_op, fol, ["wrap", "tunnelling_ack", "next", "none"], ["resp", "ok"]]]]
                else:
                    ops = pre + [[5, *st_op], [0 if timing == "next-iteration" else 5, *fol], [0, "resp", "ok"]]
                case = {"user": 0, "dev": fi % 3, "user_id": 2, "sid": 1 + fi, "skey": si % 3, "ckey": fi, "tail": 1.0, "ops": ops}
                info = check_case(ctx, case)
                n += 1
                if info and info["auth"] and info["must_reject"] and info["must_accept"]:
                    nt += 1
    ctx.bulk(n, nt, "sweep:server-status-then-any-frame")
    # send counter start values x send paths (requests, keepalive after 51 s idle, STATUS_CLOSE from stop)
    n = nt = 0
    for vi, v in enumerate(SEQ_STARTS):
        if vi % 4 != part:
            continue
        paths = {
            "requests": [[1, "send", "tunnelling_request"], [0, "send", "connectionstate_request"], [5, "send", "tunnelling_ack"], [5, "send", "disconnect_request"]],
            "keepalive": [[1, "send", "tunnelling_request"], [51000, "send", "connectionstate_request"], [61000, "wrap", "tunnelling_ack", "next", "none"]],
            "stop": [[1, "send", "tunnelling_request"], [5, "stop"]],
            "keepalive-only": [[120000, "wrap", "tunnelling_ack", "next", "none"]],
        }
        for pname, tail_ops in paths.items():
            case = {"user": 0, "dev": vi % 3, "user_id": 2, "sid": 1 + vi, "skey": vi % 3, "ckey": vi, "tail": 61.0, "ops": HANDSHAKE + [[5, "wrap", "tunnelling_request", "next", "none"], [1, "setseq", v], *tail_ops]}
            info = check_case(ctx, case)
            n += 1
            if info and info["auth"] and info["tx_wrapped"] > 1:
                nt += 1
    ctx.bulk(n, nt, "sweep:send-counter-start-values")
    ctx.sample({"sweep": "handshake, send counter set to 2^48-1-k / 2^(8b)+d, then requests / keepalive / stop", "part": part})
    ctx.sample({"sweep": "handshake, wrapped SessionStatus <code>, then plain X / SessionResponse / wrapped frame in the same chunk, next iteration, later", "part": part})


def selftest(ctx) -> None:
    ref.selftest()
    secureio.selftest()


def run(ctx) -> None:
    parallel(ctx, _sweep_shard, [(p,) for p in range(4)])
    parallel(ctx, _hyp_shard, [(ctx.n(100, 1500),)] * 16)
    ctx.exhaustive = False


def replay(ctx, case) -> None:
    case = dict(case)
    case["ops"] = [list(o) for o in case["ops"]]
    check_case(ctx, case)
