"""C29 - a secure session only accepts fresh wrapped frames and never sends plain ones.

The real `SecureSession` (xknx/io/ip_secure.py) runs on the virtual-time loop over a fake
TCP transport. The server side of the handshake is played by the check itself with the
independent reference `vk/ref/ipsecure.py` (pure-Python X25519, CBC-MAC/CTR built by
hand): SessionResponse (with or without device authentication), wrapped SessionStatus,
and then a generated history of frames: genuine wrappers (next / skipped / same / old
sequence numbers), forged ones (MAC, ciphertext, sequence field, session id, key), plain
frames of every service type, nested wrappers, wrapped remote-diagnosis services,
SessionResponse before / after initialisation - interleaved with client sends, 50 s idle
periods (keepalive), stop and reconnect.

Oracle (event log of the fake transport + a catch-all callback on the session):
  receive: a wrapped frame is passed on (exactly once, with the decrypted content) iff it
    was built with the session key and id, is not tampered, carries an allowed, parseable
    service and its sequence number is greater than that of the last frame passed on;
    everything else is dropped and must not change what is accepted later; plain frames
    are never passed on, except a SessionResponse before authentication;
  send: every frame the client writes is either a plain SessionRequest before the
    handshake or a SecureWrapper that the reference unwraps with the session key / id,
    with strictly increasing sequence numbers per session.
"""

from __future__ import annotations

import asyncio
from functools import lru_cache
from unittest.mock import patch

from hypothesis import strategies as st

from vk.core import HarnessError, exc_site
from vk.engine import hyp_search, parallel
from vk.ref import ipsecure as ref
from vk.strategies import secureio
from vk.vloop import BudgetExceeded, Deadlock, run_case

PROPERTY = "C29"
LEVEL = "exploration"
TECHNIQUE = "stateful model-based histories (Hypothesis) against the real SecureSession on a virtual-time loop; server side and all frames built with an independent IP-Secure reference; freshness model + wire-log oracle"
RULE = (
    "history = handshake (connect, SessionResponse, wrapped SessionStatus) with generated noise before / inside / after it, then up to 14 ops: wrapped frame (inner service from a catalogue of all service types, nested wrapper, remote diagnosis; "
    "sequence mode next/skip/same/old/zero/big/max; flaw none/MAC/ciphertext/sequence field/session id (wrapped for another id, or id field overwritten)/key), plain frame of any service, client send, idle 51..61 s, stop, reconnect; "
    "non-trivial = session initialised and at least one wrapped frame that must be rejected (replayed/old number, forged, forbidden or plain) was delivered after initialisation together with at least one that must be accepted; distinct by history"
)
LEVEL_TEXT = "Generated receive/send histories around the handshake are run against the real SecureSession in virtual time; the frames handed to callbacks and the bytes written to the transport are compared with a freshness model and with the independent reference implementation of the wrapper. Sampled, not exhaustive."
LEVEL_NOTE = "Frames are built by vk/ref/ipsecure.py (validated against AN159 vectors); the MAC/CTR algorithm itself is judged by C28; single TCP connection per session epoch, virtual time."
ASSUMPTIONS = [
    "server side (X25519, PBKDF2, wrapper, MACs) played by the independent reference vk/ref/ipsecure.py; the cryptographic construction itself is judged by C28, here only acceptance / freshness / wrapping logic",
    "generate_ecdh_key_pair is patched to draw the client key from a fixed pool (one fresh key per connect) and the PBKDF2 derivations in xknx.io.ip_secure are memoised (same function, cached) so that a case is a pure function of its data and cheap",
    "an authenticated wrapper whose inner frame xknx cannot parse (unknown service) may or may not advance the counter: the model keeps both possibilities",
    "a plain SessionResponse between initialisation and successful authentication may be passed on or dropped (statement: 'before authentication'); after authentication it must be dropped",
    "exceptions raised by the receive path (a SecureWrapper before the session is initialised raises CouldNotParseKNXIP out of data_received) are counted in the evidence notes, not judged: C29 does not state a no-raise clause",
    "callback frames are compared through KNXIPFrame.to_knx() (codec judged by C20/C21)",
]

GW = ("10.0.0.1", 3671)
SERVER_SERIAL = bytes.fromhex("00fa12345678")
PASSWORDS = ["secret", "user-pw-2"]
DEVICE_PASSWORDS = [None, "trustme", "device-pw-2"]
CLIENT_PRIV = [bytes([0x11 + i]) * 32 for i in range(6)]
SERVER_PRIV = [bytes([0x71 + i]) * 32 for i in range(3)]
MAX_SEQ = 2**48 - 1

STATUS = {"status_ok": 0, "status_fail": 1, "status_unauth": 2, "status_timeout": 3, "status_keepalive": 4, "status_close": 5}


def status_frame(code: int) -> bytes:
    return bytes.fromhex("061009540008") + bytes((code, 0))


# -- cached crypto ------------------------------------------------------------


@lru_cache(maxsize=None)
def _server_pub(i: int) -> bytes:
    return ref.x25519_public(SERVER_PRIV[i])


@lru_cache(maxsize=None)
def _session_key(i: int, client_pub: bytes) -> bytes:
    return ref.session_key(SERVER_PRIV[i], client_pub)


@lru_cache(maxsize=None)
def _dev_code(pw: str) -> bytes:
    return ref.derive_device_authentication_code(pw)


_PBKDF: dict = {}


def _memo(fn):
    def wrapper(pw):
        k = (fn.__name__, pw)
        if k not in _PBKDF:
            _PBKDF[k] = fn(pw)
        return _PBKDF[k]

    return wrapper


def _client_keypair(i: int):
    from cryptography.hazmat.primitives.asymmetric.x25519 import X25519PrivateKey

    priv = X25519PrivateKey.from_private_bytes(CLIENT_PRIV[i % len(CLIENT_PRIV)])
    return priv, priv.public_key().public_bytes_raw()


def inner_frame(name: str):
    """(service code, bytes, parseable) of an inner / plain frame by name."""
    if name in STATUS:
        return 0x0954, status_frame(STATUS[name]), True
    if name == "truncated":
        return 0x0420, bytes.fromhex("06100420000a0401"), False
    return secureio.catalogue()[name]


# ---------------------------------------------------------------------------
# execution


def execute(case):
    from xknx.exceptions import CommunicationError, IPSecureError
    from xknx.io import ip_secure as mod
    from xknx.knxip import KNXIPFrame
    from xknx.secure import security_primitives as sp

    events: list[tuple] = []
    frames: list[dict] = []  # meta of every frame the server tried to deliver
    cur = [None]
    cat = secureio.catalogue()
    srv = {"epoch": 0, "tr": None, "client_pub": None, "key": None, "seq": -1, "last": None}
    sid = int(case.get("sid", 1))
    skey = int(case.get("skey", 0)) % len(SERVER_PRIV)
    dev_pw = DEVICE_PASSWORDS[int(case.get("dev", 0)) % len(DEVICE_PASSWORDS)]
    user_pw = PASSWORDS[int(case.get("user", 0)) % len(PASSWORDS)]
    kidx = [int(case.get("ckey", 0))]

    def gen_keys():
        kp = _client_keypair(kidx[0])
        kidx[0] += 1
        return kp

    class Net:
        def on_stream_open(self, tr):
            srv.update(epoch=srv["epoch"] + 1, tr=tr, client_pub=None, key=None, seq=-1, last=None)
            events.append(("open", srv["epoch"], tr.loop.time()))
            return 0

        def on_stream_data(self, tr, data):
            events.append(("tx", srv["epoch"], data, tr.loop.time()))
            if len(data) == 0x2E and data[:6] == bytes.fromhex("06100951002e") and srv["client_pub"] is None:
                srv["client_pub"] = data[14:46]
                srv["key"] = _session_key(skey, srv["client_pub"])

        def on_transport_closed(self, tr):
            events.append(("closed", srv["epoch"], tr.loop.time()))

    async def scenario(loop):
        loop.net = Net()
        session = mod.SecureSession(remote_addr=GW, user_id=int(case.get("user_id", 2)), user_password=user_pw, device_authentication_password=dev_pw, connection_lost_cb=lambda: events.append(("lost", srv["epoch"])))
        session.register_callback(lambda f, src, tr: events.append(("cb", cur[0], f.header.service_type_ident.value, f.to_knx())), None)
        connect_task = [None]

        def deliver(raw: bytes, meta: dict) -> None:
            tr = srv["tr"]
            meta = {**meta, "epoch": srv["epoch"], "raw": raw}
            if tr is None or tr.closed:
                return
            k = len(frames)
            frames.append(meta)

            def _do() -> None:
                if tr.closed:
                    return
                events.append(("rx", k, loop.time()))
                cur[0] = k
                try:
                    tr.protocol.data_received(raw)
                except Exception as e:  # noqa: BLE001
                    events.append(("rxexc", k, exc_site(e), repr(e)))
                finally:
                    cur[0] = None

            loop.call_soon(_do)

        def do(op) -> None:
            kind = op[1]
            if kind == "connect":
                if (connect_task[0] is None or connect_task[0].done()) and session.transport is None:
                    t = connect_task[0] = loop.create_task(session.connect())

                    def _done(task, ep=srv["epoch"] + 1):
                        if task.cancelled():
                            events.append(("connect", ep, "cancelled"))
                        elif task.exception() is not None:
                            e = task.exception()
                            events.append(("connect", ep, type(e).__name__, exc_site(e)))
                        else:
                            events.append(("connect", ep, "ok"))

                    t.add_done_callback(_done)
            elif kind == "resp":
                cp = srv["client_pub"] or bytes(32)
                sp_ = _server_pub(skey)
                mac = ref.session_response_mac(_dev_code(dev_pw), sid, cp, sp_) if dev_pw else bytes(16)
                if op[2] == "badmac":
                    mac = bytes([mac[0] ^ 1]) + mac[1:]
                raw = ref.header(ref.SESSION_RESPONSE_SERVICE, 0x38) + sid.to_bytes(2, "big") + sp_ + mac
                deliver(raw, {"type": "plain", "name": "session_response", "code": 0x0952, "handshake": op[2]})
            elif kind == "plain":
                code, raw, ok = inner_frame(op[2])
                deliver(raw, {"type": "plain", "name": op[2], "code": code})
            elif kind == "wrap":
                name, mode, flaw = op[2], op[3], op[4]
                key = srv["key"]
                if key is None:
                    key, flaw = bytes(range(16)), "key"
                if name == "nested":
                    code, ok = 0x0950, True
                    inner = ref.wrap(key, sid, (srv["seq"] + 1).to_bytes(6, "big"), SERVER_SERIAL, b"\x00\x00", cat["tunnelling_request"][1])
                else:
                    code, inner, ok = inner_frame(name)
                hi, last = srv["seq"], srv["last"]
                seq = {
                    "next": hi + 1,
                    "skip": hi + 3,
                    "same": max(hi, 0),
                    "old": max((last if last is not None else hi) - 2, 0),
                    "zero": 0,
                    "big": hi + 1000,
                    "max": MAX_SEQ,
                }[mode]
                seq = min(max(seq, 0), MAX_SEQ)
                use_sid, use_key = sid, key
                if flaw == "sid":
                    use_sid = (sid + 1) & 0xFFFF
                if flaw == "key":
                    use_key = bytes([key[0] ^ 1]) + key[1:]
                raw = bytearray(ref.wrap(use_key, use_sid, seq.to_bytes(6, "big"), SERVER_SERIAL, b"\x00\x00", inner))
                wire_seq = seq
                if flaw == "mac":
                    raw[-1] ^= 0x01
                elif flaw == "body":
                    raw[22] ^= 0x80
                elif flaw == "sidfield":
                    raw[6:8] = ((sid + 1) & 0xFFFF).to_bytes(2, "big")
                elif flaw == "seqfield":
                    wire_seq = min(seq + 5, MAX_SEQ) if seq < MAX_SEQ else seq - 1
                    raw[8:14] = wire_seq.to_bytes(6, "big")
                srv["seq"] = max(hi, wire_seq) if wire_seq < MAX_SEQ else hi
                if flaw == "none":
                    srv["last"] = seq
                deliver(bytes(raw), {"type": "wrap", "name": name, "code": code, "inner": inner, "parseable": ok, "seq": wire_seq, "flaw": flaw, "mode": mode})
            elif kind == "send":
                code, raw, ok = inner_frame(op[2])
                frame, _ = KNXIPFrame.from_knx(raw)
                try:
                    session.send(frame)
                    events.append(("send", op[2], "ok"))
                except (IPSecureError, CommunicationError) as e:
                    events.append(("send", op[2], type(e).__name__))
                except Exception as e:  # noqa: BLE001
                    events.append(("sendexc", op[2], exc_site(e), repr(e)))
            elif kind == "stop":
                try:
                    session.stop()
                    events.append(("stop",))
                except Exception as e:  # noqa: BLE001
                    events.append(("stopexc", exc_site(e), repr(e)))
            else:
                raise HarnessError(f"unknown op {op}")

        for op in case["ops"]:
            if op[0] > 0:
                await asyncio.sleep(op[0] / 1000.0)
            do(op)
        await asyncio.sleep(float(case.get("tail", 12.0)))
        try:
            session.stop()
        except Exception as e:  # noqa: BLE001
            events.append(("stopexc", exc_site(e), repr(e)))
        if connect_task[0] is not None and not connect_task[0].done():
            connect_task[0].cancel()
        await asyncio.sleep(0.01)
        return None

    with (
        patch.object(mod, "generate_ecdh_key_pair", gen_keys),
        patch.object(mod, "derive_user_password", _memo(sp.derive_user_password)),
        patch.object(mod, "derive_device_authentication_password", _memo(sp.derive_device_authentication_password)),
    ):
        _, loop = run_case(scenario, max_iters=400_000)
    return events, frames, loop.escaped, {"sid": sid, "skey": skey}


# ---------------------------------------------------------------------------
# oracle


def _why(m, cands, foreign=False) -> str:
    if foreign:
        return "wrong-key"
    if m["flaw"] != "none":
        return {"mac": "forged-mac", "body": "tampered-ciphertext", "seqfield": "tampered-sequence-field", "sid": "wrong-session-id", "sidfield": "tampered-session-id-field", "key": "wrong-key"}[m["flaw"]]
    if m["code"] in secureio.FORBIDDEN_WRAPPED:
        return "nested-wrapper" if m["code"] == 0x0950 else f"forbidden-service-{m['code']:04x}"
    if not m["parseable"]:
        return "unparseable-inner"
    if any(m["seq"] == l for l in cands):
        return "replayed-sequence-number"
    return "old-sequence-number"


def judge(ctx, case, events, frames, escaped, cfg) -> dict:
    inp = case
    info = {"init": False, "auth": False, "must_reject": 0, "must_accept": 0, "keepalive": 0, "epochs": 0, "tx_wrapped": 0}
    for e in escaped:
        exc = e["exception"]
        ctx.fail(f"C29:escaped:{exc_site(exc) if exc is not None else e['message'][:40]}", inp, e["repr"] + " " + e["message"])
    sid = cfg["sid"]
    # group callbacks by delivered frame
    cbs: dict[int, list[tuple]] = {}
    for ev in events:
        if ev[0] == "cb":
            if ev[1] is None:
                ctx.fail("C29:callback-outside-receive", inp, f"callback for service {ev[2]:#06x} outside any delivered frame")
            else:
                cbs.setdefault(ev[1], []).append(ev)
    # per epoch state
    ep = None
    st_ = {}

    def new_epoch(n):
        return {"n": n, "client_pub": None, "key": None, "init": False, "auth": False, "cands": {-1}, "tx_last": None, "rejected_hi": None, "foreign": False}

    for ev in events:
        kind = ev[0]
        if kind == "open":
            ep = st_[ev[1]] = new_epoch(ev[1])
            info["epochs"] += 1
        elif kind == "rxexc":
            key = f"receive_raised:{ev[2]}"
            ctx.notes[key] = ctx.notes.get(key, 0) + 1
        elif kind in ("sendexc", "stopexc"):
            ctx.fail(f"C29:{kind}:{ev[-2]}", inp, ev[-1])
        elif kind == "tx":
            if ep is None:
                ctx.fail("C29:sent:without-connection", inp, ev[2].hex())
                continue
            data = ev[2]
            if len(data) < 6 or data[:2] != b"\x06\x10" or int.from_bytes(data[4:6], "big") != len(data):
                ctx.fail("C29:sent:not-one-frame-per-write", inp, f"write of {data.hex()}")
                continue
            service = int.from_bytes(data[2:4], "big")
            if service == 0x0950:
                if not ep["init"]:
                    ep["init"] = True
                    info["init"] = True
                if ep["key"] is None:
                    ctx.fail("C29:sent:wrapper-before-session-request", inp, data.hex())
                    continue
                info["tx_wrapped"] += 1
                if ep["foreign"]:
                    continue
                try:
                    plain = ref.unwrap(ep["key"], data, sid)
                except ref.RefError as e:
                    ctx.fail("C29:sent:not-correctly-wrapped", inp, f"reference cannot unwrap {data.hex()} with the session key / id {sid}: {e}")
                    continue
                if plain == status_frame(4):
                    info["keepalive"] += 1
                seq = int.from_bytes(data[8:14], "big")
                if ep["tx_last"] is not None and not seq > ep["tx_last"]:
                    ctx.fail("C29:sent:sequence-not-increasing", inp, f"wrapper with sequence {seq} written after {ep['tx_last']}")
                ep["tx_last"] = seq if ep["tx_last"] is None else max(seq, ep["tx_last"])
            else:
                if service != 0x0951:
                    ctx.fail(f"C29:sent:plain:{service:04x}", inp, f"plain frame written: {data.hex()} (session initialised: {ep['init']})")
                elif ep["init"]:
                    ctx.fail("C29:sent:plain-session-request-after-handshake", inp, data.hex())
                elif len(data) == 0x2E and ep["client_pub"] is None:
                    ep["client_pub"] = data[14:46]
                    ep["key"] = _session_key(cfg["skey"], ep["client_pub"])
        elif kind == "rx":
            k = ev[1]
            m = frames[k]
            got = cbs.get(k, [])
            e_ = st_.get(m["epoch"])
            if e_ is None:
                raise HarnessError("frame delivered without connection")
            n = len(got)
            if m["type"] == "plain":
                if m["code"] == 0x0952 and not e_["auth"]:
                    if n > 1:
                        ctx.fail("C29:passed-on:twice", inp, f"plain SessionResponse handed to the callback {n} times")
                    if n and not e_["init"]:
                        # the client uses the last SessionResponse it got before it resumed; if that is not the
                        # simulator's own, the session key is unknown to the oracle ("foreign" epoch)
                        e_["foreign"] = m.get("handshake") is None
                    continue
                if n:
                    why = "session-response-after-authentication" if m["code"] == 0x0952 else f"{m['code']:04x}"
                    ctx.fail(f"C29:accepted:plain:{why}", inp, f"plain frame {m['name']} ({m['raw'].hex()}) passed on (initialised={e_['init']}, authenticated={e_['auth']})")
                if e_["init"]:
                    info["must_reject"] += 1
                continue
            # wrapped
            authentic = m["flaw"] == "none" and e_["init"] and e_["key"] is not None and not e_["foreign"]
            allowed = m["parseable"] and m["code"] not in secureio.FORBIDDEN_WRAPPED
            cands = e_["cands"]
            fresh = {m["seq"] > l for l in cands}
            if not e_["init"]:
                if n:
                    ctx.fail("C29:accepted:wrapped-before-initialisation", inp, f"wrapped {m['name']} passed on before the session key exists")
                continue
            if not authentic or not allowed or fresh == {False}:
                info["must_reject"] += 1
                if n:
                    ctx.fail(f"C29:accepted:{_why(m, cands, e_['foreign'])}", inp, f"wrapped {m['name']} seq={m['seq']} flaw={m['flaw']} passed on; last accepted sequence number(s) {sorted(cands)}")
                    if authentic and allowed:
                        e_["cands"] = {m["seq"]}
                elif authentic and not m["parseable"] and True in fresh and m["code"] not in secureio.FORBIDDEN_WRAPPED:
                    e_["cands"] = cands | {m["seq"]}  # may or may not have advanced
                e_["rejected_hi"] = m["seq"] if e_["rejected_hi"] is None else max(e_["rejected_hi"], m["seq"])
                continue
            if fresh == {True}:
                info["must_accept"] += 1
                if n != 1:
                    after = e_["rejected_hi"] is not None and e_["rejected_hi"] >= m["seq"]
                    ctx.fail(
                        "C29:dropped:fresh-frame:after-rejected-frame" if (n == 0 and after) else ("C29:dropped:fresh-frame" if n == 0 else "C29:passed-on:twice"),
                        inp,
                        f"genuine wrapped {m['name']} seq={m['seq']} (last accepted {sorted(cands)}, highest rejected {e_['rejected_hi']}) handed to the callback {n} times",
                    )
                    if n == 0:
                        continue
                e_["cands"] = {m["seq"]}
            else:  # depends on the unparseable-inner ambiguity
                if n:
                    e_["cands"] = {m["seq"]}
                else:
                    e_["cands"] = {l for l in cands if not m["seq"] > l}
            if n:
                if got[0][3] != m["inner"]:
                    ctx.fail("C29:passed-on:content", inp, f"callback got {got[0][3].hex()} for wrapped {m['inner'].hex()}")
                if m["inner"] == status_frame(0):
                    e_["auth"] = True
                    info["auth"] = True
    return info


def check_case(ctx, case):
    try:
        events, frames, escaped, cfg = execute(case)
    except (BudgetExceeded, Deadlock):
        ctx.notes["inconclusive"] = ctx.notes.get("inconclusive", 0) + 1
        return None
    except HarnessError:
        raise
    except Exception as e:  # noqa: BLE001
        ctx.fail(f"C29:scenario-exc:{exc_site(e)}", case, repr(e))
        return None
    return judge(ctx, case, events, frames, escaped, cfg)


# ---------------------------------------------------------------------------
# generator

_CAT_NAMES = sorted(secureio.catalogue())
_INNER_COMMON = ["tunnelling_request", "tunnelling_ack", "connect_response", "connectionstate_response", "disconnect_response", "status_keepalive", "description_response", "tunnelling_feature_response"]
_INNER_FORBIDDEN = ["nested", "secure_wrapper_garbage", "remote_diag_request", "remote_diag_response", "remote_config_request", "remote_reset_request"]
_INNER_RARE = ["status_close", "status_unauth", "status_timeout", "status_fail", "status_ok", "session_response", "session_request", "session_authenticate", "truncated", "unknown_service_0999", "disconnect_request", "routing_indication", "timer_notify_zero_mac"]
_inner = st.one_of(st.sampled_from(_INNER_COMMON), st.sampled_from(_INNER_COMMON), st.sampled_from(_INNER_COMMON), st.sampled_from(_INNER_FORBIDDEN), st.sampled_from(_INNER_RARE), st.sampled_from(_CAT_NAMES))
_mode = st.sampled_from(["next", "next", "next", "skip", "same", "same", "old", "zero", "big", "max"])
_flaw = st.sampled_from(["none", "none", "none", "none", "none", "mac", "body", "seqfield", "sid", "sidfield", "key"])
_dt = st.sampled_from([0, 0, 0, 1, 5, 100, 1000, 30000, 51000, 61000])
_dt_short = st.sampled_from([0, 0, 1, 5, 100])
_SEND = ["connect_request", "tunnelling_request", "connectionstate_request", "disconnect_request", "session_request", "tunnelling_ack", "description_request"]


def _wrap_op(dt=_dt):
    return st.tuples(dt, st.just("wrap"), _inner, _mode, _flaw)


def _plain_op(dt=_dt):
    return st.tuples(dt, st.just("plain"), st.one_of(st.sampled_from(_CAT_NAMES), st.sampled_from(list(STATUS))))


def _send_op(dt=_dt):
    return st.tuples(dt, st.just("send"), st.sampled_from(_SEND))


def _resp_op(dt=_dt):
    return st.tuples(dt, st.just("resp"), st.sampled_from(["ok", "ok", "ok", "badmac"]))


def _noise(dt=_dt_short, n=3):
    return st.lists(st.one_of(_plain_op(dt), _plain_op(dt), _wrap_op(dt), _send_op(dt), _resp_op(dt)), max_size=n)


@st.composite
def histories(draw):
    ops: list = []
    ops += draw(_noise(n=2))
    ops.append((draw(_dt_short), "connect"))
    ops += draw(_noise(n=2))
    ops.append((draw(st.sampled_from([1, 5, 100])), "resp", "ok"))
    ops += draw(_noise(n=2))
    if draw(st.integers(0, 9)) > 0:
        ops.append((draw(st.sampled_from([1, 5, 100])), "wrap", "status_ok", "next", "none"))
    body = draw(st.lists(st.one_of(_wrap_op(), _wrap_op(), _wrap_op(), _plain_op(), _send_op(), _resp_op()), min_size=1, max_size=14))
    ops += body
    if draw(st.integers(0, 3)) == 0:
        ops.append((draw(_dt), "stop"))
        ops.append((draw(_dt_short), "connect"))
        ops.append((5, "resp", "ok"))
        ops.append((5, "wrap", "status_ok", "next", "none"))
        ops += draw(st.lists(st.one_of(_wrap_op(), _plain_op(), _send_op()), max_size=5))
    return {
        "user": draw(st.integers(0, 1)),
        "dev": draw(st.integers(0, 2)),
        "user_id": draw(st.sampled_from([1, 2, 127])),
        "sid": draw(st.sampled_from([1, 2, 0x1234, 0xFFFF])),
        "skey": draw(st.integers(0, 2)),
        "ckey": draw(st.integers(0, 3)),
        "tail": draw(st.sampled_from([1.0, 12.0, 61.0])),
        "ops": [list(o) for o in ops],
    }


def _labels(case, info) -> list[str]:
    cl = []
    ops = case["ops"]
    if info:
        cl.append("initialised" if info["init"] else "never-initialised")
        if info["auth"]:
            cl.append("authenticated")
        if info["keepalive"]:
            cl.append("keepalive-sent")
        if info["epochs"] > 1:
            cl.append("reconnect")
    for o in ops:
        if o[1] == "wrap":
            cl.append(f"flaw:{o[4]}")
            cl.append(f"seq:{o[3]}")
            if o[2] in _INNER_FORBIDDEN:
                cl.append("wrapped-forbidden-service")
        elif o[1] == "plain":
            cl.append("plain-frame")
    return sorted(set(cl))


def _hyp_oracle(ctx, case) -> None:
    info = check_case(ctx, case)
    nt = bool(info and info["init"] and info["must_reject"] and info["must_accept"])
    ctx.case(repr(case), nontrivial=nt, cls=_labels(case, info), sample=case["ops"] if len(case["ops"]) > 8 else None)


def _hyp_shard(ctx, n: int) -> None:
    hyp_search(ctx, histories(), _hyp_oracle, n)


HANDSHAKE = [[0, "connect"], [5, "resp", "ok"], [5, "wrap", "status_ok", "next", "none"]]


def _sweep_shard(ctx, part: int) -> None:
    """Every catalogue frame plain (before / inside / after the handshake) and wrapped (fresh and replayed) once."""
    names = _CAT_NAMES + list(STATUS) + ["nested", "truncated"]
    n = nt = 0
    for i, name in enumerate(names):
        if i % 4 != part:
            continue
        cases = []
        if name not in ("nested", "truncated"):
            cases.append([[0, "connect"], [1, "plain", name], [5, "resp", "ok"], [0, "plain", name], [5, "wrap", "status_ok", "next", "none"], [5, "plain", name], [5, "wrap", "tunnelling_request", "next", "none"]])
        for flaw in ("none", "mac"):
            cases.append(HANDSHAKE + [[5, "wrap", "tunnelling_request", "next", "none"], [5, "wrap", name, "next", flaw], [5, "wrap", name, "same", "none"], [5, "wrap", "tunnelling_ack", "same", "none"], [5, "wrap", "tunnelling_ack", "next", "none"]])
        for ops in cases:
            case = {"user": 0, "dev": i % 3, "user_id": 2, "sid": 1 + i, "skey": i % 3, "ckey": i, "tail": 1.0, "ops": ops}
            info = check_case(ctx, case)
            n += 1
            if info and info["init"] and info["must_reject"] and info["must_accept"]:
                nt += 1
    ctx.bulk(n, nt, "sweep:every-service-plain-and-wrapped")
    ctx.sample({"sweep": "connect, plain X, response, plain X, status, plain X / wrapped X fresh, forged, replayed", "part": part})


def selftest(ctx) -> None:
    ref.selftest()
    secureio.selftest()


def run(ctx) -> None:
    parallel(ctx, _sweep_shard, [(p,) for p in range(4)])
    parallel(ctx, _hyp_shard, [(ctx.n(100, 1500),)] * 16)
    ctx.exhaustive = False


def replay(ctx, case) -> None:
    case = dict(case)
    case["ops"] = [list(o) for o in case["ops"]]
    check_case(ctx, case)
