"""C11 - any value accepted for sending becomes a wire-valid telegram.

Every sending entry point (RemoteValue.set / respond, device setters, the group value
write / response helpers with and without a DPT, the MCP write tool) is called on a fresh,
never started XKNX with values across and beyond the type's range.  Per call either a
ConversionError is raised and nothing was queued, or every newly queued telegram serialises
to a cEMI frame whose octets carry exactly the queued payload (checked against the KNX
L_Data / APCI layout and by parsing the frame back).
"""

from __future__ import annotations

import asyncio
import inspect
import traceback
from typing import Any, Callable

from hypothesis import strategies as st

from vk.core import exc_site
from vk.engine import hyp_search, parallel
from vk.strategies import valspec as V
from vk.strategies.valspec import B, F, INF, NAN, T, enum_spec
from xknx import XKNX
from xknx.cemi import CEMIFrame, CEMILData, CEMIMessageCode
from xknx.devices import (
    Climate,
    ClimateMode,
    Cover,
    DateDevice,
    DateTimeDevice,
    ExposeSensor,
    Fan,
    Light,
    Notification,
    NumericValue,
    RawValue,
    Scene,
    Switch,
    TimeDevice,
)
from xknx.devices.light import ColorTemperatureType
from xknx.dpt import DPTArray, DPTBase, DPTBinary, DPTNumeric, DPTString
from xknx.dpt.dpt_20 import HVACControllerMode, HVACOperationMode
from xknx.exceptions import ConversionError, DeviceIllegalValue
from xknx.mcp import GroupValueWriteInput, send_group_value_write
from xknx.remote_value import (
    RemoteValue,
    RemoteValueBinaryHeatCool,
    RemoteValueBinaryOperationMode,
    RemoteValueByLength,
    RemoteValueColorRGB,
    RemoteValueColorRGBW,
    RemoteValueColorXYY,
    RemoteValueControllerMode,
    RemoteValueDate,
    RemoteValueDateTime,
    RemoteValueDptValue1Ucount,
    RemoteValueNumeric,
    RemoteValueOperationMode,
    RemoteValueRaw,
    RemoteValueScaling,
    RemoteValueSceneControl,
    RemoteValueSceneNumber,
    RemoteValueSensor,
    RemoteValueSetpointShift,
    RemoteValueStep,
    RemoteValueString,
    RemoteValueSwitch,
    RemoteValueTemp,
    RemoteValueTime,
    RemoteValueUpDown,
)
from xknx.remote_value.remote_value_climate_mode import RemoteValueHVACStatus
from xknx.remote_value.remote_value_setpoint_shift import SetpointShiftMode
from xknx.telegram import GroupAddress, Telegram
from xknx.telegram.apci import GroupValueResponse, GroupValueWrite
from xknx.tools import group_value_response, group_value_write

PROPERTY = "C11"
LEVEL = "exploration"
TECHNIQUE = "boundary-grid enumeration + property-based testing (Hypothesis) against the KNX frame layout"
LEVEL_TEXT = (
    "Generated exploration: every sending entry point x a boundary grid (type range, range +/- one step, "
    "negative, > 255 per octet, powers of two, non-finite floats, wrong types) plus seeded random values; "
    "each accepted value's queued telegram is serialised and compared with the KNX L_Data/APCI layout."
)
LEVEL_NOTE = (
    "Trusted base: the octet layout of a group write/response frame (NPDU length, APCI bits, appended or "
    "6-bit data) written here from the KNX specification; the library's own cEMI parser is used as a second "
    "reader only. Ranges for the must-reject relation are the types' own declared value_min/value_max."
)
RULE = (
    "targets = every RemoteValue class (constructor table), device setters, group_value_write/response with and "
    "without DPT (all 230 DPTs), MCP send_group_value_write, RemoteValueSensor/Numeric (one DPT per distinct "
    "encoder implementation at the quick tier, all 230 at the thorough tier); values = generic wide grid "
    "(ints around 0/63/255/2^k, negatives, floats incl. inf/nan, None, str, bytes, lists/tuples incl. nested, "
    "dicts) + per-type boundary grid (min/max, +/- one and two steps, half steps, per-field perturbations of "
    "complex types in dict and object form) enumerated once each (distinct by construction), then seeded "
    "Hypothesis values per target. non-trivial = the value is outside the type's declared range, of a type "
    "the parameter does not declare, or was rejected (everything except an in-range, type-correct, accepted value)"
)
ASSUMPTIONS = [
    "XKNX is built but never started; setters only put telegrams on xknx.telegrams, which is what is observed.",
    "A ConversionError with an unchanged queue is the declared rejection. ClimateMode setters may also reject "
    "with DeviceIllegalValue (their own declared error) - counted as a rejection, queue must be unchanged.",
    "Exception class of a rejection is judged only where the parameter admits the offered Python type: "
    "value: Any / JSON entry points (group_value_write/response, MCP write tool, ExposeSensor.set) are judged "
    "for every JSON-like value; typed setters (brightness: int, color: tuple[int,int,int], message: str, ...) "
    "are judged for values of the annotated kind only (any real number incl. inf/nan for numeric parameters). "
    "A plainly wrong Python type passed to a typed setter (None, dict, str for a number, tuple of the wrong "
    "arity) may raise TypeError/IndexError/...; for those calls only 'a fully or partly queued telegram must "
    "serialise' is checked, because no real caller passes them and the only complaint would be the exception type.",
    "Unknown value_type names / invalid group addresses are not in the domain (they have their own declared errors).",
    "must-reject relation: a number more than one resolution step outside the declared range "
    "(DPTNumeric value_min/value_max, RemoteValueScaling range_from/range_to, RemoteValueRaw payload length, "
    "0..63 for a raw int) that is nevertheless accepted must at least be what was queued: the queued payload is "
    "decoded by the same type and has to equal the value within 1.5 steps / 1 %; otherwise the value was silently "
    "clamped or wrapped. An accepted value that does read back (declared range narrower than the encoder) is only "
    "counted - range declarations are C09's subject. Values within one step of a bound are not judged (rounding).",
    "Cover.set_position without a position address is not offered inf/nan: there the value goes to the travel "
    "calculator (C40), not into a payload.",
    "An empty byte list offered without DPT is treated as unrepresentable: its frame is read back as a 6-bit 0.",
]

# ----------------------------------------------------------------------------- helpers


def ga(n: int) -> str:
    return f"1/{n // 256}/{n % 256}"


class Harness:
    """One event loop per shard; one XKNX (and devices) per case."""

    def __init__(self) -> None:
        self.loop = asyncio.new_event_loop()

    def run(self, aw: Any) -> Any:
        return self.loop.run_until_complete(aw)

    def settle(self) -> None:
        tasks = asyncio.all_tasks(self.loop)
        if tasks:
            for t in tasks:
                t.cancel()
            self.loop.run_until_complete(asyncio.gather(*tasks, return_exceptions=True))

    def close(self) -> None:
        try:
            self.settle()
        finally:
            self.loop.close()


def producer_of(rv: RemoteValue) -> str:
    """Name of the function that turns the value into a payload (root-cause key)."""
    if type(rv).to_knx is RemoteValue.to_knx and rv.dpt_class is not None:
        return f"{rv.dpt_class.__name__}.to_knx"
    if isinstance(rv, (RemoteValueSensor, RemoteValueNumeric, RemoteValueString)):
        return f"{rv.dpt_class.__name__}.to_knx"
    if isinstance(rv, RemoteValueColorRGBW):
        return "DPTColorRGBW.to_knx"
    return f"{type(rv).__name__}.to_knx"


class Probe:
    """How to read a telegram queued by a target: who produced its payload (root-cause label)
    and how the same configuration decodes it again (for the loop-back relation)."""

    def __init__(self, label: Callable[[Telegram], str], decode: Callable[[Telegram], Any] | None = None) -> None:
        self.label = label
        self.decode = decode


class Target:
    """One sending entry point in one configuration."""

    def __init__(
        self,
        name: str,
        group: str,
        build: Callable[[XKNX], tuple[Callable[[Any], Any], Callable[[Telegram], str] | None]],
        *,
        native: Callable[[Any], bool] | None = None,
        any_typed: bool = False,
        grid: list[Any] | None = None,
        special: str | None = None,
        rng: tuple[float, float, float] | None = None,
        allowed: tuple = (),
        accepts: Callable[[Any], bool] | None = None,
        generic: bool = True,
        weight: int = 1,
        dpt: type | None = None,
        seq: list[tuple[float, float, float]] | None = None,
        thorough_only: bool = False,
    ) -> None:
        self.name = name
        self.group = group
        self.build = build
        self.native = native or (lambda s: False)
        self.any_typed = any_typed
        self.grid = grid or []
        self.special = special
        self.rng = rng
        self.allowed = allowed
        self.accepts = accepts
        self.generic = generic
        self.weight = weight
        self.dpt = dpt
        self.seq = seq
        self.thorough_only = thorough_only
        self._grid_cache: list[Any] | None = None

    def judged(self, spec: Any) -> bool:
        """Is the class of a non-ConversionError exception judged for this value?"""
        if V.kind(spec) == "opaque":
            return False
        return True if self.any_typed else bool(self.native(spec))

    def grid_values(self) -> list[Any]:
        vals = list(self.grid)
        if self.generic:
            vals += V.GENERIC_GRID
        if self.accepts is not None:
            vals = [v for v in vals if self.accepts(v)]
        out: list[Any] = []
        seen: set[str] = set()
        for v in vals:
            k = repr(v)
            if k not in seen:
                seen.add(k)
                out.append(v)
        return out

    def from_program(self, prog: tuple) -> Any:
        """Resolve a target-agnostic value program (vk.strategies.valspec.program_strategy)
        against this target's range / schema / grid.  None = not in this target's domain."""
        op = prog[0]
        spec: Any = None
        if op == "num":
            rng = self.rng
            if rng is None and self.seq:
                rng = self.seq[0]
            spec = V.resolve_num(prog[1], rng)
            if self.seq and prog[1][1] % 3 == 0:  # sometimes a scalar where a sequence is expected is fine, mostly build one
                spec = T(*[spec for _ in self.seq])
        elif op == "fields" and self.dpt is not None and V.family(self.dpt) == "complex":
            spec = V.resolve_fields(prog, self.dpt)
        elif op == "seq" and self.seq:
            items = [V.resolve_num(p, r) for p, r in zip(prog[1], self.seq)]
            spec = items if prog[2] else T(*items)
        elif op == "text" and self.dpt is not None and V.family(self.dpt) == "string":
            spec = prog[1]
        elif op == "generic" and self.generic:
            spec = prog[1]
        elif op == "special" and self.special == prog[1]:
            spec = prog[2]
        else:  # "grid", and the fallback of everything that does not apply to this target
            if self._grid_cache is None:
                self._grid_cache = self.grid_values()
            if not self._grid_cache:
                return None
            k = prog[1] if op == "grid" else len(repr(prog))
            spec = self._grid_cache[k % len(self._grid_cache)]
        if self.accepts is not None and not self.accepts(spec):
            return None
        return spec


def encoder_site(exc: BaseException) -> str:
    """Root-cause key of an undeclared exception: the public encoder that let it through, i.e. the
    outermost frame inside xknx.dpt (DPTComplex.to_knx for every complex type, <Class>.to_knx for the
    numeric families); if no DPT encoder was involved, the innermost xknx frame."""
    tb = exc.__traceback__
    while tb is not None:
        mod = tb.tb_frame.f_globals.get("__name__", "")
        if mod.startswith("xknx.dpt"):
            code = tb.tb_frame.f_code
            return f"{type(exc).__name__}@{mod}:{getattr(code, 'co_qualname', code.co_name)}"
        tb = tb.tb_next
    return exc_site(exc)


def out_of_range(rng: tuple[float, float, float] | None, v: Any) -> bool:
    """Number more than one step outside [lo, hi] (never true for bool / nan / non-numbers)."""
    if rng is None or isinstance(v, bool) or not isinstance(v, (int, float)):
        return False
    if v != v:
        return False
    lo, hi, res = rng
    try:
        return v < lo - res or v > hi + res
    except Exception:  # noqa: BLE001
        return False


# ----------------------------------------------------------------------------- wire oracle


def payload_defect(value: Any) -> str | None:
    """Why a DPTArray/DPTBinary value cannot be put into a frame (None = it can)."""
    if isinstance(value, DPTBinary):
        v = value.value
        if isinstance(v, bool) or (isinstance(v, int) and 0 <= v <= 0x3F):
            return None
        return "binary-out-of-range"
    if isinstance(value, DPTArray):
        octets = value.value
        if any(not isinstance(o, int) for o in octets):
            return "non-int-octet"
        if any(not 0 <= o <= 255 for o in octets):
            return "octet-out-of-range"
        if len(octets) > 253:
            return "too-long"
        if len(octets) == 0:
            return "empty-array"
        return None
    return "not-a-payload"


def pdesc(t: Telegram) -> str:
    """Printable form of a queued payload (DPTArray.__repr__ itself fails on non-int octets)."""
    apci = t.payload
    pv = getattr(apci, "value", None)
    return f"{type(apci).__name__}({type(pv).__name__}({getattr(pv, 'value', pv)!r}))"


def wire_check(t: Telegram) -> tuple[str, str] | None:
    """None if the telegram serialises to the frame the KNX layout prescribes and parses back;
    else (relation, detail)."""
    apci = t.payload
    if not isinstance(apci, (GroupValueWrite, GroupValueResponse)):
        return ("unserialisable", f"unexpected APCI {apci!r}")
    pv = apci.value
    defect = payload_defect(pv)
    try:
        data = CEMILData.init_from_telegram(t)
        raw = data.to_knx()
        frame = CEMIFrame(code=CEMIMessageCode.L_DATA_REQ, data=data).to_knx()
    except Exception as e:  # noqa: BLE001
        return ("unserialisable", f"{defect or 'other:' + exc_site(e)}|{type(e).__name__}: {e}"[:300])
    # layout: ctrl1 ctrl2 src(2) dst(2) len tpci/apci apci/data [data...]
    want_apci = 0x080 if isinstance(apci, GroupValueWrite) else 0x040
    if isinstance(pv, DPTBinary):
        ok = len(raw) == 9 and raw[6] == 1 and ((raw[7] & 0x03) << 8 | (raw[8] & 0xC0)) == want_apci and (raw[8] & 0x3F) == int(pv.value)
    else:
        body = bytes(pv.value)
        ok = len(raw) == 9 + len(body) and raw[6] == 1 + len(body) and ((raw[7] & 0x03) << 8 | (raw[8] & 0xC0)) == want_apci and raw[9:] == body and (raw[8] & 0x3F) == 0
    if isinstance(t.destination_address, GroupAddress):
        ok = ok and raw[4:6] == t.destination_address.raw.to_bytes(2, "big")
    if not ok:
        return ("wire-mismatch", f"{defect or 'layout'}|frame {raw.hex()} does not carry {pdesc(t)}")
    try:
        back = CEMIFrame.from_knx(frame)
        same = isinstance(back.data, CEMILData) and back.data.payload == apci and type(back.data.payload.value) is type(pv)
    except Exception as e:  # noqa: BLE001
        return ("wire-mismatch", f"{defect or 'parse:' + exc_site(e)}|{type(e).__name__}: {e}"[:300])
    if not same:
        # an empty array has no wire form at all (its frame is a 6-bit 0): same finding whether the
        # serialiser refuses it or the frame reads back differently
        rel = "unserialisable" if defect == "empty-array" else "wire-mismatch"
        return (rel, f"{defect or 'reparse'}|{pdesc(t)} read back as {back.data.payload!r}")
    return None


# ----------------------------------------------------------------------------- per case oracle


def run_case(ctx, h: Harness, tgt: Target, spec: Any, count: bool = True) -> None:
    inp = {"target": tgt.name, "value": spec}
    try:
        v = V.mat(spec)
    except V.Unbuildable:
        if count:
            ctx.case(None, nontrivial=False, cls="unbuildable-value")
        return
    xknx = XKNX()
    exc: BaseException | None = None
    try:
        call, probe = tgt.build(xknx)
        q = xknx.telegrams
        while q.qsize():  # construction never queues, but be explicit about the baseline
            q.get_nowait()
        try:
            r = call(v)
            if inspect.isawaitable(r):
                h.run(r)
        except ConversionError as e:
            exc = e
        except RecursionError as e:
            exc = e
        except Exception as e:  # noqa: BLE001
            exc = e
        queued: list[Telegram] = []
        while q.qsize():
            item = q.get_nowait()
            if item is not None:
                queued.append(item)
    finally:
        h.settle()

    oor = out_of_range(tgt.rng, v)
    judged = tgt.judged(spec)
    declared = isinstance(exc, (ConversionError, *tgt.allowed))
    outcome = "accepted" if exc is None else ("rejected" if declared else "raised-other")

    # (1) whatever was queued has to be wire valid
    all_valid = True
    for t in queued:
        bad = wire_check(t)
        if bad is not None:
            all_valid = False
            rel, detail = bad
            reason, _, msg = detail.partition("|")
            prod = probe.label(t)
            ctx.fail(f"C11:{rel}:{prod}:{reason}", inp, f"{tgt.group}({v!r}) queued {pdesc(t)}: {msg}")
    # (2) a rejection leaves the queue unchanged
    if exc is not None and queued and (declared or judged):
        ctx.fail(
            f"C11:rejected-but-queued:{tgt.group}",
            inp,
            f"{tgt.group}({v!r}) raised {type(exc).__name__} after queueing {[pdesc(t) for t in queued]}",
        )
    # (3) rejections use the declared error
    if exc is not None and not declared:
        if judged:
            ctx.fail(
                f"C11:undeclared-exc:{encoder_site(exc)}",
                inp,
                f"{tgt.group}({v!r}): " + "".join(traceback.format_exception_only(type(exc), exc)).strip(),
            )
            outcome = "raised-undeclared"
    # (4) an unrepresentable number is not accepted as some other number
    if exc is None and queued and oor and all_valid and probe.decode is not None:
        lo, hi, res = tgt.rng
        for t in queued:
            try:
                back = probe.decode(t)
            except Exception:  # noqa: BLE001 - decoding is judged by C07/C08, not here
                continue
            if isinstance(back, bool) or not isinstance(back, (int, float)):
                continue
            if abs(back - v) <= max(1.5 * res, abs(v) * 0.01):
                # representable after all: the declared range is narrower than the encoder (C09's subject)
                ctx.notes["accepted_beyond_declared_range_but_representable"] = ctx.notes.get("accepted_beyond_declared_range_but_representable", 0) + 1
                continue
            ctx.fail(
                f"C11:unrepresentable-accepted:{probe.label(t)}",
                inp,
                f"{tgt.group}({v!r}) is outside {lo}..{hi} but was accepted and queued {pdesc(t)}, which the same type reads as {back!r}",
            )
    # (5) ... nor silently dropped
    if exc is None and not queued and oor:
        ctx.fail(f"C11:unrepresentable-dropped:{tgt.group}", inp, f"{tgt.group}({v!r}) is outside {tgt.rng[0]}..{tgt.rng[1]}: no error and nothing queued")
    if count:
        native = bool(tgt.native(spec))
        trivial = exc is None and bool(queued) and native and not oor
        if exc is None and not queued:
            outcome = "no-op"
        ctx.case((tgt.name, repr(spec)), nontrivial=not trivial, cls=[f"outcome:{outcome}", f"kind:{V.kind(spec)}"])


# ----------------------------------------------------------------------------- target table


def _rv_target(
    name: str,
    mk: Callable[[XKNX], RemoteValue],
    mode: str = "set",
    prime: Callable[[RemoteValue], None] | None = None,
    method: str | None = None,
    **kw: Any,
) -> Target:
    def build(xknx: XKNX):
        rv = mk(xknx)
        if prime is not None:
            prime(rv)
        label = producer_of(rv)
        if method is not None:
            fn = getattr(rv, method)
            call = fn
        elif mode == "set":
            call = rv.set
        elif mode == "set_response":
            call = lambda v: rv.set(v, response=True)  # noqa: E731
        else:  # value setter then respond()

            def call(v: Any) -> None:
                rv.value = v
                rv.respond()

        return call, Probe((lambda t: label), (lambda t: rv.from_knx(t.payload.value)))

    cls_name = name.split("[")[0].split("(")[0]
    meth = method or {"set": "set", "set_response": "set(response)", "value_respond": "value=/respond"}[mode]
    return Target(f"rv:{name}:{meth}", f"{cls_name}.{meth}", build, **kw)


def _num_native(spec: Any) -> bool:
    return V.is_number(spec)


def _dpt_sample() -> list[type]:
    """One DPT class per distinct encoder implementation (plus every class that defines its own range)."""
    seen: dict[Any, type] = {}
    for d in V.all_dpts():
        fn = getattr(d.to_knx, "__func__", d.to_knx)
        key = (fn, getattr(getattr(d, "_to_knx", None), "__func__", None), V.family(d))
        seen.setdefault(key, d)
    return list(seen.values())


def _seq_of_numbers(n: int) -> Callable[[Any], bool]:
    def pred(spec: Any) -> bool:
        k = V.kind(spec)
        items = spec if k == "list" else spec["v"] if k == "tuple" else None
        return items is not None and len(items) == n and all(V.is_number(i) for i in items)

    return pred


def _is_enum_of(cls: type) -> Callable[[Any], bool]:
    def pred(spec: Any) -> bool:
        return V.kind(spec) == "enum" and V._ENUMS.get(spec["c"]) is cls

    return pred


def _is_obj_of(*names: str) -> Callable[[Any], bool]:
    def pred(spec: Any) -> bool:
        return V.kind(spec) == "obj" and spec["c"] in names

    return pred


def _finite(spec: Any) -> bool:
    """No non-finite float at the top level (the travel calculator, not a payload encoder, would see it)."""
    return V.kind(spec) != "sfloat"


def _json_only(spec: Any) -> bool:
    """Value an MCP client can express: JSON natives, lists and objects."""
    k = V.kind(spec)
    if k in ("none", "bool", "int", "float", "str"):
        return True
    if k == "list":
        return all(_json_only(x) for x in spec)
    if k == "dict":
        return all(_json_only(x) for x in spec["v"].values())
    return False


def _device_resolver(*devices: Any) -> Probe:
    owners: dict[Any, RemoteValue] = {}
    for dev in devices:
        for rv in dev._iter_remote_values():
            if rv.group_address is not None:
                owners.setdefault(rv.group_address, rv)

    def label(t: Telegram) -> str:
        rv = owners.get(t.destination_address)
        return producer_of(rv) if rv is not None else "unknown-remote-value"

    def decode(t: Telegram) -> Any:
        rv = owners.get(t.destination_address)
        return rv.from_knx(t.payload.value) if rv is not None else None

    return Probe(label, decode)


def _dev_target(name: str, group: str, mk: Callable[[XKNX], tuple[Any, Callable[[Any], Any]]], **kw: Any) -> Target:
    def build(xknx: XKNX):
        dev, call = mk(xknx)
        devs = dev if isinstance(dev, tuple) else (dev,)
        return call, _device_resolver(*devs)

    return Target(f"dev:{name}", group, build, **kw)


_TARGETS: list[Target] | None = None
_BY_NAME: dict[str, Target] = {}


def _scaling_rng(a: int, b: int) -> tuple[float, float, float]:
    return (min(a, b), max(a, b), abs(b - a) / 255)


def build_targets() -> list[Target]:
    global _TARGETS
    if _TARGETS is not None:
        return _TARGETS
    ts: list[Target] = []
    G = ga(1)

    # ---- RemoteValue classes ---------------------------------------------------------
    bool_grid = [True, False, 0, 1, 2, "on", None]
    for inv in (False, True):
        ts.append(_rv_target(f"RemoteValueSwitch(invert={inv})", lambda x, inv=inv: RemoteValueSwitch(x, G, invert=inv), native=lambda s: V.kind(s) == "bool", grid=bool_grid))
        for cls, en in ((RemoteValueStep, RemoteValueStep.Direction), (RemoteValueUpDown, RemoteValueUpDown.Direction)):
            egrid = [enum_spec(m) for m in en] + [0, 1, "up", enum_spec(HVACOperationMode.COMFORT)]
            ts.append(_rv_target(f"{cls.__name__}(invert={inv})", lambda x, cls=cls, inv=inv: cls(x, G, invert=inv), native=_is_enum_of(en), grid=egrid))
    ts.append(_rv_target("RemoteValueSwitch", lambda x: RemoteValueSwitch(x, G), mode="value_respond", native=lambda s: V.kind(s) == "bool", grid=bool_grid))
    ts.append(_rv_target("RemoteValueSwitch(no address)", lambda x: RemoteValueSwitch(x, None, ga(2)), native=lambda s: V.kind(s) == "bool", grid=bool_grid))

    for a, b in ((0, 100), (0, 255), (100, 0), (0, 360), (-50, 50), (255, 0)):
        rng = _scaling_rng(a, b)
        for mode in ("set", "value_respond") + (("set_response",) if (a, b) == (0, 100) else ()):
            ts.append(
                _rv_target(
                    f"RemoteValueScaling({a},{b})",
                    lambda x, a=a, b=b: RemoteValueScaling(x, G, range_from=a, range_to=b),
                    mode=mode,
                    native=_num_native,
                    rng=rng,
                    grid=V.numeric_grid(*rng),
                    weight=4,
                )
            )

    def cplx(name: str, mk: Callable[[XKNX], RemoteValue], dpt_name: str, **kw: Any) -> None:
        dpt = V.dpt_by_name(dpt_name)
        for mode in ("set", "value_respond"):
            ts.append(_rv_target(name, mk, mode=mode, native=lambda s, dpt=dpt: V.kind(s) == "obj" and V.dpt_native(dpt, s), grid=V.dpt_grid(dpt), dpt=dpt, **kw))

    cplx("RemoteValueColorRGB", lambda x: RemoteValueColorRGB(x, G), "DPTColorRGB")
    cplx("RemoteValueColorRGBW", lambda x: RemoteValueColorRGBW(x, G), "DPTColorRGBW")
    cplx("RemoteValueColorXYY", lambda x: RemoteValueColorXYY(x, G), "DPTColorXYY")
    cplx("RemoteValueTime", lambda x: RemoteValueTime(x, G), "DPTTime")
    cplx("RemoteValueDate", lambda x: RemoteValueDate(x, G), "DPTDate")
    cplx("RemoteValueDateTime", lambda x: RemoteValueDateTime(x, G), "DPTDateTime")
    cplx("RemoteValueSceneControl", lambda x: RemoteValueSceneControl(x, G), "DPTSceneControl")

    for name, cls, dptn in (("RemoteValueDptValue1Ucount", RemoteValueDptValue1Ucount, "DPTValue1Ucount"), ("RemoteValueSceneNumber", RemoteValueSceneNumber, "DPTSceneNumber"), ("RemoteValueTemp", RemoteValueTemp, "DPTTemperature")):
        dpt = V.dpt_by_name(dptn)
        for mode in ("set", "value_respond"):
            ts.append(_rv_target(name, lambda x, cls=cls: cls(x, G), mode=mode, native=_num_native, rng=V.dpt_range(dpt), grid=V.dpt_grid(dpt), dpt=dpt))

    for n in (0, 1, 2, 3, 4, 6, 8, 14):
        rng = (0, 63, 1) if n == 0 else (0, 256**n - 1, 1)
        ts.append(
            _rv_target(
                f"RemoteValueRaw({n})",
                lambda x, n=n: RemoteValueRaw(x, n, G),
                native=lambda s: V.kind(s) in ("int", "bool"),
                rng=rng,
                grid=V.numeric_grid(*rng),
            )
        )

    sample = _dpt_sample()
    for d in V.all_dpts():
        rng = V.dpt_range(d)
        # the generic classes delegate to the DPT's encoder: at the quick tier one DPT per distinct encoder
        # implementation goes through them (every DPT goes through group_value_write below), all at thorough
        common = dict(native=lambda s, d=d: V.dpt_native(d, s), rng=rng, grid=V.dpt_grid(d), dpt=d, thorough_only=d not in sample)
        ts.append(_rv_target(f"RemoteValueSensor[{d.__name__}]", lambda x, d=d: RemoteValueSensor(x, G, value_type=d), **common))
        if issubclass(d, DPTNumeric):
            ts.append(_rv_target(f"RemoteValueNumeric[{d.__name__}]", lambda x, d=d: RemoteValueNumeric(x, G, value_type=d), mode="value_respond", **common))
        if issubclass(d, DPTString):
            for mode in ("set", "value_respond"):
                ts.append(_rv_target(f"RemoteValueString[{d.__name__}]", lambda x, d=d: RemoteValueString(x, G, value_type=d), mode=mode, **common))

    for label, smode, step in (("none", None, 0.1), ("DPT6010,0.1", SetpointShiftMode.DPT6010, 0.1), ("DPT6010,0.5", SetpointShiftMode.DPT6010, 0.5), ("DPT6010,1", SetpointShiftMode.DPT6010, 1), ("DPT9002,0.1", SetpointShiftMode.DPT9002, 0.1)):
        if smode is SetpointShiftMode.DPT6010:
            rng = (-128 * step, 127 * step, step)
        elif smode is SetpointShiftMode.DPT9002:
            rng = V.dpt_range(V.dpt_by_name("DPTTemperature"))
        else:
            rng = None
        g = V.numeric_grid(*rng) if rng else []
        ts.append(
            _rv_target(
                f"RemoteValueSetpointShift({label})",
                lambda x, smode=smode, step=step: RemoteValueSetpointShift(x, G, setpoint_shift_mode=smode, setpoint_shift_step=step),
                native=_num_native,
                rng=rng,
                grid=g,
            )
        )

    bl_classes = [V.dpt_by_name(n) for n in ("DPTPercentU8", "DPTTemperature", "DPTPower")]

    def prime_len(n: int) -> Callable[[RemoteValue], None]:
        def prime(rv: RemoteValue) -> None:
            rv.from_knx(DPTArray((0,) * n))

        return prime

    ts.append(_rv_target("RemoteValueByLength(uninitialised)", lambda x: RemoteValueByLength(x, bl_classes, G), native=_num_native, grid=[0, 1, 21.5]))
    for n, d in zip((1, 2, 4), bl_classes):
        ts.append(_rv_target(f"RemoteValueByLength(len={n})", lambda x: RemoteValueByLength(x, bl_classes, G), prime=prime_len(n), native=_num_native, rng=V.dpt_range(d), grid=V.dpt_grid(d), dpt=d))

    op_grid = V.dpt_grid(V.dpt_by_name("DPTHVACMode"))
    ct_grid = V.dpt_grid(V.dpt_by_name("DPTHVACContrMode"))
    mode_grid = op_grid + ct_grid
    is_op = _is_enum_of(HVACOperationMode)
    is_ct = _is_enum_of(HVACControllerMode)

    def prime_status(rv: RemoteValue) -> None:
        rv.value = rv.from_knx(DPTArray((0x21,)))

    climate_rvs: list[tuple[str, Callable[[XKNX], RemoteValue], Callable[[RemoteValue], None] | None]] = [
        ("RemoteValueOperationMode", lambda x: RemoteValueOperationMode(x, G), None),
        ("RemoteValueControllerMode", lambda x: RemoteValueControllerMode(x, G), None),
        ("RemoteValueHVACStatus(uninitialised)", lambda x: RemoteValueHVACStatus(x, G), None),
        ("RemoteValueHVACStatus(initialised)", lambda x: RemoteValueHVACStatus(x, G), prime_status),
    ]
    for m in HVACOperationMode:
        climate_rvs.append((f"RemoteValueBinaryOperationMode({m.name})", lambda x, m=m: RemoteValueBinaryOperationMode(x, G, operation_mode=m), None))
    for m in (HVACControllerMode.HEAT, HVACControllerMode.COOL):
        climate_rvs.append((f"RemoteValueBinaryHeatCool({m.name})", lambda x, m=m: RemoteValueBinaryHeatCool(x, G, controller_mode=m), None))
    status_grid = V.dpt_grid(V.dpt_by_name("DPTHVACStatus"))
    for name, mk, prime in climate_rvs:
        extra = status_grid if "HVACStatus" in name else []
        native_set = (lambda s: V.kind(s) in ("enum", "obj", "str", "int")) if "HVACStatus" not in name else _is_obj_of("HVACStatus")
        ts.append(_rv_target(name, mk, prime=prime, native=native_set, grid=mode_grid + extra))
        ts.append(_rv_target(name, mk, prime=prime, method="set_operation_mode", native=is_op, grid=mode_grid))
        ts.append(_rv_target(name, mk, prime=prime, method="set_controller_mode", native=is_ct, grid=mode_grid))

    # ---- devices -----------------------------------------------------------------------
    a = [ga(10 + i) for i in range(12)]
    bri_rng = (0, 255, 1)
    pct_rng = (0, 100, 100 / 255)

    def light(**kw: Any) -> Callable[[XKNX], Light]:
        return lambda x: Light(x, "light", **kw)

    def dev_num(name: str, group: str, mk: Callable[[XKNX], tuple[Any, Callable]], rng: Any, **kw: Any) -> None:
        ts.append(_dev_target(name, group, mk, native=_num_native, rng=rng, grid=V.numeric_grid(*rng) if rng else [], **kw))

    dev_num("Light.set_brightness", "Light.set_brightness", lambda x: (lambda d: (d, d.set_brightness))(light(group_address_switch=a[0], group_address_brightness=a[1])(x)), bri_rng, weight=4)
    dev_num("Light.set_tunable_white", "Light.set_tunable_white", lambda x: (lambda d: (d, d.set_tunable_white))(light(group_address_switch=a[0], group_address_tunable_white=a[1])(x)), bri_rng)
    for ctt in ColorTemperatureType:
        rng = V.dpt_range(DPTBase.get_dpt(ctt.value))
        dev_num(f"Light.set_color_temperature[{ctt.name}]", "Light.set_color_temperature", lambda x, ctt=ctt: (lambda d: (d, d.set_color_temperature))(light(group_address_switch=a[0], group_address_color_temperature=a[1], color_temperature_type=ctt)(x)), rng)

    rgb_grid = [T(0, 0, 0), T(255, 255, 255), T(256, 0, 0), T(0, 300, 0), T(0, 0, -1), T(1.5, 2, 3), T(10, INF, 10), T(10, NAN, 10), T(1, 2, True), [1, 2, 3], [1, 300, 3], T(1, "2", 3), T(1, None, 3), T(1, 2), T(1, 2, 3, 4), T(255.4, 0, 0), T(-0.4, 0, 0)]
    rgb_seq = [(0, 255, 1)] * 3
    ts.append(_dev_target("Light.set_color[rgb]", "Light.set_color[rgb]", lambda x: (lambda d: (d, d.set_color))(light(group_address_switch=a[0], group_address_color=a[1])(x)), native=_seq_of_numbers(3), grid=rgb_grid, seq=rgb_seq, weight=2))
    ts.append(
        _dev_target(
            "Light.set_color[individual rgb]",
            "Light.set_color[individual]",
            lambda x: (lambda d: (d, d.set_color))(light(group_address_brightness_red=a[1], group_address_brightness_green=a[2], group_address_brightness_blue=a[3])(x)),
            native=_seq_of_numbers(3),
            grid=rgb_grid,
            seq=rgb_seq,
            weight=4,
        )
    )

    def rgbw_call(d: Light) -> Callable[[Any], Any]:
        def call(v: Any) -> Any:
            if isinstance(v, (tuple, list)) and len(v) == 4:
                return d.set_color(tuple(v[:3]), v[3])
            return d.set_color(v, 0)

        return call

    rgbw_grid = [T(0, 0, 0, 0), T(255, 255, 255, 255), T(1, 2, 3, 256), T(1, 2, 3, -1), T(300, 2, 3, 4), T(1, 2, 3, 4.5), T(1, 2, 3, INF), T(1, 2, 3, None), T(1, 2.5, 3, 4)]
    rgbw_seq = [(0, 255, 1)] * 4
    ts.append(_dev_target("Light.set_color[rgbw]", "Light.set_color[rgbw]", lambda x: (lambda d: (d, rgbw_call(d)))(light(group_address_switch=a[0], group_address_rgbw=a[1])(x)), native=_seq_of_numbers(4), grid=rgbw_grid + rgb_grid, seq=rgbw_seq, weight=2))
    ts.append(
        _dev_target(
            "Light.set_color[individual rgbw]",
            "Light.set_color[individual]",
            lambda x: (lambda d: (d, rgbw_call(d)))(light(group_address_brightness_red=a[1], group_address_brightness_green=a[2], group_address_brightness_blue=a[3], group_address_brightness_white=a[4])(x)),
            native=_seq_of_numbers(4),
            grid=rgbw_grid + rgb_grid,
            seq=rgbw_seq,
            weight=2,
        )
    )
    hs_grid = [T(0, 0), T(360, 100), T(361, 50), T(10, 101), T(10, 150), T(-1, 50), T(400, 150), T(10.5, 20.5), T(10, INF), T(INF, 10), T(10, NAN), T(10, None), T(10, "x"), T(10,), T(1, 2, 3), [10, 20], [10, 150]]
    hs_seq = [(0, 360, 360 / 255), (0, 100, 100 / 255)]
    ts.append(_dev_target("Light.set_hs_color", "Light.set_hs_color", lambda x: (lambda d: (d, d.set_hs_color))(light(group_address_switch=a[0], group_address_hue=a[1], group_address_saturation=a[2])(x)), native=_seq_of_numbers(2), grid=hs_grid, seq=hs_seq, weight=4))
    xyy = V.dpt_by_name("DPTColorXYY")
    ts.append(_dev_target("Light.set_xyy_color", "Light.set_xyy_color", lambda x: (lambda d: (d, d.set_xyy_color))(light(group_address_switch=a[0], group_address_xyy_color=a[1])(x)), native=_is_obj_of("XYYColor"), grid=V.dpt_grid(xyy), dpt=xyy))
    ts.append(_dev_target("Light.set_on/off", "Light.set_on/off", lambda x: (lambda d: (d, lambda v: d.set_on() if v else d.set_off()))(light(group_address_switch=a[0])(x)), native=lambda s: V.kind(s) == "bool", grid=[True, False], generic=False))
    ts.append(_dev_target("Light.set_on/off[individual]", "Light.set_on/off", lambda x: (lambda d: (d, lambda v: d.set_on() if v else d.set_off()))(light(group_address_switch_red=a[0], group_address_brightness_red=a[1], group_address_switch_green=a[2], group_address_brightness_green=a[3], group_address_switch_blue=a[4], group_address_brightness_blue=a[5])(x)), native=lambda s: V.kind(s) == "bool", grid=[True, False], generic=False))

    for inv in (False, True):
        dev_num(f"Cover.set_position(invert={inv})", "Cover.set_position", lambda x, inv=inv: (lambda d: (d, d.set_position))(Cover(x, "cover", group_address_long=a[0], group_address_stop=a[1], group_address_position=a[2], invert_position=inv)), pct_rng, weight=4)
        dev_num(f"Cover.set_angle(invert={inv})", "Cover.set_angle", lambda x, inv=inv: (lambda d: (d, d.set_angle))(Cover(x, "cover", group_address_long=a[0], group_address_angle=a[2], invert_angle=inv)), pct_rng, weight=2)
    dev_num("Cover.set_position[updown only]", "Cover.set_position[updown]", lambda x: (lambda d: (d, d.set_position))(Cover(x, "cover", group_address_long=a[0], group_address_stop=a[1])), None, accepts=_finite)

    def cover_known(x: XKNX):
        d = Cover(x, "cover", group_address_long=a[0], group_address_stop=a[1])
        d.travelcalculator.set_position(50)
        return d, d.set_position

    dev_num("Cover.set_position[updown only, position known]", "Cover.set_position[updown]", cover_known, None, accepts=_finite)

    def cover_cmd(x: XKNX):
        d = Cover(x, "cover", group_address_long=a[0], group_address_short=a[1], group_address_stop=a[2], group_address_position=a[3])
        cmds = [d.set_up, d.set_down, d.set_short_up, d.set_short_down, d.stop]
        return d, (lambda v: cmds[v]())

    ts.append(_dev_target("Cover.commands", "Cover.commands", cover_cmd, native=lambda s: True, grid=[0, 1, 2, 3, 4], generic=False, accepts=lambda s: isinstance(s, int) and not isinstance(s, bool) and 0 <= s <= 4))

    dev_num("Fan.set_speed[percent]", "Fan.set_speed", lambda x: (lambda d: (d, d.set_speed))(Fan(x, "fan", group_address_speed=a[0])), pct_rng, weight=2)
    dev_num("Fan.set_speed[step]", "Fan.set_speed", lambda x: (lambda d: (d, d.set_speed))(Fan(x, "fan", group_address_speed=a[0], max_step=3)), bri_rng)
    dev_num("Fan.turn_on[switch,percent]", "Fan.turn_on", lambda x: (lambda d: (d, d.turn_on))(Fan(x, "fan", group_address_speed=a[0], group_address_switch=a[1])), pct_rng, weight=2)
    dev_num("Fan.turn_on[switch,step]", "Fan.turn_on", lambda x: (lambda d: (d, d.turn_on))(Fan(x, "fan", group_address_speed=a[0], group_address_switch=a[1], max_step=3)), bri_rng, weight=2)
    dev_num("Fan.turn_on[percent]", "Fan.turn_on", lambda x: (lambda d: (d, d.turn_on))(Fan(x, "fan", group_address_speed=a[0])), pct_rng)
    ts.append(_dev_target("Fan.set_oscillation", "Fan.set_oscillation", lambda x: (lambda d: (d, d.set_oscillation))(Fan(x, "fan", group_address_speed=a[0], group_address_oscillation=a[1])), native=lambda s: V.kind(s) == "bool", grid=bool_grid))
    ts.append(_dev_target("Fan.turn_off", "Fan.turn_off", lambda x: (lambda d: (d, lambda v: d.turn_off()))(Fan(x, "fan", group_address_speed=a[0])), native=lambda s: True, grid=[0], generic=False, accepts=lambda s: s == 0 and not isinstance(s, bool)))

    temp_rng = V.dpt_range(V.dpt_by_name("DPTTemperature"))
    dev_num("Climate.set_target_temperature", "Climate.set_target_temperature", lambda x: (lambda d: (d, d.set_target_temperature))(Climate(x, "climate", group_address_target_temperature=a[0])), temp_rng, weight=2)
    dev_num("Climate.set_target_temperature[min/max]", "Climate.set_target_temperature", lambda x: (lambda d: (d, d.set_target_temperature))(Climate(x, "climate", group_address_target_temperature=a[0], min_temp=7, max_temp=35)), None)
    for label, smode, step in (("DPT6010,0.1", SetpointShiftMode.DPT6010, 0.1), ("DPT6010,0.5", SetpointShiftMode.DPT6010, 0.5), ("DPT9002,0.1", SetpointShiftMode.DPT9002, 0.1)):
        dev_num(f"Climate.set_setpoint_shift[{label}]", "Climate.set_setpoint_shift", lambda x, smode=smode, step=step: (lambda d: (d, d.set_setpoint_shift))(Climate(x, "climate", group_address_setpoint_shift=a[0], setpoint_shift_mode=smode, temperature_step=step)), None)

        def climate_shifted(x: XKNX, smode=smode, step=step, wide=False):
            kw = dict(setpoint_shift_max=1e6, setpoint_shift_min=-1e6) if wide else {}
            d = Climate(x, "climate", group_address_target_temperature=a[1], group_address_setpoint_shift=a[0], setpoint_shift_mode=smode, temperature_step=step, **kw)
            d.target_temperature.value = 21.0
            d._setpoint_shift.value = 1.0
            return d

        dev_num(f"Climate.set_target_temperature[via shift {label}]", "Climate.set_target_temperature[shift]", lambda x, f=climate_shifted: (lambda d: (d, d.set_target_temperature))(f(x)), None)
        dev_num(f"Climate.set_setpoint_shift[{label},wide limits]", "Climate.set_setpoint_shift", lambda x, f=climate_shifted: (lambda d: (d, d.set_setpoint_shift))(f(x, wide=True)), None, weight=2)
    dev_num("Climate.set_fan_speed[percent]", "Climate.set_fan_speed", lambda x: (lambda d: (d, d.set_fan_speed))(Climate(x, "climate", group_address_fan_speed=a[0])), pct_rng, weight=2)
    from xknx.devices.fan import FanSpeedMode

    dev_num("Climate.set_fan_speed[step]", "Climate.set_fan_speed", lambda x: (lambda d: (d, d.set_fan_speed))(Climate(x, "climate", group_address_fan_speed=a[0], fan_speed_mode=FanSpeedMode.STEP)), bri_rng)
    for meth, key in (("set_swing", "group_address_swing"), ("set_horizontal_swing", "group_address_horizontal_swing")):
        ts.append(_dev_target(f"Climate.{meth}", f"Climate.{meth}", lambda x, meth=meth, key=key: (lambda d: (d, getattr(d, meth)))(Climate(x, "climate", **{key: a[0]})), native=lambda s: V.kind(s) == "bool", grid=bool_grid))
    ts.append(_dev_target("Climate.turn_on/off", "Climate.turn_on/off", lambda x: (lambda d: (d, lambda v: d.turn_on() if v else d.turn_off()))(Climate(x, "climate", group_address_on_off=a[0], on_off_invert=True)), native=lambda s: V.kind(s) == "bool", grid=[True, False], generic=False))

    def climate_mode(**kw: Any) -> Callable[[XKNX], ClimateMode]:
        return lambda x: ClimateMode(x, "mode", **kw)

    def cm_status(x: XKNX) -> ClimateMode:
        d = ClimateMode(x, "mode", group_address_controller_status=a[0])
        d.remote_value_controller_status.value = d.remote_value_controller_status.from_knx(DPTArray((0x21,)))
        return d

    cm_cfgs: list[tuple[str, Callable[[XKNX], ClimateMode]]] = [
        ("operation_mode", climate_mode(group_address_operation_mode=a[0])),
        ("binary", climate_mode(group_address_operation_mode_protection=a[0], group_address_operation_mode_economy=a[1], group_address_operation_mode_comfort=a[2], group_address_operation_mode_standby=a[3])),
        ("controller_mode", climate_mode(group_address_controller_mode=a[0])),
        ("heat_cool", climate_mode(group_address_heat_cool=a[0])),
        ("controller_status", cm_status),
        ("controller_status uninitialised", climate_mode(group_address_controller_status=a[0])),
        ("all", climate_mode(group_address_operation_mode=a[0], group_address_controller_mode=a[1], group_address_heat_cool=a[2], group_address_operation_mode_comfort=a[3])),
    ]
    for label, mk in cm_cfgs:
        for meth, pred in (("set_operation_mode", is_op), ("set_controller_mode", is_ct)):
            ts.append(_dev_target(f"ClimateMode.{meth}[{label}]", f"ClimateMode.{meth}", lambda x, mk=mk, meth=meth: (lambda d: (d, getattr(d, meth)))(mk(x)), native=pred, grid=mode_grid, allowed=(DeviceIllegalValue,)))

    for d in sample:
        rng = V.dpt_range(d)
        common = dict(rng=rng, grid=V.dpt_grid(d), dpt=d)
        if issubclass(d, DPTNumeric):
            ts.append(_dev_target(f"NumericValue.set[{d.__name__}]", "NumericValue.set", lambda x, d=d: (lambda dev: (dev, dev.set))(NumericValue(x, "num", group_address=a[0], value_type=d)), native=_num_native, **common))
        ts.append(_dev_target(f"ExposeSensor.set[{d.__name__}]", "ExposeSensor.set", lambda x, d=d: (lambda dev: (dev, dev.set))(ExposeSensor(x, "exp", group_address=a[0], value_type=d)), native=lambda s, d=d: V.dpt_native(d, s), any_typed=True, **common))
    ts.append(_dev_target("ExposeSensor.set[binary]", "ExposeSensor.set", lambda x: (lambda dev: (dev, dev.set))(ExposeSensor(x, "exp", group_address=a[0], value_type="binary")), native=lambda s: V.kind(s) == "bool", any_typed=True, grid=bool_grid))
    pct = V.dpt_by_name("DPTScaling")
    ts.append(_dev_target("ExposeSensor.set[percent,cooldown]", "ExposeSensor.set", lambda x: (lambda dev: (dev, dev.set))(ExposeSensor(x, "exp", group_address=a[0], value_type="percent", cooldown=5)), native=_num_native, any_typed=True, rng=V.dpt_range(pct), grid=V.dpt_grid(pct), dpt=pct))

    def expose_respond(x: XKNX):
        dev = ExposeSensor(x, "exp", group_address=a[0], value_type="percent")

        def call(v: Any) -> None:
            dev.initialize_value(v)
            dev.sensor_value.respond()

        return dev, call

    ts.append(_dev_target("ExposeSensor.initialize_value+respond[percent]", "ExposeSensor.initialize_value", expose_respond, native=_num_native, any_typed=True, rng=V.dpt_range(pct), grid=V.dpt_grid(pct), dpt=pct))

    for n in (0, 1, 2):
        rng = (0, 63, 1) if n == 0 else (0, 256**n - 1, 1)
        ts.append(_dev_target(f"RawValue.set({n})", "RawValue.set", lambda x, n=n: (lambda dev: (dev, dev.set))(RawValue(x, "raw", n, group_address=a[0])), native=lambda s: V.kind(s) in ("int", "bool"), rng=rng, grid=V.numeric_grid(*rng)))
    for meth in ("run", "learn"):
        ts.append(
            _dev_target(
                f"Scene.{meth}",
                f"Scene.{meth}",
                lambda x, meth=meth: (None, None),  # replaced below
                native=lambda s: V.kind(s) == "int",
                grid=[0, 1, 2, 63, 64, 65, 100, 255, 256, -1],
                rng=(1, 64, 1),
                generic=False,
                accepts=lambda s: V.kind(s) == "int" and abs(s) < 10**6,
            )
        )

        def scene_build(xknx: XKNX, meth=meth):
            holder: dict[str, Any] = {}

            def call(v: Any) -> Any:
                dev = Scene(xknx, "scene", group_address=a[0], scene_number=v)
                holder["dev"] = dev
                return getattr(dev, meth)()

            return call, Probe(lambda t: "DPTSceneControl.to_knx")

        ts[-1].build = scene_build
    for d in (V.dpt_by_name("DPTString"), V.dpt_by_name("DPTLatin1")):
        ts.append(_dev_target(f"Notification.set[{d.__name__}]", "Notification.set", lambda x, d=d: (lambda dev: (dev, dev.set))(Notification(x, "notif", group_address=a[0], value_type=d)), native=lambda s: V.kind(s) == "str", grid=V.STRING_GRID, dpt=d))
    ts.append(_dev_target("Switch.set_on/off", "Switch.set_on/off", lambda x: (lambda d: (d, lambda v: d.set_on() if v else d.set_off()))(Switch(x, "switch", group_address=a[0], invert=True, reset_after=1.0)), native=lambda s: V.kind(s) == "bool", grid=[True, False], generic=False))

    dt_grid = [
        {"$": "time", "v": [0, 0, 0]}, {"$": "time", "v": [23, 59, 59]}, {"$": "time", "v": [12, 30, 15, 999999]},
        {"$": "date", "v": [1, 1, 1]}, {"$": "date", "v": [1989, 12, 31]}, {"$": "date", "v": [1990, 1, 1]}, {"$": "date", "v": [2089, 12, 31]}, {"$": "date", "v": [2090, 1, 1]}, {"$": "date", "v": [9999, 12, 31]},
        {"$": "datetime", "v": [1, 1, 1]}, {"$": "datetime", "v": [1899, 12, 31, 23, 59, 59]}, {"$": "datetime", "v": [1900, 1, 1]}, {"$": "datetime", "v": [2155, 12, 31, 23, 59, 59]}, {"$": "datetime", "v": [2156, 1, 1]}, {"$": "datetime", "v": [9999, 12, 31]},
    ]
    for cls, dptn, objn, pykind in ((TimeDevice, "DPTTime", "KNXTime", "time"), (DateDevice, "DPTDate", "KNXDate", "date"), (DateTimeDevice, "DPTDateTime", "KNXDateTime", "datetime")):
        d = V.dpt_by_name(dptn)
        # datetime.datetime is a datetime.date: both are what DateDevice.set() is annotated with
        kinds = {"time": ("time",), "date": ("date", "datetime"), "datetime": ("datetime",)}[pykind]
        ts.append(
            _dev_target(
                f"{cls.__name__}.set",
                f"{cls.__name__}.set",
                lambda x, cls=cls: (lambda dev: (dev, dev.set))(cls(x, "dt", group_address=a[0])),
                native=lambda s, objn=objn, kinds=kinds: V.kind(s) in kinds or _is_obj_of(objn)(s),
                grid=V.dpt_grid(d) + dt_grid,
                dpt=d,
                special="datetime",
            )
        )

    # ---- group communication helpers and MCP write tool ------------------------------------
    raw_grid = [0, 1, 63, 64, -1, True, [0], [255], [256], [-1], [1, 2, 3], T(0x0C, 0x00), T(300,), B(b"\x0c\x00"), [], T(), B(b""), [0] * 253, [0] * 254, [1.0], [[1]]]
    def raw_decode(t: Telegram) -> Any:
        pv = t.payload.value
        return pv.value if isinstance(pv, DPTBinary) else None

    raw_label = Probe((lambda t: "_parse_payload[raw]"), raw_decode)
    for fname, fn in (("group_value_write", group_value_write), ("group_value_response", group_value_response)):
        ts.append(Target(f"tools:{fname}[raw]", f"tools.{fname}[raw]", lambda x, fn=fn: ((lambda v: fn(x, G, v)), raw_label), any_typed=True, native=lambda s: V.kind(s) in ("int", "bool", "list", "tuple", "bytes"), grid=raw_grid, special="raw", rng=(0, 63, 1), weight=6))

    for d in V.all_dpts():
        rng = V.dpt_range(d)
        common = dict(native=lambda s, d=d: V.dpt_native(d, s), any_typed=True, rng=rng, grid=V.dpt_grid(d), dpt=d)
        label = Probe((lambda t, d=d: f"{d.__name__}.to_knx"), (lambda t, d=d: d.from_knx(t.payload.value)))
        ts.append(Target(f"tools:group_value_write[{d.__name__}]", "tools.group_value_write[dpt]", lambda x, d=d, label=label: ((lambda v: group_value_write(x, G, v, d)), label), **common))
        if d in sample:
            ts.append(Target(f"tools:group_value_response[{d.__name__}]", "tools.group_value_response[dpt]", lambda x, d=d, label=label: ((lambda v: group_value_response(x, G, v, d)), label), **common))
        number = d.dpt_number_str()
        ts.append(
            Target(
                f"mcp:send_group_value_write[{d.__name__}]",
                "mcp.send_group_value_write[dpt]",
                lambda x, number=number, label=label: ((lambda v: send_group_value_write(x, GroupValueWriteInput(group_address=G, value=v, value_type=number))), label),
                accepts=_json_only,
                **{**common, "thorough_only": d not in sample},
            )
        )
    ts.append(
        Target(
            "mcp:send_group_value_write[raw]",
            "mcp.send_group_value_write[raw]",
            lambda x: ((lambda v: send_group_value_write(x, GroupValueWriteInput(group_address=G, value=v))), raw_label),
            any_typed=True,
            native=lambda s: V.kind(s) in ("int", "bool", "list"),
            grid=raw_grid,
            rng=(0, 63, 1),
            special="raw",
            accepts=_json_only,
            weight=6,
        )
    )
    # value-type given by name instead of class (same encoder; a few, for the lookup path)
    for vt in ("percent", "temperature", "string", "1.001", "color_rgb", 9, "DPT-14"):
        d = DPTBase.get_dpt(vt)
        ts.append(
            Target(
                f"tools:group_value_write[by name {vt!r}]",
                "tools.group_value_write[dpt]",
                lambda x, vt=vt, d=d: ((lambda v: group_value_write(x, G, v, vt)), Probe((lambda t: f"{d.__name__}.to_knx"), (lambda t: d.from_knx(t.payload.value)))),
                native=lambda s, d=d: V.dpt_native(d, s),
                any_typed=True,
                rng=V.dpt_range(d),
                grid=V.dpt_grid(d),
                dpt=d,
            )
        )

    names = [t.name for t in ts]
    assert len(set(names)) == len(names), [n for n in names if names.count(n) > 1]
    _TARGETS = ts
    _BY_NAME.update({t.name: t for t in ts})
    return ts


# ----------------------------------------------------------------------------- drivers


def selftest(ctx) -> None:
    # layout reader: a hand-built telegram with a known payload passes, a masked one is noticed
    from xknx.telegram import IndividualAddress

    t = Telegram(destination_address=GroupAddress("1/2/3"), payload=GroupValueWrite(DPTArray((0x0C, 0x1A))), source_address=IndividualAddress("1.1.1"))
    assert wire_check(t) is None
    t = Telegram(destination_address=GroupAddress("1/2/3"), payload=GroupValueResponse(DPTBinary(5)))
    assert wire_check(t) is None
    def forged(octets: tuple) -> DPTArray:
        arr = DPTArray(0)
        arr.value = octets  # bypass any validation of the constructor
        return arr

    for octets, reason in (((300,), "octet-out-of-range"), ((-1,), "octet-out-of-range"), ((1.5,), "non-int-octet"), ((0,) * 254, "too-long")):
        bad = forged(octets)
        r = wire_check(Telegram(destination_address=GroupAddress("1/2/3"), payload=GroupValueWrite(bad)))
        assert r is not None and r[0] == "unserialisable" and r[1].startswith(reason), (bad, r)
    r = wire_check(Telegram(destination_address=GroupAddress("1/2/3"), payload=GroupValueWrite(forged(()))))
    assert r is not None and r[0] == "unserialisable" and r[1].startswith("empty-array"), r
    assert out_of_range((0, 100, 0.4), 150) and not out_of_range((0, 100, 0.4), 100.3) and not out_of_range((0, 100, 1), True)
    assert not out_of_range((0, 100, 1), float("nan")) and out_of_range((0, 100, 1), float("inf"))
    assert V.mat(T(1, F(float("inf")))) == (1, float("inf"))
    ts = build_targets()
    assert len(ts) > 900, len(ts)


def _grid_shard(ctx, nshards: int, tier_quick: bool) -> None:
    ts = build_targets()
    h = Harness()
    try:
        for i, tgt in enumerate(ts):
            if i % nshards != ctx.shard or (tier_quick and tgt.thorough_only):
                continue
            vals = tgt.grid_values()
            for j, spec in enumerate(vals):
                run_case(ctx, h, tgt, spec)
                if (i * 7 + j) % 9973 == 0:
                    ctx.sample({"target": tgt.name, "value": spec})
            ctx.classes[f"entry:{tgt.group.split('[')[0].split('.')[0]}"] += len(vals)
    finally:
        h.close()


def _case_strategy(ts: list[Target]) -> Any:
    """(position in the weighted target list, value program): one static strategy for all targets."""
    return st.tuples(st.integers(0, 1_000_000), V.program_strategy())


def _weighted(ts: list[Target], quick: bool) -> list[int]:
    out: list[int] = []
    for i, t in enumerate(ts):
        if not (quick and t.thorough_only):
            out += [i] * t.weight
    return out


def _hyp_shard(ctx, n: int) -> None:
    ts = build_targets()
    h = Harness()

    index = _weighted(ts, ctx.quick)

    def oracle(c, case: tuple[int, tuple]) -> None:
        w, prog = case
        tgt = ts[index[w % len(index)]]
        spec = tgt.from_program(prog)
        if spec is None:
            return
        run_case(c, h, tgt, spec)

    try:
        hyp_search(ctx, _case_strategy(ts), oracle, n, shrink_cap_s=6.0 if ctx.quick else 40.0)
    finally:
        h.close()


def run(ctx) -> None:
    ts = build_targets()
    ctx.notes["targets"] = len([t for t in ts if not (ctx.quick and t.thorough_only)])
    ctx.notes["target_groups"] = len({t.group for t in ts})
    nshards = 16
    parallel(ctx, _grid_shard, [(nshards, ctx.quick)] * nshards)
    parallel(ctx, _hyp_shard, [(ctx.n(1000, 20000),)] * nshards)


def replay(ctx, case) -> None:
    build_targets()
    tgt = _BY_NAME.get(case.get("target"))
    if tgt is None:
        return
    h = Harness()
    try:
        run_case(ctx, h, tgt, case.get("value"), count=False)
    finally:
        h.close()
