"""C32 - device management requests get only their own answer.

The real UDP / TCP device-management connections run on the virtual-time loop against a
scriptable device-management server (a `SimGateway` subclass below): every received
DeviceConfigurationRequest transmission is acknowledged according to an ACK plan
(ok, request lost, ack lost, duplicate ack, error status, ack with a foreign counter,
ack with a foreign channel) and every accepted request is answered according to an
answer plan (right, late beyond the timeout, twice, other property, other object type,
other instance, other message type, none, M_PropInfo.ind for the same or another property
interleaved before the answer or instead of it, error code), on connections with and
without an indication callback; the
connection is closed (server DisconnectRequest, transport loss, client disconnect()) at
generated offsets after a request was received. All plans up to a bounded length are
enumerated for 1-2 requests, longer ones (3 callers, reconnects) are sampled. The oracle
reads the wire log of the simulator, the outcome of every read_property /
write_property call and the indication callback.
"""

from __future__ import annotations

import asyncio
import itertools

from hypothesis import strategies as st

from vk.core import HarnessError, exc_site
from vk.engine import hyp_search, parallel
from vk.simgw import GW_ADDR, NET_DELAY, SimGateway
from vk.vloop import BudgetExceeded, Deadlock, run_case

PROPERTY = "C32"
LEVEL = "fault_enumeration"
TECHNIQUE = "bounded exhaustive enumeration of server ACK / answer / close fault plans + Hypothesis-sampled longer schedules; real UDP/TCP device-management connection on a virtual-time loop vs scriptable simulated server; wire-log oracle"
RULE = (
    "case = (transport, indication callback registered or not, 1..3 read/write callers on distinct properties, concurrent or sequential, per-transmission ACK plan, per-accepted-request answer plan, "
    "optionally a queued caller given up (cancelled) while another request is outstanding, optional close {server DisconnectRequest, transport loss, client disconnect()} at an offset after the n-th request was received, optional reconnect + one more request); "
    "enumerated: 1 request x all ACK plans up to length 2 (4 over a reduced alphabet) x all answers x read/write; 1 request x ACK x answer x close kind x 7 offsets; "
    "2 requests x ACK plans up to length 1 x all answer pairs (length 2: reduced answer alphabet at the quick tier) x {seq, conc}; 2 requests x close on either; TCP analogues with 1..3 requests; "
    "sampled: plans up to 8 ACK / 4 answer symbols with random offsets; non-trivial = plan with at least one fault symbol or a close; distinct by case"
)
LEVEL_TEXT = "Every bounded fault plan of the simulated server is executed against the real connection classes in virtual time; answer matching, indication routing, one-outstanding-request, prompt failure on close, repetition count/counter and counter progression are decided from the simulator's wire log and the call outcomes. Longer schedules are sampled, not enumerated."
LEVEL_NOTE = "Schedules are those expressible by the simulator: one client, virtual time, 5 ms network delay, faults per received transmission / accepted request; the KNX/IP and cEMI codecs used to build and parse the simulator's frames are trusted here (C12/C20/C21)."
ASSUMPTIONS = [
    "single-threaded asyncio on a virtual clock; network delay 5 ms; server behaviour limited to the fault alphabets",
    "concurrent callers use pairwise distinct (object type, instance, property) triples: cEMI property services carry no transaction id, so a stale answer for the very same property cannot be told from the awaited one",
    "'accepted request' = the simulated server processed a transmission (acknowledged it without error, or processed it while its acknowledgement was lost); an error-status ack, a lost request or a stray ack do not accept",
    "'promptly' = at the virtual instant the close takes effect at the client (DisconnectRequest delivered, transport reported lost, disconnect() called)",
    "an indication delivered at the very instant of a close may or may not reach the callback",
]

TIMEOUT = 10.0
EPS = 1e-6

ACKS = ["ok", "drop", "acklost", ("dup", 0.02), "err", "stale", "wrongch"]
ACKS_SMALL = ["ok", "drop", "err", "stale"]
ANSWERS = ["right", ("late", 10.5), "twice", "otherprop", "othertype", "otherinst", "othermsg", "none", "ind", "indnone", "indother", "errcode"]
ANSWERS_SMALL = ["right", "none", ("late", 10.5), "otherprop"]
CLOSE_DELAYS = [0.0, 0.003, 0.0075, 0.012, 5.0, 10.004, 12.0]
SYM = {"ok": "k", "drop": "d", "acklost": "l", "dup": "D", "err": "e", "stale": "s", "wrongch": "w"}
ASYM = {"right": "r", "late": "L", "twice": "2", "otherprop": "p", "othertype": "t", "otherinst": "i", "othermsg": "m", "none": "n", "ind": "I", "indnone": "J", "indother": "O", "errcode": "E"}

# (object type, instance, property id): pairwise distinct in all three fields' combination
PROPS = [(0x000B, 1, 52), (0x0000, 1, 12), (0x000B, 2, 56), (0x0008, 1, 30)]
RECONNECT_PROP = (0x000B, 1, 70)


def _t(o):
    return tuple(o) if isinstance(o, list) else o


def _name(o):
    o = _t(o)
    return o if isinstance(o, str) else o[0]


def label(case) -> str:
    a = "".join(SYM[_name(o)] for o in case.get("ack_plan", []))
    b = "".join(ASYM[_name(o)] for o in case.get("ans_plan", []))
    c = case.get("close")
    return f"{case['transport']}{'-nocb' if case.get('no_cb') else ''}/{case.get('mode', 'seq')}/{len(case['reqs'])} ack[{a}] ans[{b}]" + (f" close[{c['kind']}@{c['req']}+{c['delay']}]" if c else "") + "".join(f" giveup[{g['call']}+{g['delay']}]" for g in case.get("give_up", []))


# ---------------------------------------------------------------------------
# simulated device-management server
# ---------------------------------------------------------------------------


class DevMgmtGateway(SimGateway):
    """SimGateway + scriptable device-management server (see module docstring)."""

    def __init__(self, case: dict, req_by_raw: dict[bytes, int]) -> None:
        super().__init__()
        self.ack_plan = [_t(o) for o in case.get("ack_plan", [])]
        self.ans_plan = [_t(o) for o in case.get("ans_plan", [])]
        self.close = case.get("close")
        self.req_by_raw = req_by_raw
        self.accepted: set[tuple[int, int]] = set()
        self.first_rx: list[tuple[int, int]] = []
        self.next_tag = 0x4100
        self.client_disconnect = None  # set by the scenario
        self.close_t: float | None = None
        self.hooks["devcfg"] = DevMgmtGateway._devcfg

    # -- frames to the client ------------------------------------------------
    def _send_cemi(self, delay: float, raw_cemi: bytes, **extra) -> None:
        """Server DeviceConfigurationRequest; the sequence counter is taken when the frame leaves."""
        from xknx.knxip import DeviceConfigurationRequest

        ch, tr = self.channel, self.tr

        def _go() -> None:
            if ch is None or self.channel != ch:
                return  # the connection this frame belonged to is gone at the server
            seq = self.server_seq
            self.server_seq = (self.server_seq + 1) & 0xFF
            self.to_client(DeviceConfigurationRequest(ch, seq, raw_cemi), 0.0, tr, **extra)

        self.loop.call_later(max(delay - 1e-9, 0.0), _go)

    def _tag(self) -> bytes:
        self.next_tag += 1
        return self.next_tag.to_bytes(2, "big")

    def _prop_frame(self, code: int, prop: tuple[int, int, int], data: bytes, noe: int = 1) -> bytes:
        """cEMI M_Prop* frame built from the layout (3/6/3 §4.1.7.3): MC, IOT(2), OI, PID, NoE|SIx(2), data."""
        ot, oi, pid = prop
        return bytes([code]) + ot.to_bytes(2, "big") + bytes([oi, pid]) + ((noe << 12) | 1).to_bytes(2, "big") + data

    def _answer(self, i: int, raw_req: bytes) -> None:
        code = raw_req[0]
        prop = (int.from_bytes(raw_req[1:3], "big"), raw_req[3], raw_req[4])
        is_read = code == 0xFC
        con = 0xFB if is_read else 0xF5
        other_con = 0xF5 if is_read else 0xFB
        a = self.ans_plan.pop(0) if self.ans_plan else "right"
        d0 = 2 * NET_DELAY

        def frame(mc: int, p, kind: str, delay: float, error: bool = False) -> None:
            tag = self._tag()
            if mc == 0xF5:  # M_PropWrite.con: no data unless error
                raw = self._prop_frame(mc, p, bytes([0x07]) if error else b"", 0 if error else 1)
                tag = b""
            elif error:
                raw = self._prop_frame(mc, p, bytes([0x07]), 0)
                tag = b""
            else:
                raw = self._prop_frame(mc, p, tag)
            self._send_cemi(delay, raw, answer_kind=kind, for_req=i, mc=mc, prop=list(p), tag=tag, error=error)

        name = _name(a)
        if name == "right":
            frame(con, prop, "right", d0)
        elif name == "late":
            frame(con, prop, "late", a[1])
        elif name == "twice":
            frame(con, prop, "right", d0)
            frame(con, prop, "duplicate", d0 + 0.02)
        elif name == "otherprop":
            frame(con, (prop[0], prop[1], prop[2] + 100), "otherprop", d0)
        elif name == "othertype":
            frame(con, (0x0006 if prop[0] != 0x0006 else 0x0001, prop[1], prop[2]), "othertype", d0)
        elif name == "otherinst":
            frame(con, (prop[0], prop[1] + 1, prop[2]), "otherinst", d0)
        elif name == "othermsg":
            frame(other_con, prop, "othermsg", d0)
        elif name == "none":
            pass
        elif name == "ind":
            frame(0xF7, prop, "indication", 1.5 * NET_DELAY)
            frame(con, prop, "right", d0)
        elif name == "indother":
            frame(0xF7, (prop[0], prop[1], prop[2] + 100), "indication-other-property", 1.5 * NET_DELAY)
            frame(con, prop, "right", d0)
        elif name == "indnone":
            frame(0xF7, prop, "indication", d0)
        elif name == "errcode":
            frame(con, prop, "right-error", d0, error=True)
        else:
            raise HarnessError(f"unknown answer symbol {a}")

    # -- client frames -------------------------------------------------------
    def _devcfg(self, tr, body, entry) -> None:
        from xknx.knxip import DeviceConfigurationAck, ErrorCode

        i = self.req_by_raw.get(body.raw_cemi)
        entry["req"] = i
        if i is None:
            raise HarnessError("unknown request at the simulated server")
        key = (self.epoch, i)
        if key not in self.first_rx:
            self.first_rx.append(key)
            c = self.close
            if c is not None and c["req"] == len(self.first_rx) - 1:
                self.loop.call_later(c["delay"], self._do_close, c["kind"])
        ch, seq = body.communication_channel_id, body.sequence_counter
        if tr.kind == "tcp":
            entry["outcome"] = "tcp"
            accept = True
        else:
            o = self.ack_plan.pop(0) if self.ack_plan else "ok"
            entry["outcome"] = o if isinstance(o, str) else list(o)
            name = _name(o)
            accept = name in ("ok", "acklost", "dup")
            if name in ("ok", "dup"):
                self.to_client(DeviceConfigurationAck(ch, seq), NET_DELAY, tr)
            if name == "dup":
                self.to_client(DeviceConfigurationAck(ch, seq), NET_DELAY + o[1], tr)
            elif name == "err":
                self.to_client(DeviceConfigurationAck(ch, seq, ErrorCode.E_CONNECTION_ID), NET_DELAY, tr)
            elif name == "stale":
                self.to_client(DeviceConfigurationAck(ch, (seq - 1) & 0xFF), NET_DELAY, tr)
            elif name == "wrongch":
                self.to_client(DeviceConfigurationAck((ch % 250) + 1, seq), NET_DELAY, tr)
        if accept and key not in self.accepted:
            self.accepted.add(key)
            entry["accepted"] = True
            self._answer(i, body.raw_cemi)

    def _do_close(self, kind: str) -> None:
        if self.close_t is not None:
            return
        if kind == "sdisc":
            if self.channel is None:
                return
            self.server_disconnect(delay=0.0)
        elif kind == "lose":
            if self.tr is None or self.tr.kind != "tcp" or self.tr.closed:
                return
            self.log.append({"t": round(self.loop.time(), 6), "tick": self.loop.tick, "dir": "s2c", "kind": "transport_lost", "epoch": self.epoch})
            self.lose_transport(0.0)
        elif kind == "cdisc":
            self.log.append({"t": round(self.loop.time(), 6), "tick": self.loop.tick, "dir": "c2s", "kind": "client_disconnect_called", "epoch": self.epoch})
            self.client_disconnect()
        else:
            raise HarnessError(f"unknown close kind {kind}")
        self.close_t = self.loop.time()


# ---------------------------------------------------------------------------
# execution
# ---------------------------------------------------------------------------


def request_raw(op: str, prop: tuple[int, int, int], i: int) -> bytes:
    ot, oi, pid = prop
    head = ot.to_bytes(2, "big") + bytes([oi, pid, 0x10, 0x01])
    return (bytes([0xFC]) + head) if op == "read" else (bytes([0xF6]) + head + bytes([0xA0 + i]))


def execute(case: dict):
    from xknx.exceptions import CommunicationError
    from xknx.io import TCPDeviceManagementConnection, UDPDeviceManagementConnection
    from xknx.profile.const import ResourceObjectType

    reqs = list(case["reqs"])
    props = [PROPS[r["prop"]] for r in reqs]
    if case.get("reconnect"):
        reqs.append({"op": "read", "prop": -1})
        props.append(RECONNECT_PROP)
    raws = [request_raw(r["op"], p, i) for i, (r, p) in enumerate(zip(reqs, props))]
    if len(set(raws)) != len(raws):
        raise HarnessError("requests of a case must be pairwise distinct")
    gw = DevMgmtGateway(case, {r: i for i, r in enumerate(raws)})
    calls: dict[int, dict] = {}
    inds: list[dict] = []
    out: dict = {"reconnect": None}

    async def scenario(loop):
        gw.attach(loop)

        def on_ind(cemi) -> None:
            try:
                raw = cemi.to_knx()
            except Exception as e:  # noqa: BLE001
                raw = repr(e).encode()
            inds.append({"t": round(loop.time(), 6), "tick": loop.tick, "raw": raw})

        # with and without an indication callback (None is the constructor default)
        cb = {} if case.get("no_cb") else {"indication_callback": on_ind}
        if case["transport"] == "udp":
            conn = UDPDeviceManagementConnection(GW_ADDR[0], GW_ADDR[1], local_ip="10.0.0.2", **cb)
        else:
            conn = TCPDeviceManagementConnection(GW_ADDR[0], GW_ADDR[1], **cb)
        bg: list = []

        def client_disconnect() -> None:
            bg.append(asyncio.ensure_future(conn.disconnect()))

        gw.client_disconnect = client_disconnect
        await conn.connect()

        async def call(i: int) -> None:
            r, p = reqs[i], props[i]
            rec = calls[i] = {"t0": round(loop.time(), 6), "tick0": loop.tick, "res": None}
            try:
                if r["op"] == "read":
                    v = await conn.read_property(ResourceObjectType(p[0]), p[2], object_instance=p[1])
                    rec["res"] = ("ok", bytes(v))
                else:
                    await conn.write_property(ResourceObjectType(p[0]), p[2], bytes([0xA0 + i]), object_instance=p[1])
                    rec["res"] = ("ok", None)
            except CommunicationError as e:
                rec["res"] = ("comm", repr(e)[:160])
            except asyncio.CancelledError:
                if rec.get("given_up") is not None:
                    rec["res"] = ("given-up",)  # the caller cancelled this call while it queued for the connection
                else:
                    rec["res"] = ("cancelled",)
                    if asyncio.current_task().cancelling():  # the harness is tearing down
                        raise
            except Exception as e:  # noqa: BLE001
                rec["res"] = ("exc", exc_site(e), repr(e)[:200])
            rec["t1"] = round(loop.time(), 6)
            rec["tick1"] = loop.tick

        n = len(case["reqs"])
        if case.get("mode") == "conc":
            tasks = [asyncio.ensure_future(call(i)) for i in range(n)]

            def give_up(j: int) -> None:
                # the caller gives a queued call up (task.cancel(), as asyncio.wait_for does on its timeout) -
                # only while it still waits for its turn: nothing of it is on the wire yet
                if j >= n or j not in calls or tasks[j].done():
                    return
                if any(e["dir"] == "c2s" and e.get("req") == j for e in gw.log):
                    return
                calls[j]["given_up"] = round(loop.time(), 6)
                gw.log.append({"t": round(loop.time(), 6), "tick": loop.tick, "dir": "c2s", "kind": "call_given_up", "req": j, "epoch": gw.epoch})
                tasks[j].cancel()

            for g in case.get("give_up", []):
                loop.call_later(g["delay"], give_up, g["call"])
            _, pending = await asyncio.wait(tasks, timeout=80.0 * n + 100)
        else:
            pending = set()
            for i in range(n):
                t = asyncio.ensure_future(call(i))
                _, p_ = await asyncio.wait([t], timeout=180.0)
                pending |= p_
        out["pending"] = len(pending)
        for t in pending:
            t.cancel()
        await asyncio.sleep(case.get("tail", 0.5))
        if case.get("reconnect") and not pending:
            for t in bg:
                await asyncio.wait([t], timeout=30)
            try:
                if conn.communication_channel is not None:
                    await conn.disconnect()
                await conn.connect()
                out["reconnect"] = "ok"
            except CommunicationError as e:
                out["reconnect"] = "comm " + repr(e)[:100]
            if out["reconnect"] == "ok":
                t = asyncio.ensure_future(call(n))
                _, p_ = await asyncio.wait([t], timeout=180.0)
                out["pending"] += len(p_)
        try:
            await asyncio.wait_for(conn.disconnect(), 30)
        except (CommunicationError, TimeoutError):
            pass
        for t in bg:
            if t.done() and not t.cancelled() and t.exception() is not None:
                out.setdefault("bg_exc", []).append(repr(t.exception()))
        return None

    _, loop = run_case(scenario, net=None, max_iters=400_000)
    if gw.errors:
        raise HarnessError("simulator error: " + gw.errors[0])
    return gw, calls, inds, out, raws, loop.escaped


# ---------------------------------------------------------------------------
# oracle
# ---------------------------------------------------------------------------


def judge(ctx, case, gw, calls, inds, out, raws, escaped) -> None:
    inp = case
    udp = case["transport"] == "udp"
    log = gw.log
    txs = [e for e in log if e["dir"] == "c2s" and e["kind"] == "DeviceConfigurationRequest"]
    acks = [e for e in log if e["dir"] == "s2c" and e["kind"] == "DeviceConfigurationAck"]
    frames = [e for e in log if e["dir"] == "s2c" and e["kind"] == "DeviceConfigurationRequest"]
    for e in escaped:
        ctx.fail(f"C32:escaped:{type(e['exception']).__name__}", inp, e["repr"] + " " + e["message"])
    for x in out.get("bg_exc", []):
        ctx.fail("C32:disconnect-raised", inp, x)
    if out.get("pending"):
        ctx.fail("C32:call-never-completed", inp, f"{out['pending']} calls still pending after the horizon")
    for i, c in calls.items():
        if c["res"] is None:
            continue
        if c["res"][0] == "exc":
            ctx.fail(f"C32:call-raised-undeclared:{c['res'][1]}", inp, f"call {i}: {c['res'][2]}")
        elif c["res"][0] == "cancelled":
            ctx.fail("C32:call-raised-undeclared:CancelledError", inp, f"call {i} ended with CancelledError although its task was not cancelled")

    first_tx = {}
    for e in txs:
        first_tx.setdefault(e["req"], e)

    # (A) a returned answer is the request's own ------------------------------------------------
    for i, c in calls.items():
        if c["res"] is None or c["res"][0] != "ok":
            continue
        raw = raws[i]
        want_mc = 0xFB if raw[0] == 0xFC else 0xF5
        want_prop = [int.from_bytes(raw[1:3], "big"), raw[3], raw[4]]
        ft = first_tx.get(i)
        if ft is None:
            ctx.fail("C32:returned-without-request-on-the-wire", inp, f"call {i} returned {c['res']} but no request was transmitted")
            continue
        window = [f for f in frames if (ft["t"], ft["tick"]) < (f["t"], f["tick"]) and f["t"] <= c["t1"] + EPS]
        if raw[0] == 0xFC:
            data = c["res"][1]
            src = [f for f in frames if f.get("tag") and f["tag"] == data]
            if not src:
                ctx.fail("C32:returned-data-of-no-frame", inp, f"call {i} returned {data.hex()} which no server frame carried")
                continue
            f = src[0]
            diffs = []
            if f["mc"] != want_mc:
                diffs.append("message-type")
            if f["prop"][0] != want_prop[0]:
                diffs.append("object-type")
            if f["prop"][1] != want_prop[1]:
                diffs.append("object-instance")
            if f["prop"][2] != want_prop[2]:
                diffs.append("property-id")
            if diffs:
                ctx.fail(f"C32:answer-mismatch:{diffs[0]}", inp, f"call {i} for {want_prop} (awaits {want_mc:#04x}) returned data {data.hex()} of frame mc={f['mc']:#04x} prop={f['prop']} ({f['answer_kind']})")
            elif f not in window:
                ctx.fail("C32:answer-outside-call-window", inp, f"call {i} transmitted at {ft['t']} returned at {c['t1']} data of a frame delivered at {f['t']}")
        else:
            good = [f for f in window if f["mc"] == want_mc and f["prop"] == want_prop and not f["error"]]
            if not good:
                ctx.fail(
                    "C32:write-returned-without-own-confirmation",
                    inp,
                    f"write call {i} for {want_prop} returned normally at {c['t1']}; frames delivered since its transmission: {[(f['t'], hex(f['mc']), f['prop'], f['error']) for f in window]}",
                )

    # (A2) the outstanding request gets its own answer: a matching, error-free confirmation that was delivered
    # while the call was outstanding (after its request went out, strictly before the call ended, connection not closing)
    closing = [(e["t"], e["tick"], e["epoch"]) for e in log if e["kind"] in ("transport_lost", "client_disconnect_called", "DisconnectRequest")]
    for i, c in calls.items():
        if c["res"] is None or c["res"][0] != "comm" or i not in first_tx:
            continue
        raw = raws[i]
        want_mc = 0xFB if raw[0] == 0xFC else 0xF5
        want_prop = [int.from_bytes(raw[1:3], "big"), raw[3], raw[4]]
        ft = first_tx[i]
        own = [
            f
            for f in frames
            if f.get("for_req") == i and f["mc"] == want_mc and f["prop"] == want_prop and not f["error"] and f["epoch"] == ft["epoch"]
            and (ft["t"], ft["tick"]) < (f["t"], f["tick"]) and f["t"] < c["t1"] - EPS
            and not any(ep == f["epoch"] and (t, k) <= (f["t"], f["tick"]) for t, k, ep in closing)
        ]
        if own:
            gu = [e["t"] for e in log if e["kind"] == "call_given_up"]
            ctx.fail(
                "C32:own-answer-not-returned",
                inp,
                f"call {i} for {want_prop} transmitted at {ft['t']}; its confirmation (mc {want_mc:#04x}, tag {own[0]['tag'].hex()}) was delivered at {own[0]['t']}, "
                f"but the call failed at {c['t1']}: {c['res'][1]}" + (f"; queued call(s) given up at {gu}" if gu else ""),
            )

    # (B) indications -----------------------------------------------------------------------------
    ind_frames = [f for f in frames if f["mc"] == 0xF7]
    close_times = sorted(e["t"] for e in log if e["kind"] in ("transport_lost", "client_disconnect_called") or (e["kind"] == "DisconnectRequest"))
    seen_raw: list[bytes] = []
    for x in inds:
        if not x["raw"] or x["raw"][0] != 0xF7:
            ctx.fail("C32:indication-callback-got-other-frame", inp, f"indication callback called with {x['raw'].hex()} at {x['t']}")
        elif not any(f["raw_cemi"] == x["raw"] and abs(f["t"] - x["t"]) < EPS for f in ind_frames):
            ctx.fail("C32:indication-callback-without-frame", inp, f"indication callback called with {x['raw'].hex()} at {x['t']}, no such frame was delivered then")
        if x["raw"] in seen_raw:
            ctx.fail("C32:indication-delivered-twice", inp, f"indication {x['raw'].hex()} reached the callback twice")
        seen_raw.append(x["raw"])
    for f in ind_frames:
        if case.get("no_cb"):
            break  # no callback registered: indications go nowhere (a caller getting one is caught by (A))
        if any(abs(f["t"] - t) < EPS for t in close_times):
            continue
        if any(t < f["t"] and f["epoch"] == e_ for t, e_ in [(e["t"], e["epoch"]) for e in log if e["kind"] in ("transport_lost", "client_disconnect_called", "DisconnectRequest")]):
            continue  # connection already closing / closed when it arrived
        if f["raw_cemi"] not in seen_raw:
            ctx.fail("C32:indication-not-delivered", inp, f"M_PropInfo.ind delivered at {f['t']} (epoch {f['epoch']}) never reached the indication callback")

    # (C) one request outstanding -------------------------------------------------------------------
    seen: list[int] = []
    for e in txs:
        i = e["req"]
        if seen and seen[-1] == i:
            continue
        if i in seen:
            ctx.fail("C32:interleaved", inp, f"request {i} transmitted again after another request went out")
            break
        if seen:
            prev = calls.get(seen[-1])
            if prev is None or prev.get("t1") is None or prev["t1"] > e["t"] + EPS:
                ctx.fail("C32:two-outstanding", inp, f"request {i} transmitted at {e['t']} while request {seen[-1]} was still pending (completed {prev.get('t1') if prev else None})")
                break
        seen.append(i)

    # (E) repetitions, (F) counters, per connection ------------------------------------------------
    per_epoch: dict[int, list] = {}
    for e in txs:
        per_epoch.setdefault(e["epoch"], []).append(e)
    for ep, lst in per_epoch.items():
        order: list[int] = []
        for e in lst:
            if e["req"] not in order:
                order.append(e["req"])
        for i in order:
            mine = [e for e in lst if e["req"] == i]
            if udp and len(mine) > 4:
                ctx.fail("C32:repeated-more-than-3-times", inp, f"connection {ep}: request {i} transmitted {len(mine)} times")
            if not udp and len(mine) > 1:
                ctx.fail("C32:tcp-repeated", inp, f"connection {ep}: request {i} transmitted {len(mine)} times over TCP")
            if len({e["sequence_counter"] for e in mine}) > 1:
                ctx.fail("C32:repetition-changed-counter", inp, f"connection {ep}: request {i} transmitted with counters {[e['sequence_counter'] for e in mine]}")
        exp = 0
        for k, i in enumerate(order):
            mine = [e for e in lst if e["req"] == i]
            got = mine[0]["sequence_counter"]
            if got != exp:
                if k == 0:
                    ctx.fail("C32:counter-not-restarted", inp, f"connection {ep}: first request carried counter {got}")
                else:
                    p = order[k - 1]
                    pm = [e for e in lst if e["req"] == p]
                    # why did the client advance / not advance? look at the acks delivered while the previous request waited
                    t_a, t_b = (pm[0]["t"], pm[0]["tick"]), (mine[0]["t"], mine[0]["tick"])
                    between = [a for a in acks if t_a < (a["t"], a["tick"]) <= t_b]
                    why = "counter"
                    if got == (exp + 1) & 0xFF:
                        # what made the client believe the previous request was accepted?
                        t_end = calls[p]["t1"] if p in calls and calls[p].get("t1") is not None else float("inf")
                        foreign = [a for a in between if a["status_code"] == "E_NO_ERROR" and (a["communication_channel_id"] != pm[0]["communication_channel_id"] or a["sequence_counter"] != pm[0]["sequence_counter"]) and t_end <= a["t"] + TIMEOUT + EPS]
                        stray = [f for f in frames if f["mc"] != 0xF7 and t_a < (f["t"], f["tick"]) and f["t"] <= pm[-1]["t"] + TIMEOUT + EPS]
                        if foreign and foreign[0]["communication_channel_id"] != pm[0]["communication_channel_id"]:
                            why = "ack-foreign-channel"
                        elif foreign:
                            why = "ack-foreign-counter"
                        elif stray:
                            why = "stale-answer-taken-as-acknowledgement"
                        else:
                            why = "advanced-without-acceptance"
                    elif got == (exp - 1) & 0xFF:
                        why = "not-advanced-after-acceptance"
                    ctx.fail(
                        f"C32:{why}" if why.startswith("ack-") else f"C32:counter:{why}",
                        inp,
                        f"connection {ep}: request {i} carried counter {got}, expected {exp} (previous request {p}: counter {pm[0]['sequence_counter']}, outcomes {[e.get('outcome') for e in pm]}, accepted {any(e.get('accepted') for e in pm)}); acks delivered meanwhile {[(a['t'], a['communication_channel_id'], a['sequence_counter'], a['status_code']) for a in between]}",
                    )
                break
            if any(e.get("accepted") for e in mine):
                exp = (exp + 1) & 0xFF

    # (D) a pending request fails promptly when the connection closes --------------------------------
    closes = [e for e in log if e["kind"] in ("transport_lost", "client_disconnect_called") or (e["kind"] == "DisconnectRequest" and e["dir"] == "s2c")]
    if closes and gw.close is not None:
        ce = closes[0]
        T = ce["t"]
        at_close = (T, ce["tick"])

        def phase_of(i: int) -> str:
            ft = first_tx.get(i)
            if ft is None or (ft["t"], ft["tick"]) > at_close:
                return "awaiting-lock"
            own = [a for a in acks if a["status_code"] == "E_NO_ERROR" and a["communication_channel_id"] == ft["communication_channel_id"] and a["sequence_counter"] == ft["sequence_counter"]]
            if udp and not any((ft["t"], ft["tick"]) < (a["t"], a["tick"]) <= at_close for a in own):
                return "awaiting-ack"
            return "awaiting-answer"

        pending = [
            i
            for i, c in calls.items()
            if i < len(case["reqs"]) and c["res"] is not None and c["res"][0] != "given-up" and c.get("t1") is not None and (c["t0"], c["tick0"]) < at_close < (c["t1"], c["tick1"])
        ]
        holder = [i for i in pending if phase_of(i) != "awaiting-lock"]
        for i in pending:
            c = calls[i]
            if c["t1"] <= T + EPS:
                continue  # ended in the instant of the close
            phase = phase_of(i)
            if phase == "awaiting-lock" and holder and calls[holder[0]]["t1"] > T + EPS:
                continue  # waits for the caller on the wire, which is reported itself
            what = "failed with CommunicationError" if c["res"][0] == "comm" else f"ended with {c['res']}"
            ctx.fail(
                f"C32:close-not-prompt:{phase}",
                inp,
                f"call {i} ({phase}) was pending when the connection closed ({gw.close['kind']}) at t={T}; it {what} only at t={c['t1']}",
            )


def _norm(case: dict) -> dict:
    c = dict(case)
    c.setdefault("mode", "seq")
    c.setdefault("ack_plan", [])
    c.setdefault("ans_plan", [])
    return c


def check_case(ctx, case: dict) -> None:
    case = _norm(case)
    try:
        gw, calls, inds, out, raws, escaped = execute(case)
    except (BudgetExceeded, Deadlock):
        ctx.notes["inconclusive"] = ctx.notes.get("inconclusive", 0) + 1
        return
    except HarnessError:
        raise
    except Exception as e:  # noqa: BLE001
        ctx.fail(f"C32:scenario-exc:{exc_site(e)}", case, repr(e))
        return
    judge(ctx, case, gw, calls, inds, out, raws, escaped)


def nontrivial(case: dict) -> bool:
    return any(_name(o) != "ok" for o in case.get("ack_plan", [])) or any(_name(o) != "right" for o in case.get("ans_plan", [])) or case.get("close") is not None or bool(case.get("give_up"))


def _j(o):
    return list(o) if isinstance(o, tuple) else o


# ---------------------------------------------------------------------------
# enumeration
# ---------------------------------------------------------------------------


def enum_cases(kind: str, arg, small: bool = True) -> list[dict]:
    cases: list[dict] = []
    R1 = [[{"op": "read", "prop": 0}], [{"op": "write", "prop": 0}]]
    R2 = [{"op": "read", "prop": 0}, {"op": "write", "prop": 1}]
    R2b = [{"op": "read", "prop": 0}, {"op": "read", "prop": 2}]
    R3 = [{"op": "read", "prop": 0}, {"op": "write", "prop": 1}, {"op": "read", "prop": 2}]
    if kind == "udp1":  # 1 request: ack plans starting with `arg`, length <= 2, all answers, read/write
        for plan in [[arg]] + [[arg, b] for b in ACKS]:
            for a in ANSWERS:
                for reqs in R1:
                    cases.append({"transport": "udp", "reqs": reqs, "ack_plan": [_j(o) for o in plan], "ans_plan": [_j(a)]})
                    if len(plan) == 1:
                        cases.append({"transport": "udp", "no_cb": True, "reqs": reqs, "ack_plan": [_j(o) for o in plan], "ans_plan": [_j(a)]})
    elif kind == "udp1long":  # 1 request: ack plans of length 3..4 over the reduced alphabet, starting with `arg`
        for L in (3, 4):
            for rest in itertools.product(ACKS_SMALL, repeat=L - 1):
                for a in ("right", "none"):
                    cases.append({"transport": "udp", "reqs": R1[0], "ack_plan": [arg, *rest], "ans_plan": [a]})
    elif kind == "udp1close":  # 1 request x ack x answer x close
        for a in ANSWERS_SMALL:
            for ck in ("sdisc", "cdisc"):
                for d in CLOSE_DELAYS:
                    cases.append({"transport": "udp", "reqs": R1[0], "ack_plan": [_j(arg)], "ans_plan": [_j(a)], "close": {"kind": ck, "req": 0, "delay": d}, "reconnect": d in (0.0075, 5.0)})
    elif kind == "udp2":  # 2 requests: ack plans of length <= 1, all answer pairs, seq/conc
        for plan in ([[]] if arg is None else [[arg]]):
            for a in ANSWERS:
                for b in ANSWERS:
                    for mode in ("seq", "conc"):
                        cases.append({"transport": "udp", "mode": mode, "reqs": R2, "ack_plan": [_j(o) for o in plan], "ans_plan": [_j(a), _j(b)]})
                        if arg is None or arg == "acklost":
                            cases.append({"transport": "udp", "no_cb": True, "mode": mode, "reqs": R2, "ack_plan": [_j(o) for o in plan], "ans_plan": [_j(a), _j(b)]})
    elif kind == "udp2ack2":  # 2 requests: ack plans of length 2 starting with `arg`; reduced (quick) or all (thorough) answer pairs
        answers = ANSWERS_SMALL if small else ANSWERS
        for b_ in ACKS:
            for a in answers:
                for b in answers:
                    for mode in ("seq", "conc"):
                        cases.append({"transport": "udp", "mode": mode, "reqs": R2, "ack_plan": [_j(arg), _j(b_)], "ans_plan": [_j(a), _j(b)]})
    elif kind == "udp2close":  # 2 callers, close while either is on the wire
        for a in ANSWERS_SMALL:
            for b in ANSWERS_SMALL:
                for ck in ("sdisc", "cdisc"):
                    for rq in (0, 1):
                        for d in CLOSE_DELAYS:
                            cases.append({"transport": "udp", "mode": "conc", "reqs": R2b, "ack_plan": [_j(arg)], "ans_plan": [_j(a), _j(b)], "close": {"kind": ck, "req": rq, "delay": d}})
    elif kind == "tcp":
        for a in ANSWERS:
            for reqs in R1:
                cases.append({"transport": "tcp", "reqs": reqs, "ans_plan": [_j(a)]})
                cases.append({"transport": "tcp", "no_cb": True, "reqs": reqs, "ans_plan": [_j(a)]})
                for ck in ("sdisc", "cdisc", "lose"):
                    for d in CLOSE_DELAYS:
                        cases.append({"transport": "tcp", "reqs": reqs, "ans_plan": [_j(a)], "close": {"kind": ck, "req": 0, "delay": d}, "reconnect": d == 0.0075})
            for b in ANSWERS:
                for mode in ("seq", "conc"):
                    cases.append({"transport": "tcp", "mode": mode, "reqs": R2, "ans_plan": [_j(a), _j(b)]})
                    cases.append({"transport": "tcp", "no_cb": True, "mode": mode, "reqs": R2, "ans_plan": [_j(a), _j(b)]})
                if a in ANSWERS_SMALL and b in ANSWERS_SMALL:
                    for ck in ("sdisc", "cdisc", "lose"):
                        for rq in (0, 1):
                            for d in CLOSE_DELAYS:
                                cases.append({"transport": "tcp", "mode": "conc", "reqs": R2b, "ans_plan": [_j(a), _j(b)], "close": {"kind": ck, "req": rq, "delay": d}})
    elif kind == "tcp3":  # 3 concurrent callers over TCP, all answer triples starting with `arg`
        for b in ANSWERS:
            for c in ANSWERS:
                cases.append({"transport": "tcp", "mode": "conc", "reqs": R3, "ans_plan": [_j(arg), _j(b), _j(c)]})
    elif kind == "udp3seq":  # 3 sequential requests: the counter of the third shows what the client concluded about the second
        for b_ in [None, *ACKS]:
            plan = [arg] if b_ is None else [arg, b_]
            for a in ANSWERS:
                for b in ("right", "none"):
                    cases.append({"transport": "udp", "mode": "seq", "reqs": R3, "ack_plan": [_j(o) for o in plan], "ans_plan": [_j(a), b]})
    elif kind == "giveup":  # a queued call is given up by its caller while another request is outstanding
        GD = [0.0, 0.003, 0.0075, 0.012, 5.0]
        closes = [None] + [{"kind": ck, "req": 0, "delay": d} for ck in ("sdisc", "cdisc") for d in (0.0075, 0.013, 5.5)]
        if arg == "tcp":
            closes += [{"kind": "lose", "req": 0, "delay": d} for d in (0.0075, 0.013, 5.5)]
            for a in ANSWERS:
                for gd in GD:
                    for cl in closes:
                        if cl is not None and a not in ANSWERS_SMALL:
                            continue
                        case = {"transport": "tcp", "mode": "conc", "reqs": R2b, "ans_plan": [_j(a)], "give_up": [{"call": 1, "delay": gd}]}
                        if cl:
                            case["close"] = cl
                        cases.append(case)
                    cases.append({"transport": "tcp", "mode": "conc", "reqs": R3, "ans_plan": [_j(a)], "give_up": [{"call": 1, "delay": gd}]})
                    cases.append({"transport": "tcp", "mode": "conc", "reqs": R3, "ans_plan": [_j(a)], "give_up": [{"call": 2, "delay": gd}, {"call": 1, "delay": gd + 0.001}]})
        else:
            for a in ANSWERS_SMALL + ["twice", "ind"]:
                for gd in GD:
                    for cl in closes:
                        case = {"transport": "udp", "mode": "conc", "reqs": R2b, "ack_plan": [_j(arg)], "ans_plan": [_j(a)], "give_up": [{"call": 1, "delay": gd}]}
                        if cl:
                            case["close"] = cl
                        cases.append(case)
                    cases.append({"transport": "udp", "mode": "conc", "reqs": R3, "ack_plan": [_j(arg)], "ans_plan": [_j(a)], "give_up": [{"call": 2, "delay": gd}]})
    elif kind == "udp3":  # thorough: 3 concurrent callers, ack plans of length 3 starting with arg, reduced answers
        for rest in itertools.product(ACKS, repeat=2):
            for ans in itertools.product(ANSWERS_SMALL, repeat=3):
                cases.append({"transport": "udp", "mode": "conc", "reqs": R3, "ack_plan": [_j(arg), *[_j(o) for o in rest]], "ans_plan": [_j(a) for a in ans]})
    else:
        raise HarnessError(kind)
    return cases


def _enum_shard(ctx, kind: str, arg) -> None:
    cases = enum_cases(kind, _t(arg) if arg is not None else None, small=ctx.quick)
    nt = 0
    for k, case in enumerate(cases):
        check_case(ctx, case)
        if nontrivial(case):
            nt += 1
        if k % 400 == 7:
            ctx.sample(label(_norm(case)))
    ctx.bulk(len(cases), nt, f"enum-{kind}")


# ---------------------------------------------------------------------------
# sampled schedules
# ---------------------------------------------------------------------------

_ack = st.sampled_from(ACKS) | st.tuples(st.just("dup"), st.sampled_from([0.004, 0.02, 0.5, 9.99, 10.02]))
_ans = st.sampled_from(ANSWERS) | st.tuples(st.just("late"), st.sampled_from([0.5, 9.9, 10.5, 25.0, 41.0]))


@st.composite
def cases(draw):
    transport = draw(st.sampled_from(["udp", "udp", "udp", "tcp"]))
    n = draw(st.integers(1, 3))
    props = draw(st.permutations(range(len(PROPS))))[:n]
    reqs = [{"op": draw(st.sampled_from(["read", "read", "write"])), "prop": p} for p in props]
    ack_plan = draw(st.lists(_ack, max_size=8)) if transport == "udp" else []
    if ack_plan and draw(st.booleans()):
        ack_plan = [o if draw(st.integers(0, 2)) == 0 else "ok" for o in ack_plan]
    case = {
        "transport": transport,
        "mode": draw(st.sampled_from(["seq", "conc", "conc"])),
        "reqs": reqs,
        "ack_plan": [_j(o) for o in ack_plan],
        "ans_plan": [_j(o) for o in draw(st.lists(_ans, max_size=4))],
        "reconnect": draw(st.booleans()),
    }
    if draw(st.integers(0, 2)) == 0:
        case["no_cb"] = True
    if n > 1 and case["mode"] == "conc" and draw(st.integers(0, 2)) == 0:
        case["give_up"] = [{"call": draw(st.integers(1, n - 1)), "delay": draw(st.sampled_from([0.0, 0.003, 0.0075, 0.012, 5.0, 9.0, 10.004, 15.0]))}]
    if draw(st.integers(0, 2)) == 0:
        kinds = ["sdisc", "cdisc"] + (["lose"] if transport == "tcp" else [])
        case["close"] = {
            "kind": draw(st.sampled_from(kinds)),
            "req": draw(st.integers(0, n - 1)),
            "delay": draw(st.sampled_from(CLOSE_DELAYS + [0.005, 0.01, 10.0, 10.005, 20.01, 30.02, 40.0, 45.0])),
        }
    return case


def _hyp_oracle(ctx, case) -> None:
    check_case(ctx, case)
    ctx.case(
        repr(sorted(case.items())),
        nontrivial=nontrivial(case),
        cls=[case["transport"], case["mode"], "callers=%d" % len(case["reqs"]), "close" if case.get("close") else "no-close", "queued-call-given-up" if case.get("give_up") else "all-calls-awaited", "no-indication-callback" if case.get("no_cb") else "indication-callback", "reconnect" if case.get("reconnect") else "single-connection"],
        sample=label(_norm(case)) if len(case["ack_plan"]) > 3 else None,
    )


def _hyp_shard(ctx, n: int) -> None:
    hyp_search(ctx, cases(), _hyp_oracle, n)


def _wrap_shard(ctx, transport: str) -> None:
    """Counter wrap-around: 300 accepted requests on one connection (alternating two properties)."""
    n = 300
    from xknx.exceptions import CommunicationError  # noqa: F401

    case = {"transport": transport, "mode": "seq", "reqs": [], "wrap": n}
    # executed with a dedicated driver: the same two requests alternate, so request identity is by position
    _wrap_case(ctx, case)
    ctx.case(("wrap", transport), True, "wraparound-300", sample={"wraparound": transport, "requests": n})


def _wrap_case(ctx, case) -> None:
    from xknx.io import TCPDeviceManagementConnection, UDPDeviceManagementConnection
    from xknx.profile.const import ResourceObjectType

    n = case["wrap"]
    raw_a, raw_b = request_raw("read", PROPS[0], 0), request_raw("read", PROPS[1], 1)
    gw = DevMgmtGateway({"ack_plan": [], "ans_plan": []}, {raw_a: 0, raw_b: 1})
    # every transmission is a new request here: forget acceptance after answering
    orig_answer = gw._answer

    def answer_and_forget(i, raw_req):
        orig_answer(i, raw_req)
        gw.accepted.clear()

    gw._answer = answer_and_forget
    results: list = []

    async def scenario(loop):
        gw.attach(loop)
        if case["transport"] == "udp":
            conn = UDPDeviceManagementConnection(GW_ADDR[0], GW_ADDR[1], local_ip="10.0.0.2")
        else:
            conn = TCPDeviceManagementConnection(GW_ADDR[0], GW_ADDR[1])
        await conn.connect()
        for k in range(n):
            p = PROPS[k % 2]
            try:
                results.append(await conn.read_property(ResourceObjectType(p[0]), p[2], object_instance=p[1]))
            except Exception as e:  # noqa: BLE001
                results.append(e)
        await conn.disconnect()

    try:
        _, loop = run_case(scenario, max_iters=400_000)
    except (BudgetExceeded, Deadlock):
        ctx.notes["inconclusive"] = ctx.notes.get("inconclusive", 0) + 1
        return
    if gw.errors:
        raise HarnessError("simulator error: " + gw.errors[0])
    inp = {"transport": case["transport"], "wrap": n}
    txs = [e for e in gw.log if e["dir"] == "c2s" and e["kind"] == "DeviceConfigurationRequest"]
    got = [e["sequence_counter"] for e in txs]
    if got != [k & 0xFF for k in range(n)]:
        bad = next((k for k, c in enumerate(got) if c != k & 0xFF), len(got))
        ctx.fail("C32:counter:wraparound", inp, f"{len(got)} transmissions; transmission #{bad} carried counter {got[bad] if bad < len(got) else None}")
    tags = [f["tag"] for f in gw.log if f["dir"] == "s2c" and f["kind"] == "DeviceConfigurationRequest"]
    if [r for r in results] != tags:
        bad = next((k for k, (r, t) in enumerate(zip(results, tags)) if r != t), min(len(results), len(tags)))
        ctx.fail("C32:wraparound-answers", inp, f"request #{bad} returned {results[bad] if bad < len(results) else None!r}, the server answered {tags[bad] if bad < len(tags) else None!r}")


# ---------------------------------------------------------------------------


def _shard(ctx, kind: str, *args) -> None:
    if kind == "hyp":
        _hyp_shard(ctx, *args)
    elif kind == "wrap":
        _wrap_shard(ctx, *args)
    else:
        _enum_shard(ctx, kind, *args)


def run(ctx) -> None:
    jobs: list[tuple] = [("hyp", ctx.n(60, 2500))] * 16
    jobs += [("udp2", _j(a)) for a in ACKS] + [("udp2", None)]
    jobs += [("udp2ack2", _j(a)) for a in ACKS]
    jobs += [("udp3seq", _j(a)) for a in ACKS]
    jobs += [("giveup", _j(a)) for a in ACKS] + [("giveup", "tcp")]
    jobs += [("udp1", _j(a)) for a in ACKS]
    jobs += [("udp1long", a) for a in ACKS_SMALL]
    jobs += [("udp1close", _j(a)) for a in ACKS]
    jobs += [("udp2close", _j(a)) for a in ACKS]
    jobs += [("tcp", None)]
    jobs += [("tcp3", _j(a)) for a in ANSWERS]
    jobs += [("wrap", "udp"), ("wrap", "tcp")]
    if not ctx.quick:
        jobs += [("udp3", _j(a)) for a in ACKS]
    parallel(ctx, _shard, jobs)
    ctx.exhaustive = False
    ctx.notes["enumerated"] = "1 request: ACK plans <= 2 (<= 4 reduced) x 11 answers; 2 requests: ACK plans <= 1 x 121 answer pairs (length 2: 16 pairs quick / 121 thorough) x seq/conc; close kinds x 7 offsets on either request; TCP 1..3 requests"


def replay(ctx, case) -> None:
    if "wrap" in case:
        _wrap_case(ctx, case)
    else:
        check_case(ctx, case)
