"""C45 - MCP tools return JSON-native results and invert each other.

* every tool result -> dataclasses.asdict -> json.dumps (default encoder) succeeds and contains
  JSON-native leaves only;
* for every DPT and every value of its decode image, passed through a json.dumps/json.loads
  cycle: decode_dpt_payload(encode_dpt_payload(v)) == v (NaN-aware, U+FFFD read as '?');
* list_dpts walked page by page (next_offset until None) yields every matching type exactly
  once, in the order of the unpaginated listing, with a consistent total_count.
"""

from __future__ import annotations

import asyncio
import dataclasses
import json
import math
import struct
from typing import Any
from unittest.mock import AsyncMock, patch

from hypothesis import strategies as st

from vk.core import exc_site
from vk.engine import hyp_search, parallel
from vk.strategies import valspec as V
from xknx import XKNX
from xknx.core.connection_state import XknxConnectionState, XknxConnectionType
from xknx.dpt import DPTArray, DPTBase, DPTBinary
from xknx.dpt.dpt import DPTComplexData, DPTEnumData
from xknx.exceptions import ConversionError, CouldNotParseAddress, CouldNotParseTelegram
from xknx.mcp import (
    DecodeDptPayloadInput,
    DptFilter,
    EncodeDptPayloadInput,
    GroupAddressInput,
    GroupValueReadInput,
    GroupValueWriteInput,
    decode_dpt_payload,
    describe_dpt,
    encode_dpt_payload,
    get_connection_status,
    list_dpts,
    read_group_value,
    send_group_value_read,
    send_group_value_write,
)
from xknx.telegram import GroupAddress, Telegram, TelegramDirection
from xknx.telegram.apci import GroupValueResponse

PROPERTY = "C45"
LEVEL = "exploration"
TECHNIQUE = "enumeration of decode images + property-based testing (Hypothesis) of filters, pages and tool inputs"
LEVEL_TEXT = (
    "Generated exploration: every DPT's decode image (exhaustive for 6-bit and 1-octet payloads, swept and "
    "sampled for longer ones) through decode -> JSON cycle -> encode -> decode; random DptFilters walked page by "
    "page against an independently computed listing; all eight tools called on a stub XKNX with generated inputs "
    "and every result serialised with the default JSON encoder."
)
LEVEL_NOTE = (
    "Trusted base: Python's json module; the reference listing is computed here from DPTBase.dpt_class_tree() and "
    "the documented filter semantics (main number; case-insensitive substring of number / value type / unit). "
    "The value comparison is equality, NaN-aware, with U+FFFD (undecodable byte) read as the documented '?'."
)
RULE = (
    "image: for each of the 230 DPT classes every DPTBinary value of its bit length, every 1-octet payload, for "
    "2-octet payloads edge values + a stride sample (all 65,536 at the thorough tier for one class per codec), for "
    "longer payloads octet values swept through every position over one or two backgrounds (classes sharing a "
    "codec with an earlier class get the coarse sample at the quick tier) plus Hypothesis-generated arrays; "
    "non-trivial = payload accepted by the "
    "decoder and decoding to a value other than the type's zero/first value. pages: DptFilter(main in real and "
    "unreal main numbers or None, text in fragments of real numbers / value types / units or random text, "
    "limit >= 1 or negative, offset >= 0); non-trivial = the walk needs more than one page or the filter selects "
    "a proper non-empty subset. tools: generated JSON inputs; non-trivial = the tool returned a result"
)
ASSUMPTIONS = [
    "limit = 0 is not a page size and is not generated; offsets are >= 0.",
    "Only results are judged: a tool raising its documented errors (ValueError for an unknown value_type, "
    "ConversionError / CouldNotParseTelegram for an invalid payload or value, CouldNotParseAddress) produced no result; "
    "what a write may raise is C11's subject.",
    "json.dumps with default settings is 'the standard JSON encoder': non-finite floats serialise as NaN / Infinity "
    "tokens and are only counted (notes.non_finite_results), not reported.",
    "read_group_value is driven by a simulated responder: ValueReader.read is replaced by a stub returning a "
    "GroupValueResponse with a generated payload (as the repository's own tests do).",
    "decode(encode(v)) is compared for v taken from the decode image after a JSON cycle, so every v is "
    "representable; equality is exact apart from NaN == NaN and U+FFFD == '?'.",
    "Independent image: the value every inversion starts from is the DPT transcoder's own from_knx result in the "
    "documented JSON form (complex -> as_dict(), enum -> lower-cased name, tuple -> list, then a JSON cycle), and the "
    "tool's decode / read result has to equal it (binary float noise below 1e-12 relative is not judged). For DPT "
    "14.xxx the result must also lie within 7 significant digits (6e-7 relative) of the IEEE single the 4 octets "
    "encode; its image holds everyday values, one value per third decade from 1e-37 to 1e-1, physical constants "
    "down to 1e-30 and subnormals. Values given directly (numeric range points, float32 list, every enum name) are "
    "encoded and decoded as well; a number must come back within half a payload step plus half a declared step.",
    "Payload forms: a 6-bit payload v is offered both as the bare int v and as [v] (the two spellings the tool "
    "documents), octet arrays as the list of their octets; every form of one payload must give the same value or "
    "the same kind of rejection. The payload handed back to the decoder is the encoder's result verbatim after "
    "asdict -> json.dumps -> json.loads, again in every form. For a real value_type and a non-empty payload only "
    "ConversionError / CouldNotParseTelegram count as 'payload not in the image'; ValueError does not.",
]

G = "1/2/3"

# ----------------------------------------------------------------------------- helpers


def drive(coro: Any) -> Any:
    """The static DPT tools are async only by convention: run them without an event loop."""
    try:
        coro.send(None)
    except StopIteration as stop:
        return stop.value
    coro.close()
    raise RuntimeError("tool suspended")


def native_defect(x: Any, path: str = "$") -> str | None:
    """First leaf/container that is not JSON-native (None = all native)."""
    if x is None or isinstance(x, (bool, str)):
        return None
    if type(x) in (int, float):
        return None
    if isinstance(x, (int, float)):
        return f"{path}: {type(x).__name__} (subclass, not a plain number)"
    if isinstance(x, (list, tuple)):
        for i, v in enumerate(x):
            d = native_defect(v, f"{path}[{i}]")
            if d:
                return d
        return None
    if isinstance(x, dict):
        for k, v in x.items():
            if not isinstance(k, str):
                return f"{path}: key {k!r} is {type(k).__name__}"
            d = native_defect(v, f"{path}.{k}")
            if d:
                return d
        return None
    return f"{path}: {type(x).__name__}"


def has_non_finite(x: Any) -> bool:
    if isinstance(x, float):
        return math.isnan(x) or math.isinf(x)
    if isinstance(x, (list, tuple)):
        return any(has_non_finite(v) for v in x)
    if isinstance(x, dict):
        return any(has_non_finite(v) for v in x.values())
    return False


def same(a: Any, b: Any) -> bool:
    """Equality, NaN-aware, U+FFFD read as '?'."""
    if isinstance(a, float) and isinstance(b, float) and math.isnan(a) and math.isnan(b):
        return True
    if isinstance(a, str) and isinstance(b, str):
        return a.replace("\ufffd", "?") == b.replace("\ufffd", "?")
    if isinstance(a, (list, tuple)) and isinstance(b, (list, tuple)):
        return len(a) == len(b) and all(same(x, y) for x, y in zip(a, b))
    if isinstance(a, dict) and isinstance(b, dict):
        return a.keys() == b.keys() and all(same(a[k], b[k]) for k in a)
    if isinstance(a, bool) != isinstance(b, bool):
        return False
    return a == b


def check_result(ctx, tool: str, result: Any, inp: Any) -> dict | None:
    """asdict + json.dumps with the default encoder; returns the dict (None if it failed)."""
    try:
        d = dataclasses.asdict(result)
    except Exception as e:  # noqa: BLE001
        ctx.fail(f"C45:asdict-fails:{tool}", inp, f"{type(e).__name__}: {e}")
        return None
    try:
        text = json.dumps(d)
    except Exception as e:  # noqa: BLE001
        ctx.fail(f"C45:not-json-serialisable:{tool}", inp, f"{type(e).__name__}: {e}; {native_defect(d)}")
        return None
    defect = native_defect(d)
    if defect:
        ctx.fail(f"C45:not-json-native:{tool}", inp, defect)
    if has_non_finite(d):
        ctx.notes["non_finite_results"] = ctx.notes.get("non_finite_results", 0) + 1
    else:
        back = json.loads(text)
        if not same(back, json.loads(json.dumps(back))) or not same(_listify(d), back):
            ctx.fail(f"C45:json-cycle-changes-result:{tool}", inp, f"{d!r} -> {back!r}"[:500])
    return d


def _listify(x: Any) -> Any:
    if isinstance(x, (list, tuple)):
        return [_listify(v) for v in x]
    if isinstance(x, dict):
        return {k: _listify(v) for k, v in x.items()}
    return x


# ----------------------------------------------------------------------------- (b) decode / encode inversion

# what decode_dpt_payload may raise for a payload it does not accept (ValueError is documented for an
# unknown value_type and an *empty* payload only - neither occurs here, so it is not in this list)
PAYLOAD_REJECTED = (ConversionError, CouldNotParseTelegram)


def dpt_ids(dpt: type[DPTBase]) -> list[str]:
    ids = [dpt.dpt_number_str()]
    if dpt.has_distinct_value_type() and dpt.value_type:
        ids.append(dpt.value_type)
    return ids


# ---- independent references for a decoded value ---------------------------------------------

_RESOLVED: dict[str, type[DPTBase]] = {}


def resolved(vt: str) -> type[DPTBase]:
    """The transcoder class a value_type string names (what the tools work with)."""
    if vt not in _RESOLVED:
        _RESOLVED[vt] = DPTBase.get_dpt(vt)
    return _RESOLVED[vt]


def documented_json_form(val: Any) -> Any:
    """The JSON shape the tools document for a transcoder value: complex values as their dict form,
    enum members as lower-cased name, tuples as lists, JSON natives as they are - then a JSON cycle."""
    if isinstance(val, DPTComplexData):
        val = val.as_dict()
    elif isinstance(val, DPTEnumData):
        val = val.name.lower()
    elif isinstance(val, tuple):
        val = [documented_json_form(x) for x in val]
    return json.loads(json.dumps(val))


def raw_payload(T: type[DPTBase], payload: int | list[int]) -> DPTArray | DPTBinary:
    if T.payload_type is DPTBinary:
        return DPTBinary(payload if isinstance(payload, int) else payload[0])
    return DPTArray(tuple(payload) if isinstance(payload, list) else (payload,))


def transcoder_value(T: type[DPTBase], payload: int | list[int]) -> tuple[bool, Any]:
    """(accepted?, value in documented JSON form) straight from the DPT transcoder - not through the tool."""
    try:
        return True, documented_json_form(T.from_knx(raw_payload(T, payload)))
    except PAYLOAD_REJECTED:
        return False, None


REL_7_DIGITS = 6e-7  # rounding to 7 significant digits moves a value by at most 5e-7 of its magnitude


def float32_of(payload: list[int]) -> float:
    """IEEE 754 single, big endian: what the 4 octets of a DPT 14.xxx payload mean."""
    return struct.unpack(">f", bytes(payload))[0]


def close_to_float32(v: Any, f32: float) -> bool:
    """v is the float32 value up to the documented 7 significant digits (NaN / inf exactly)."""
    if isinstance(v, bool) or not isinstance(v, (int, float)):
        return False
    if math.isnan(f32):
        return isinstance(v, float) and math.isnan(v)
    if math.isinf(f32) or f32 == 0:
        return v == f32
    return abs(v - f32) <= REL_7_DIGITS * abs(f32)


def is_float32_type(T: type[DPTBase]) -> bool:
    return T.dpt_main_number == 14 and T.payload_type is DPTArray and T.payload_length == 4


def codec_owner_name(T: type[DPTBase]) -> str:
    """Class that implements the decoder (root-cause key shared by all subtypes of one codec)."""
    for c in T.__mro__:
        if "from_knx" in c.__dict__:
            return c.__name__
    return T.__name__


def _float_noise_only(a: Any, b: Any) -> bool:
    """Two plain numbers that differ by binary float noise only (2.55 vs 2.5500000000000003)."""
    if isinstance(a, bool) or isinstance(b, bool) or not isinstance(a, (int, float)) or not isinstance(b, (int, float)):
        return False
    return a == b or (math.isfinite(a) and math.isfinite(b) and abs(a - b) <= 1e-12 * max(abs(a), abs(b)))


def compare_with_references(ctx, tool: str, T: type[DPTBase], payload: int | list[int], got_ok: bool, got: Any, inp: dict) -> tuple[bool, Any]:
    """The tool's reading of a payload against (1) the transcoder's own from_knx in documented JSON form and
    (2) for DPT 14.xxx an independent float32 interpretation of the octets.  Returns the transcoder's (accepted?, value)."""
    ref_ok, ref = transcoder_value(T, payload)
    owner = codec_owner_name(T)
    if ref_ok != got_ok:
        ctx.fail(f"C45:decode-differs-from-transcoder:{tool}:{owner}", inp, f"{T.__name__} payload {payload!r}: transcoder {'gives ' + repr(ref) if ref_ok else 'rejects it'}, {tool} {'gives ' + repr(got) if got_ok else 'rejects it'}")
    elif ref_ok and not same(got, ref) and not _float_noise_only(got, ref):
        ctx.fail(f"C45:decode-differs-from-transcoder:{tool}:{owner}", inp, f"{T.__name__} payload {payload!r}: transcoder decodes {ref!r}, {tool} reports {got!r}")
    if got_ok and is_float32_type(T) and isinstance(payload, list) and len(payload) == 4:
        f32 = float32_of(payload)
        if not close_to_float32(got, f32):
            ctx.fail(f"C45:float32-value-altered:{tool}", inp, f"{T.__name__} payload {bytes(payload).hex()} is the IEEE single {f32!r}; {tool} reports {got!r} (more than 7 significant digits away)")
    return ref_ok, ref


def payload_forms(dpt: type[DPTBase], payload: int | list[int]) -> list[int | list[int]]:
    """Every documented spelling of one raw payload: "list of byte integers, or a single integer for
    6-bit DPTs" - so a 6-bit value v may come as the bare int v (what encode_dpt_payload emits) or as [v];
    an octet array only as the list of its octets.  The first form is the one offered."""
    if dpt.payload_type is DPTBinary:
        v = payload if isinstance(payload, int) else payload[0]
        other: int | list[int] = [v] if isinstance(payload, int) else v
        return [payload, other]
    return [payload]


def decode_all_forms(ctx, dpt: type[DPTBase], vt: str, payload: int | list[int], inp: dict, stage: str) -> tuple[bool, Any]:
    """Decode `payload` in every documented form, each as an MCP client would (tool result ->
    asdict -> json.dumps -> json.loads).  Returns (decoded?, value).  The forms have to agree: the same
    value from each, or a declared payload rejection from each."""
    outcomes: list[tuple[Any, str, Any]] = []  # (form, "value" | "rejected" | "raised", value / text)
    for form in payload_forms(dpt, payload):
        try:
            res = drive(decode_dpt_payload(DecodeDptPayloadInput(payload=form, value_type=vt)))
        except PAYLOAD_REJECTED as e:
            outcomes.append((form, "rejected", f"{type(e).__name__}: {e}"[:200]))
            continue
        except Exception as e:  # noqa: BLE001 - incl. ValueError: value_type is a real DPT, the payload not empty
            outcomes.append((form, "raised", f"{exc_site(e)}: {e}"[:200]))
            continue
        d = check_result(ctx, "decode_dpt_payload", res, {**inp, "form": form})
        if d is None:
            return False, None
        try:
            outcomes.append((form, "value", json.loads(json.dumps(d))["value"]))
        except Exception:  # noqa: BLE001 - already reported by check_result
            return False, None
    kinds = {o[1] for o in outcomes}
    if kinds == {"value"} and all(same(o[2], outcomes[0][2]) for o in outcomes):
        return True, outcomes[0][2]
    if kinds == {"rejected"}:
        return False, None
    if len(outcomes) > 1 and (len(kinds) > 1 or kinds == {"value"}):
        ctx.fail(
            "C45:payload-forms-disagree:decode_dpt_payload",
            inp,
            f"{dpt.__name__} ({stage}): equivalent payload forms are read differently: " + "; ".join(f"{o[0]!r} -> {o[1]} {o[2]!r}" for o in outcomes),
        )
    else:  # an undeclared exception for every form
        ctx.fail(f"C45:decode-exc:{outcomes[0][2].split(': ')[0]}", inp, f"{dpt.__name__} ({stage}): " + "; ".join(f"{o[0]!r} -> {o[2]}" for o in outcomes))
    # carry on with a decoded value if any form gave one, so the inversion is still examined
    for o in outcomes:
        if o[1] == "value":
            return True, o[2]
    return False, None


def roundtrip(ctx, dpt: type[DPTBase], payload: int | list[int], count: bool = True) -> None:
    """payload: int for DPTBinary types, list of octets otherwise."""
    vt = dpt.dpt_number_str()
    T = resolved(vt)
    inp = {"dpt": dpt.__name__, "payload": payload}
    ok, got = decode_all_forms(ctx, dpt, vt, payload, inp, "image payload")
    # the image value comes from the transcoder (and float32), not from the tool under test
    ref_ok, v = compare_with_references(ctx, "decode_dpt_payload", T, payload, ok, got, inp)
    if not ref_ok:
        if count:
            ctx.case(None, nontrivial=False, cls="image:payload-rejected")
        return
    nontrivial = v not in (0, 0.0, False, "", None) and payload not in (0, [0] * (len(payload) if isinstance(payload, list) else 0))
    if count:
        raw0 = dpt.payload_type is DPTBinary and payload in (0, [0])
        labels = ["image:decoded"] + (["image:binary-raw-0"] if raw0 else [])
        if is_float32_type(T) and isinstance(v, float) and v == v and 0 < abs(v) < 1e-3:
            labels.append("image:float32-small-magnitude")
        ctx.case((dpt.__name__, repr(payload)), nontrivial=nontrivial or raw0, cls=labels)
    encode_decode(ctx, dpt, vt, T, v, inp, f"decode image of {payload!r}")


def encode_decode(ctx, dpt: type[DPTBase], vt: str, T: type[DPTBase], v: Any, inp: dict, origin: str, tol: float | None = None) -> None:
    """encode_dpt_payload(v) -> the emitted payload verbatim (JSON cycle of the whole result) ->
    decode_dpt_payload in every form -> v again.  v is a JSON-native value that did NOT come out of the
    tool's decoder.  tol: for directly given numbers, the distance to the nearest representable value."""
    try:
        enc = drive(encode_dpt_payload(EncodeDptPayloadInput(value=v, value_type=vt)))
    except ConversionError as e:
        ctx.fail(f"C45:image-value-rejected:{dpt.__name__}", inp, f"{origin}: {v!r} is refused by encode_dpt_payload: {e}"[:600])
        return
    except Exception as e:  # noqa: BLE001
        ctx.fail(f"C45:encode-exc:{exc_site(e)}", inp, f"{origin}: {v!r}: {type(e).__name__}: {e}"[:600])
        return
    e = check_result(ctx, "encode_dpt_payload", enc, inp)
    if e is None:
        return
    p2 = json.loads(json.dumps(e))["payload"]
    if isinstance(p2, bool) or not (isinstance(p2, int) or (isinstance(p2, list) and all(isinstance(b, int) and not isinstance(b, bool) for b in p2))):
        ctx.fail("C45:encoded-payload-shape:encode_dpt_payload", inp, f"{dpt.__name__}: encoded payload {p2!r} is neither an int nor a list of ints")
        return
    if (dpt.payload_type is DPTBinary) != isinstance(p2, int):
        ctx.fail("C45:encoded-payload-shape:encode_dpt_payload", inp, f"{dpt.__name__}: encoded payload {p2!r} does not have the documented shape (int for 6-bit types, list of octets otherwise)")
        return
    ok2, v2 = decode_all_forms(ctx, dpt, vt, p2, inp, f"payload {p2!r} emitted by encode_dpt_payload for {v!r}")
    if not ok2:
        ctx.fail(f"C45:reencoded-payload-rejected:{dpt.__name__}", inp, f"{origin}: {v!r} -> encode -> {p2!r}, which decode_dpt_payload does not read back")
        return
    compare_with_references(ctx, "decode_dpt_payload", T, p2, ok2, v2, inp)
    if tol is None:
        if not same(v2, v):
            ctx.fail(f"C45:roundtrip-neq:{codec_owner_name(T)}", inp, f"{dpt.__name__}, {origin}: {v!r} -> encode -> {p2!r} -> decode -> {v2!r}")
    elif isinstance(v2, bool) or not isinstance(v2, (int, float)) or not abs(v2 - v) <= tol:
        ctx.fail(f"C45:direct-value-not-returned:{codec_owner_name(T)}", inp, f"{dpt.__name__}, {origin}: {v!r} -> encode -> {p2!r} -> decode -> {v2!r} (allowed distance {tol!r})")


# values of 4-octet float types as a caller would give them: everyday ones, small magnitudes over many
# decades (SI base units of small quantities), float32 subnormals, large ones
FLOAT32_VALUES = [
    0.0, 1.0, -1.0, 0.1, 0.5, 21.25, 230.5, -224.95, 1234567.0, -1.5e12, 3.0e38, -3.0e38,
    1e-3, 1.23456e-3, 0.00123456, -4.5e-4, 9.87654e-5, 3.3e-6, 4.7e-9, -2.2e-9, 1e-12, 6.62607e-15, 1.6e-19, -1.6e-19,
    9.10938e-22, 1.38065e-23, 1e-27, 6.62607e-30, 1.2345678e-7, 7.654321e-10,
    1.1754944e-38, 5.9e-39, 1e-40, 1e-44, 1.4e-45,
]


def float32_payloads() -> list[list[int]]:
    out = [list(struct.pack(">f", x)) for x in FLOAT32_VALUES]
    out += [[0x7F, 0x80, 0, 0], [0xFF, 0x80, 0, 0], [0x7F, 0xC0, 0, 0], [0x00, 0x00, 0x00, 0x01], [0x80, 0x00, 0x00, 0x01], [0x00, 0x7F, 0xFF, 0xFF], [0x00, 0x80, 0x00, 0x00]]
    # one value per decade 1e-37 .. 1e-1 with a full 7-digit mantissa
    out += [list(struct.pack(">f", 1.234567 * 10.0**-k)) for k in range(1, 38, 3)]
    return out


def direct_values(ctx, dpt: type[DPTBase], count: bool = True) -> None:
    """encode -> decode for values given directly (not obtained from any decode)."""
    vt = dpt.dpt_number_str()
    T = resolved(vt)
    fam = V.family(T)
    cases: list[tuple[Any, float | None]] = []
    if is_float32_type(T):
        for x in FLOAT32_VALUES:
            f32 = float32_of(list(struct.pack(">f", x)))
            cases.append((x, abs(x - f32) + REL_7_DIGITS * abs(f32)))
    elif fam == "numeric":
        lo, hi, res = T.value_min, T.value_max, T.resolution
        picks = {lo, hi, lo + res, hi - res, lo + (hi - lo) // 2 if isinstance(lo, int) and isinstance(hi, int) else (lo + hi) / 2, 0, res, 3 * res, 7 * res, -res}
        for x in sorted(picks):
            if lo <= x <= hi:
                # nearest representable value: half a step of the payload, plus half a declared step for types
                # that round the decoded value to it (1-octet scaled types: 360 deg over 255 steps, read back
                # as whole degrees); the 2-octet float (DPT 9) has an 11 bit mantissa
                step = max(res, abs(x) / 1024) if T.dpt_main_number == 9 else max(res, (hi - lo) / (256.0**T.payload_length - 1))
                cases.append((x, step * 0.5 + res * 0.5 + 1e-9 * max(1.0, abs(x))))
    elif fam == "enum":
        cases = [(m.name.lower(), None) for m in T.data_type]  # type: ignore[attr-defined]
    for x, tol in cases:
        inp = {"dpt": dpt.__name__, "direct": V.F(x) if isinstance(x, float) else x}
        if count:
            ctx.case(("direct", dpt.__name__, repr(x)), nontrivial=x not in (0, 0.0), cls="direct-value")
        encode_decode(ctx, dpt, vt, T, x, inp, "value given directly", tol=tol)


_EDGE16 = [0, 1, 0x1C, 0x1D, 0xFF, 0x100, 0x7FF, 0x800, 0x0C1A, 0x7FFE, 0x7FFF, 0x8000, 0x8001, 0x87FF, 0xF800, 0xFFFE, 0xFFFF]


def _codec_key(dpt: type[DPTBase]) -> Any:
    return (getattr(dpt.from_knx, "__func__", dpt.from_knx), getattr(dpt.to_knx, "__func__", dpt.to_knx), getattr(getattr(dpt, "_to_knx", None), "__func__", None))


_FIRST_OF_CODEC: dict[Any, type] = {}


def is_codec_owner(dpt: type[DPTBase]) -> bool:
    """First class (catalogue order) of each distinct decoder/encoder implementation."""
    if not _FIRST_OF_CODEC:
        for d in V.all_dpts():
            _FIRST_OF_CODEC.setdefault(_codec_key(d), d)
    return _FIRST_OF_CODEC[_codec_key(dpt)] is dpt


def image_payloads(dpt: type[DPTBase], quick: bool) -> list[Any]:
    """Payloads offered to the decoder.  6-bit and 1-octet payloads exhaustively; 2-octet payloads by
    stride (all at the thorough tier for one class per codec); longer ones by sweeping every position.
    At the quick tier classes that share their codec with an earlier class (the 84 DPT 14 subtypes, the
    DPT 9 subtypes, ...) get the edge values and a coarse sample only - their ranges differ, their code does not."""
    if dpt.payload_type is DPTBinary:
        return list(range(2 ** min(dpt.payload_length, 6))) + ([2**dpt.payload_length] if dpt.payload_length < 6 else [])
    n = dpt.payload_length
    owner = is_codec_owner(dpt)
    if n == 1:
        return [[b] for b in range(256)]
    if n == 2:
        step = (211 if owner else 1499) if quick else (1 if owner else 37)
        vals = sorted(set(range(0, 65536, step)) | set(_EDGE16))
        return [[v >> 8, v & 0xFF] for v in vals]
    out: list[list[int]] = []
    if quick:
        plans = [([0] * n, 5), ([0x21] * n, 51)] if owner else [([0] * n, 51)]
    else:
        plans = [([0] * n, 1), ([0x21] * n, 1)] if owner else [([0] * n, 5), ([0x21] * n, 17)]
    for bg, step in plans:
        for pos in range(n):
            for val in sorted(set(range(0, 256, step)) | {0x7F, 0x80, 0xFF}):
                p = list(bg)
                p[pos] = val
                out.append(p)
    out += [[0xFF] * n, [0x7F] * n, [0x80] * n, [0x7F, 0x80] + [0] * (n - 2), [0x7F, 0xC0] + [0] * (n - 2), [0xFF, 0x80] + [0] * (n - 2)]
    if dpt.dpt_main_number == 14 and n == 4:
        out = float32_payloads() + out  # everyday values, small magnitudes in many decades, subnormals
    return out


def _image_shard(ctx, nshards: int) -> None:
    dpts = V.all_dpts()
    for i, dpt in enumerate(dpts):
        if i % nshards != ctx.shard:
            continue
        ps = image_payloads(dpt, ctx.quick)
        for j, p in enumerate(ps):
            roundtrip(ctx, dpt, p)
            if j == len(ps) // 3 and i % 23 == 0:
                ctx.sample({"dpt": dpt.__name__, "payload": p})
        direct_values(ctx, dpt)
        ctx.classes[f"family:{V.family(dpt)}"] += len(ps)


def _image_hyp_shard(ctx, n: int) -> None:
    dpts = [d for d in V.all_dpts() if d.payload_type is DPTArray and d.payload_length >= 2]

    def oracle(c, case: tuple[int, bytes]) -> None:
        i, raw = case
        dpt = dpts[i % len(dpts)]
        nlen = dpt.payload_length
        body = list((raw + bytes(nlen))[:nlen])
        roundtrip(c, dpt, body)

    hyp_search(ctx, st.tuples(st.integers(0, len(dpts) - 1), st.binary(min_size=0, max_size=14)), oracle, n, shrink_cap_s=6.0 if ctx.quick else 40.0)


# ----------------------------------------------------------------------------- (c) listing and pagination


def ref_listing(main: int | None, text: str | None) -> list[tuple[str, str | None]]:
    """Reference: (number, value_type) of every matching concrete DPT, ordered by (main, sub)."""
    needle = text.lower() if text else None
    rows = []
    for dpt in DPTBase.dpt_class_tree():
        if main is not None and dpt.dpt_main_number != main:
            continue
        hay = f"{dpt.dpt_number_str()}\n{dpt.value_type or ''}\n{dpt.unit or ''}".lower()
        if needle is not None and needle not in hay:
            continue
        rows.append(((dpt.dpt_main_number or 0, -1 if dpt.dpt_sub_number is None else dpt.dpt_sub_number), (dpt.dpt_number_str(), dpt.value_type)))
    rows.sort(key=lambda r: r[0])  # stable: class-tree order among equal numbers
    return [r[1] for r in rows]


def _row(d: dict) -> tuple[str, str | None]:
    return (d["dpt"], d["value_type"])


def check_pages(ctx, case: dict, count: bool = True) -> None:
    main, text, limit, offset = case.get("main"), case.get("text"), case["limit"], case["offset"]
    if limit == 0 or offset < 0:
        return
    inp = {"main": main, "text": text, "limit": limit, "offset": offset}
    try:
        full = drive(list_dpts(DptFilter(main=main, text=text, limit=-1, offset=0)))
    except Exception as e:  # noqa: BLE001
        ctx.fail(f"C45:list-exc:{exc_site(e)}", inp, f"{type(e).__name__}: {e}")
        return
    fd = check_result(ctx, "list_dpts", full, inp)
    if fd is None:
        return
    all_rows = [_row(d) for d in fd["dpts"]]
    ref = ref_listing(main, text)
    if sorted(map(repr, all_rows)) != sorted(map(repr, ref)):
        missing = [r for r in ref if r not in all_rows]
        extra = [r for r in all_rows if r not in ref]
        ctx.fail("C45:listing-differs-from-catalogue", inp, f"missing {missing[:5]} extra {extra[:5]} ({len(all_rows)} listed, {len(ref)} expected)")
    elif all_rows != ref:
        ctx.fail("C45:listing-order", inp, f"unpaginated listing is not ordered by DPT number: {all_rows[:6]} ... expected {ref[:6]}")
    if fd["total_count"] != len(all_rows) or fd["next_offset"] is not None or fd["limit_reached"]:
        ctx.fail("C45:unpaginated-metadata", inp, f"total_count={fd['total_count']} rows={len(all_rows)} next_offset={fd['next_offset']} limit_reached={fd['limit_reached']}")
    # walk (at most ~40 pages: a long catalogue with a tiny limit is entered near its end)
    if limit > 0 and len(all_rows) - offset > 40 * limit:
        offset = len(all_rows) - 40 * limit
    collected: list[tuple[str, str | None]] = []
    cur = offset
    pages = 0
    ok = True
    while True:
        page = drive(list_dpts(DptFilter(main=main, text=text, limit=limit, offset=cur)))
        pd = check_result(ctx, "list_dpts", page, {**inp, "page_offset": cur})
        if pd is None:
            return
        pages += 1
        rows = [_row(d) for d in pd["dpts"]]
        if pd["total_count"] != len(all_rows):
            ctx.fail("C45:page-total-count", inp, f"page at offset {cur}: total_count {pd['total_count']} != {len(all_rows)}")
            ok = False
        if pd["offset"] != cur:
            ctx.fail("C45:page-offset-echo", inp, f"asked offset {cur}, result says {pd['offset']}")
            ok = False
        if limit > 0 and len(rows) > limit:
            ctx.fail("C45:page-too-long", inp, f"page at offset {cur} has {len(rows)} rows for limit {limit}")
            ok = False
        if pd["limit_reached"] != (pd["next_offset"] is not None):
            ctx.fail("C45:page-flags-disagree", inp, f"limit_reached={pd['limit_reached']} next_offset={pd['next_offset']}")
            ok = False
        collected += rows
        nxt = pd["next_offset"]
        if nxt is None:
            break
        if not isinstance(nxt, int) or isinstance(nxt, bool) or nxt <= cur:
            ctx.fail("C45:page-walk-does-not-advance", inp, f"next_offset {nxt!r} at offset {cur}")
            ok = False
            break
        cur = nxt
        if pages > len(all_rows) + 3:
            ctx.fail("C45:page-walk-does-not-end", inp, f"{pages} pages for {len(all_rows)} rows")
            ok = False
            break
    expected = all_rows[offset:]
    if ok and collected != expected:
        if sorted(map(repr, collected)) == sorted(map(repr, expected)):
            ctx.fail("C45:page-walk-order", inp, f"walk yields the rows in another order: {collected[:5]} vs {expected[:5]}")
        elif len(collected) > len(set(map(repr, collected))) and len(expected) == len(set(map(repr, expected))):
            ctx.fail("C45:page-walk-duplicates", inp, f"{len(collected)} rows walked, {len(expected)} expected; first difference at {_first_diff(collected, expected)}")
        else:
            ctx.fail("C45:page-walk-misses-rows", inp, f"{len(collected)} rows walked, {len(expected)} expected; first difference at {_first_diff(collected, expected)}")
    if count:
        ctx.case(("pages", repr(inp)), nontrivial=pages > 1 or 0 < len(all_rows) < 230, cls=["pages:multi" if pages > 1 else "pages:single", "filter:empty" if not all_rows else "filter:some"])


def _first_diff(a: list, b: list) -> Any:
    for i, (x, y) in enumerate(zip(a, b)):
        if x != y:
            return (i, x, y)
    return (min(len(a), len(b)), None, None)


def _fragments() -> list[str]:
    frags: set[str] = set()
    for dpt in DPTBase.dpt_class_tree():
        for s in (dpt.dpt_number_str(), dpt.value_type or "", dpt.unit or ""):
            if s:
                frags.add(s)
                frags.add(s.upper())
                frags.add(s[: max(1, len(s) // 2)])
                frags.add(s[-3:])
    return sorted(frags)


def filter_strategy() -> Any:
    frags = _fragments()
    mains = sorted({d.dpt_main_number for d in DPTBase.dpt_class_tree() if d.dpt_main_number is not None})
    main = st.one_of(st.none(), st.none(), st.sampled_from(mains), st.integers(-2, 300))
    text = st.one_of(st.none(), st.none(), st.sampled_from(frags), st.text(max_size=4), st.sampled_from(["", ".", "\n", "°", "%", "9.", "temp", "TEMP", "1", "0"]))
    limit = st.one_of(st.integers(1, 12), st.integers(1, 300), st.integers(-5, -1), st.sampled_from([1, 2, 3, 199, 200, 201, 229, 230, 231, -1]))
    offset = st.one_of(st.integers(0, 12), st.integers(0, 260), st.sampled_from([0, 1, 229, 230, 231, 1000]))
    return st.fixed_dictionaries({"main": main, "text": text, "limit": limit, "offset": offset})


# ----------------------------------------------------------------------------- (a) all tools on a stub XKNX


def check_describe(ctx, ident: str, count: bool = True) -> None:
    inp = {"describe": ident}
    try:
        res = drive(describe_dpt(ident))
    except Exception as e:  # noqa: BLE001
        ctx.fail(f"C45:describe-exc:{exc_site(e)}", inp, f"{type(e).__name__}: {e}")
        return
    d = check_result(ctx, "describe_dpt", res, inp)
    if d is None:
        return
    if d["found"] != (d["dpt"] is not None):
        ctx.fail("C45:describe-found-flag", inp, repr(d)[:300])
    if count:
        ctx.case(("describe", ident), nontrivial=bool(d["found"]), cls="describe:found" if d["found"] else "describe:unknown")


def check_bus_tool(ctx, case: dict, count: bool = True) -> None:
    """case: {"tool": ..., "ga": str, "value": spec, "dpt": class name or None, "payload": [..]|int, "state": int}"""
    tool = case["tool"]
    inp = dict(case)
    dpt = V.dpt_by_name(case["dpt"]) if case.get("dpt") else None
    vt = dpt.dpt_number_str() if dpt else None
    ga = case.get("ga", G)
    result: Any = None
    loop = asyncio.new_event_loop()
    try:
        xknx = XKNX()
        try:
            if tool == "status":
                states = list(XknxConnectionState)
                types = list(XknxConnectionType)
                k = case.get("state", 0)
                xknx.connection_manager._connection_state_changed(states[k % len(states)], types[(k // len(states)) % len(types)])
                result = loop.run_until_complete(get_connection_status(xknx))
            elif tool == "send_read":
                result = loop.run_until_complete(send_group_value_read(xknx, GroupAddressInput(group_address=ga)))
            elif tool == "send_write":
                value = V.mat(case.get("value"))
                result = loop.run_until_complete(send_group_value_write(xknx, GroupValueWriteInput(group_address=ga, value=value, value_type=vt)))
            elif tool == "read":
                payload = case.get("payload")
                if payload is None:
                    reply = None
                else:
                    pv = DPTBinary(payload & 0x3F) if isinstance(payload, int) else DPTArray(tuple(b & 0xFF for b in payload))
                    reply = Telegram(destination_address=GroupAddress(G), direction=TelegramDirection.INCOMING, payload=GroupValueResponse(pv))
                with patch("xknx.core.value_reader.ValueReader.read", new=AsyncMock(return_value=reply)):
                    result = loop.run_until_complete(read_group_value(xknx, GroupValueReadInput(group_address=ga, value_type=vt)))
            else:
                return
        except (ConversionError, CouldNotParseTelegram, CouldNotParseAddress, V.Unbuildable):
            result = None
        except (TypeError, ValueError, OverflowError, IndexError, KeyError, AttributeError):
            # undeclared exception classes of the write / read path are C11's / C07's subject, not a result
            result = None
            ctx.classes["tool-raised-other"] += 1
        finally:
            tasks = asyncio.all_tasks(loop)
            for t in tasks:
                t.cancel()
            if tasks:
                loop.run_until_complete(asyncio.gather(*tasks, return_exceptions=True))
    finally:
        loop.close()
    if result is not None:
        d = check_result(ctx, {"status": "get_connection_status", "send_read": "send_group_value_read", "send_write": "send_group_value_write", "read": "read_group_value"}[tool], result, inp)
        if d is not None and tool == "read":
            if d["responded"] != (case.get("payload") is not None):
                ctx.fail("C45:read-responded-flag", inp, repr(d)[:300])
            if dpt is not None and case.get("payload") is not None:
                pl = case["payload"]
                T = resolved(vt)
                # the responder's payload object is read by the transcoder itself
                if (T.payload_type is DPTBinary) == isinstance(pl, int):
                    compare_with_references(ctx, "read_group_value", T, pl & 0x3F if isinstance(pl, int) else [b & 0xFF for b in pl], True, json.loads(json.dumps(d))["value"], inp)
            if dpt is None and case.get("payload") is not None:
                want = case["payload"] & 0x3F if isinstance(case["payload"], int) else [b & 0xFF for b in case["payload"]]
                if d["value"] != want:
                    ctx.fail("C45:read-raw-value", inp, f"raw payload {want!r} reported as {d['value']!r}")
    if count:
        ctx.case((tool, repr(inp)), nontrivial=result is not None, cls=f"tool:{tool}:{'result' if result is not None else 'raised'}")


def _json_spec(spec: Any) -> bool:
    k = V.kind(spec)
    if k in ("none", "bool", "int", "float", "str"):
        return True
    if k == "list":
        return all(_json_spec(x) for x in spec)
    if k == "dict":
        return all(_json_spec(x) for x in spec["v"].values())
    return False


def tool_strategy() -> Any:
    names = [d.__name__ for d in V.all_dpts()]
    gas = st.sampled_from([G, "1/2/3", "0/0/1", "31/7/255", "i-test", "65535", "1/2", "not-an-address", "", "32/0/0"])
    dpt = st.one_of(st.none(), st.sampled_from(names))
    payload = st.one_of(st.none(), st.integers(0, 63), st.lists(st.integers(0, 255), min_size=1, max_size=14))
    value = V.generic_strategy().filter(_json_spec)
    return st.one_of(
        st.fixed_dictionaries({"tool": st.just("status"), "state": st.integers(0, 40)}),
        st.fixed_dictionaries({"tool": st.just("send_read"), "ga": gas}),
        st.fixed_dictionaries({"tool": st.just("send_write"), "ga": gas, "value": value, "dpt": dpt}),
        st.fixed_dictionaries({"tool": st.just("read"), "ga": gas, "payload": payload, "dpt": dpt}),
        st.fixed_dictionaries({"tool": st.just("read"), "ga": st.just(G), "payload": payload, "dpt": dpt}),
    )


def _read_image_shard(ctx, nshards: int) -> None:
    """read_group_value over a slice of every DPT's decode image (the _jsonify path with real values)."""
    for i, dpt in enumerate(V.all_dpts()):
        if i % nshards != ctx.shard:
            continue
        ps = image_payloads(dpt, True)
        stride = max(1, len(ps) // (12 if ctx.quick else 120))
        small = float32_payloads()[12:30:3] if dpt.dpt_main_number == 14 and dpt.payload_length == 4 else []
        for p in small + ps[::stride]:
            check_bus_tool(ctx, {"tool": "read", "ga": G, "payload": p, "dpt": dpt.__name__})


def _hyp_shard(ctx, n_pages: int, n_tools: int) -> None:
    hyp_search(ctx, filter_strategy(), lambda c, case: check_pages(c, case), n_pages, seed_salt=1, shrink_cap_s=6.0 if ctx.quick else 40.0)
    hyp_search(ctx, tool_strategy(), lambda c, case: check_bus_tool(c, case), n_tools, seed_salt=2, shrink_cap_s=6.0 if ctx.quick else 40.0)


# ----------------------------------------------------------------------------- drivers


def _enumerated_shard(ctx, nshards: int) -> None:
    _image_shard(ctx, nshards)
    _read_image_shard(ctx, nshards)


def _generated_shard(ctx, n_image: int, n_pages: int, n_tools: int) -> None:
    _image_hyp_shard(ctx, n_image)
    _hyp_shard(ctx, n_pages, n_tools)


def selftest(ctx) -> None:
    assert same(float("nan"), float("nan")) and same("a\ufffd", "a?") and not same(1, True) and same([1, {"a": 2.0}], (1, {"a": 2}))
    assert native_defect({"a": [1, 2.5, None, "x", True]}) is None and native_defect({"a": DPTBinary(1)}) is not None
    assert native_defect({1: 2}) is not None
    ref = ref_listing(None, None)
    assert len(ref) == len(list(DPTBase.dpt_class_tree())) > 200
    assert ("9.001", "temperature") in ref_listing(9, "temp") and ref_listing(9, "TEMP") == ref_listing(9, "temp")
    assert ref_listing(999, None) == []
    assert drive(describe_dpt("9.001")).found


def run(ctx) -> None:
    nshards = 16
    # describe_dpt: every real identifier, some unreal ones
    for dpt in V.all_dpts():
        for ident in dpt_ids(dpt):
            check_describe(ctx, ident)
    for ident in ("", "0", "999.999", "9.", "9.001 ", " temperature", "DPT-9", "dpt-14.056", "x", "1.1", "1.0001", "²", "9.001.1"):
        check_describe(ctx, ident)
    # edge pages, enumerated
    for main, text in ((None, None), (9, None), (1, None), (None, "percent"), (14, "w"), (999, None), (None, "zzzz")):
        for limit in (1, 2, 7, 200, 1000, -1):
            for offset in (0, 1, 5, 230, 10_000):
                check_pages(ctx, {"main": main, "text": text, "limit": limit, "offset": offset})
    parallel(ctx, _enumerated_shard, [(nshards,)] * nshards)
    parallel(ctx, _generated_shard, [(ctx.n(150, 8000), ctx.n(60, 2500), ctx.n(120, 5000))] * nshards)


def replay(ctx, case) -> None:
    if "direct" in case and "dpt" in case:
        direct_values(ctx, V.dpt_by_name(case["dpt"]), count=False)
    elif "payload" in case and "dpt" in case and "tool" not in case:
        roundtrip(ctx, V.dpt_by_name(case["dpt"]), case["payload"], count=False)
    elif "limit" in case:
        check_pages(ctx, case, count=False)
    elif "describe" in case:
        check_describe(ctx, case["describe"], count=False)
    elif "tool" in case:
        check_bus_tool(ctx, case, count=False)
