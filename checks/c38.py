"""C38 - eager group-address decoding never changes what devices see.

Two XKNX instances get identical devices (every device class, every remote value type,
several generated sensor DPTs). One of them also gets a generated group-address/DPT
table (matching, mismatching, near-matching and invalid entries in every accepted
notation). The same generated telegram stream goes through the real telegram queue
consumer of both. Afterwards `telegram.decoded_data` must be what the configured type
decodes (None on a decode error / invalid entry) and every remote value, device property
and callback count must be equal between the two instances.
"""

from __future__ import annotations

import asyncio
import inspect
import types

from hypothesis import strategies as st

from vk.core import exc_site
from vk.engine import hyp_search, parallel
from vk.vloop import BudgetExceeded, Deadlock, run_case

PROPERTY = "C38"
LEVEL = "exploration"
TECHNIQUE = "differential testing of two real XKNX instances (with / without eager decoding table) through the telegram queue consumer, Hypothesis-generated tables and telegram streams"
RULE = (
    "device set: every device class with all its remote values at own group addresses plus 5 sensors / 1 numeric value / 1 expose sensor with "
    "generated DPTs; table: per remote value one of {none, own DPT, random DPT of the class tree, DPT with the same main number, invalid id} "
    "rendered as 'main.sub' string, value_type string, dict, int or 'DPT-n'; table history of 1..4 phases on the configured instance "
    "(set; then set again = merge / re-type, clear, or clear followed by set for other addresses / types), each phase followed by write / response / read telegrams (about 25 in all) with payloads of "
    "the remote value's length, the table DPT's length, random length or 6-bit; incoming via the queue consumer (outgoing for the internal address); "
    "non-trivial = at least one telegram was eagerly decoded by a table type that is not the receiving remote value's own type while the remote value accepted the same payload; "
    "distinct by (sensor types, table, stream)"
)
LEVEL_TEXT = (
    "Differential: instance A has no table, instance B the generated one; after the stream every remote value (value, last payload, last telegram), "
    "every public property of every device and the number of device callbacks are compared; decoded_data of every telegram of B is compared with "
    "the decode of the class CURRENTLY configured for its address according to a reference model of the table (set merges, an entry with an unknown id leaves the "
    "previous one, clear empties; classes independently resolved from the class tree), and must be None in A, for unconfigured / invalid entries and on decode errors; "
    "no exception may escape GroupAddressDPT.set, the consumer task or the devices."
)
LEVEL_NOTE = "DPT classes' from_knx is trusted as 'what the configured type decodes' (their correctness is C07-C10); clocks read by BinarySensor / TravelCalculator are frozen and the loop is the virtual-time loop (device timers such as the 0.2 s colour debounce never fire during the stream), so both instances are processed identically regardless of machine load."
ASSUMPTIONS = [
    "the accepted notations of a DPT in the table are those of DPTBase.parse_transcoder (int main number, 'main.sub' / value_type / 'DPT-n' strings, mapping with main / sub)",
    "expected class of a table entry is resolved from DPTBase.dpt_class_tree() by its numbers / value_type, not by calling parse_transcoder",
]


def _tree():
    from xknx.dpt import DPTBase

    return [c for c in DPTBase.dpt_class_tree() if not inspect.isabstract(c)]


_TREE_NAMES: list[str] | None = None


def tree_names() -> list[str]:
    global _TREE_NAMES
    if _TREE_NAMES is None:
        _TREE_NAMES = [c.__name__ for c in _tree()]
    return _TREE_NAMES


def cls_by_name(name: str):
    for c in _tree():
        if c.__name__ == name:
            return c
    raise KeyError(name)


INVALID_IDS = ["", "foo", "9.999", "999", 9999, -1, {"main": "x"}, {"sub": 1}, {"main": 9, "sub": 999}, {"main": None}, None, 1.5, [9, 1], "9.001.1", "DPT-", "1.", ".1", "²", "٣"]


def build_devices(xknx, sensor_types: list[str], counters: dict):
    """Every device class; each remote value gets its own group address 1/x/y."""
    import xknx.devices as D
    from xknx.remote_value.remote_value_setpoint_shift import SetpointShiftMode

    n = [0]

    def ga() -> str:
        n[0] += 1
        return f"1/{n[0] // 200}/{n[0] % 200 + 1}"

    def cb(dev) -> None:
        counters[dev.name] = counters.get(dev.name, 0) + 1

    devs = []

    def add(d):
        d.register_device_updated_cb(cb)
        xknx.devices.async_add(d)
        devs.append(d)

    add(D.Switch(xknx, "switch", group_address=ga(), group_address_state=ga()))
    add(D.Switch(xknx, "switch-inv", group_address=ga(), invert=True))
    add(D.Switch(xknx, "switch-internal", group_address="i-sw"))
    add(D.BinarySensor(xknx, "binary", group_address_state=ga()))
    add(D.BinarySensor(xknx, "binary-inv", group_address_state=ga(), invert=True, ignore_internal_state=True))
    add(
        D.Light(
            xknx,
            "light",
            group_address_switch=ga(),
            group_address_brightness=ga(),
            group_address_color=ga(),
            group_address_rgbw=ga(),
            group_address_hue=ga(),
            group_address_saturation=ga(),
            group_address_xyy_color=ga(),
            group_address_tunable_white=ga(),
            group_address_color_temperature=ga(),
        )
    )
    add(D.Light(xknx, "light-rgb-parts", group_address_switch_red=ga(), group_address_brightness_red=ga(), group_address_switch_green=ga(), group_address_brightness_green=ga(), group_address_switch_blue=ga(), group_address_brightness_blue=ga(), group_address_brightness_white=ga()))
    add(D.Cover(xknx, "cover", group_address_long=ga(), group_address_short=ga(), group_address_stop=ga(), group_address_position=ga(), group_address_position_state=ga(), group_address_angle=ga(), group_address_locked_state=ga()))
    add(D.Fan(xknx, "fan", group_address_speed=ga(), group_address_oscillation=ga(), group_address_switch=ga()))
    add(D.Fan(xknx, "fan-step", group_address_speed=ga(), max_step=3))
    mode = D.ClimateMode(
        xknx,
        "climate-mode",
        group_address_operation_mode=ga(),
        group_address_operation_mode_protection=ga(),
        group_address_operation_mode_economy=ga(),
        group_address_operation_mode_comfort=ga(),
        group_address_operation_mode_standby=ga(),
        group_address_controller_status=ga(),
        group_address_controller_mode=ga(),
        group_address_heat_cool=ga(),
    )
    mode.register_device_updated_cb(cb)
    add(
        D.Climate(
            xknx,
            "climate",
            group_address_temperature=ga(),
            group_address_target_temperature=ga(),
            group_address_setpoint_shift=ga(),
            group_address_on_off=ga(),
            group_address_active_state=ga(),
            group_address_command_value_state=ga(),
            group_address_fan_speed=ga(),
            group_address_humidity_state=ga(),
            group_address_swing=ga(),
            mode=mode,
        )
    )
    add(D.Climate(xknx, "climate-6010", group_address_target_temperature_state=ga(), group_address_setpoint_shift=ga(), setpoint_shift_mode=SetpointShiftMode.DPT6010, temperature_step=0.5, group_address_fan_speed=ga(), fan_speed_mode=D.fan.FanSpeedMode.STEP))
    add(D.ClimateMode(xknx, "mode-alone", group_address_operation_mode_state=ga(), group_address_controller_mode_state=ga(), group_address_heat_cool_state=ga()))
    for i, t in enumerate(sensor_types[:5]):
        add(D.Sensor(xknx, f"sensor{i}", group_address_state=ga(), value_type=cls_by_name(t), always_callback=i % 2 == 0))
    from xknx.dpt import DPTNumeric

    num_t = cls_by_name(sensor_types[5])
    add(D.NumericValue(xknx, "numeric", group_address=ga(), value_type=num_t if issubclass(num_t, DPTNumeric) else "percent"))
    add(D.ExposeSensor(xknx, "expose", group_address=ga(), value_type=cls_by_name(sensor_types[6]), respond_to_read=False))
    add(D.ExposeSensor(xknx, "expose-binary", group_address=ga(), value_type="binary", respond_to_read=False))
    add(D.RawValue(xknx, "raw0", payload_length=0, group_address=ga()))
    add(D.RawValue(xknx, "raw2", payload_length=2, group_address=ga()))
    add(D.Scene(xknx, "scene", group_address=ga(), scene_number=3))
    add(D.Notification(xknx, "note", group_address=ga()))
    add(D.Notification(xknx, "note-latin1", group_address=ga(), value_type="latin_1"))
    add(D.DateTimeDevice(xknx, "datetime", group_address=ga(), localtime=False))
    add(D.DateDevice(xknx, "date", group_address=ga(), localtime=False))
    add(D.TimeDevice(xknx, "time", group_address=ga(), localtime=False))
    add(
        D.Weather(
            xknx,
            "weather",
            group_address_temperature=ga(),
            group_address_brightness_south=ga(),
            group_address_wind_speed=ga(),
            group_address_wind_bearing=ga(),
            group_address_rain_alarm=ga(),
            group_address_day_night=ga(),
            group_address_air_pressure=ga(),
            group_address_humidity=ga(),
        )
    )
    return devs + [mode]


def remote_values(devs):
    """[(device name, index, remote value, first group address)] in construction order."""
    out = []
    seen = set()
    for d in devs:
        for k, rv in enumerate(d._iter_remote_values()):  # noqa: SLF001
            if id(rv) in seen:
                continue
            seen.add(id(rv))
            gas = list(rv.group_addresses())
            if gas:
                out.append((d.name, k, rv, gas[0]))
    return out


_N_RV_CACHE: list = []


def layout():
    """(number of remote values, per remote value: own dpt class name or None, expected payload length or None for binary)."""
    if not _N_RV_CACHE:
        from xknx import XKNX

        async def go():
            x = XKNX()
            devs = build_devices(x, ["DPTTemperature"] * 7, {})
            rvs = remote_values(devs)
            for d in list(x.devices):
                x.devices.async_remove(d)
            return [(name, k, getattr(rv.dpt_class, "__name__", None)) for name, k, rv, _ in rvs]

        loop = asyncio.new_event_loop()
        try:
            _N_RV_CACHE.append(loop.run_until_complete(go()))
        finally:
            loop.close()
    return _N_RV_CACHE[0]


def render(cls, form: int):
    """A table notation for `cls` (independent of parse_transcoder)."""
    main, sub, vt = cls.dpt_main_number, cls.dpt_sub_number, cls.value_type
    if sub is None:
        return [main, str(main), f"DPT-{main}", {"main": main}, {"main": str(main), "sub": None}, vt][form % 6]
    return [f"{main}.{sub:03d}", f"{main}.{sub}", {"main": main, "sub": sub}, vt, f" {main}.{sub:03d} ", {"main": str(main), "sub": str(sub)}][form % 6]


# ---------------------------------------------------------------------------
# strategies

_entry = st.one_of(
    st.just(("none",)),
    st.tuples(st.just("own"), st.integers(0, 5)),
    st.tuples(st.just("own"), st.integers(0, 5)),
    st.tuples(st.just("cls"), st.integers(0, 10_000), st.integers(0, 5)),
    st.tuples(st.just("cls"), st.integers(0, 10_000), st.integers(0, 5)),
    st.tuples(st.just("sibling"), st.integers(0, 10_000), st.integers(0, 5)),
    st.tuples(st.just("sibling"), st.integers(0, 10_000), st.integers(0, 5)),
    st.tuples(st.just("sibling"), st.integers(0, 10_000), st.integers(0, 5)),
    st.tuples(st.just("invalid"), st.integers(0, len(INVALID_IDS) - 1)),
)
_payload = st.one_of(
    st.tuples(st.just("rvlen"), st.binary(min_size=14, max_size=14)),
    st.tuples(st.just("rvlen"), st.binary(min_size=14, max_size=14)),
    st.tuples(st.just("tablen"), st.binary(min_size=14, max_size=14)),
    st.tuples(st.just("tablen"), st.binary(min_size=14, max_size=14)),
    st.tuples(st.just("raw"), st.binary(min_size=0, max_size=15)),
    st.tuples(st.just("bin"), st.integers(0, 63)),
    st.tuples(st.just("bin"), st.integers(0, 1)),
)


@st.composite
def cases(draw):
    names = tree_names()
    n_rv = len(layout())
    sensor_types = [names[draw(st.integers(0, len(names) - 1))] for _ in range(7)]
    # a sparse table: entries for a generated subset of the remote values
    idxs = draw(st.lists(st.integers(0, n_rv - 1), min_size=1, max_size=12, unique=True))
    # a table history: set -> telegrams -> clear / set (merge, other types, other addresses) -> telegrams ...
    script: list = []
    n_phases = draw(st.sampled_from([1, 2, 2, 3, 3, 4]))
    for ph in range(n_phases):
        ops = ["set"] if ph == 0 else draw(st.sampled_from([["set"], ["clear"], ["clear", "set"], ["clear", "set"]]))
        for o in ops:
            if o == "clear":
                script.append(["clear"])
            else:
                sub = idxs if ph == 0 else draw(st.lists(st.sampled_from(idxs), min_size=1, max_size=len(idxs), unique=True))
                script.append(["set", [[i, list(draw(_entry))] for i in sub]])
        for _ in range(draw(st.integers(1, 25 if n_phases == 1 else 8))):
            i = draw(st.sampled_from(idxs)) if draw(st.integers(0, 9)) < 8 else draw(st.integers(0, n_rv - 1))
            script.append(["tele", i, draw(st.sampled_from(["write", "write", "write", "response", "read"])), list(draw(_payload))])
    return {"sensor_types": sensor_types, "script": script}


def script_of(h) -> list:
    """The table / telegram history of a case (older saved inputs: one table, then telegrams)."""
    if "script" in h:
        return h["script"]
    return [["set", h["table"]]] + [["tele", *t] for t in h["telegrams"]]


# ---------------------------------------------------------------------------


def snapshot(devs, counters) -> dict:
    snap: dict = {}
    for d in devs:
        for k, rv in enumerate(d._iter_remote_values()):  # noqa: SLF001
            snap[f"{d.name}.rv{k}.{rv.feature_name}"] = (repr(rv.value), repr(rv.last_payload), repr(rv.telegram.payload) if rv.telegram is not None else None)
        for pname, _ in inspect.getmembers(type(d), lambda o: isinstance(o, property)):
            try:
                val = getattr(d, pname)
                if type(val).__name__ == "Telegram":  # the telegram of B naturally carries decoded_data
                    val = (val.destination_address, val.payload, val.direction)
                v = repr(val)
            except Exception as e:  # noqa: BLE001
                v = f"EXC {type(e).__name__}"
            if " object at 0x" in v:
                continue
            snap[f"{d.name}.{pname}"] = v
        for mname in ("current_position", "is_traveling", "current_angle", "resolve_state", "is_on", "unit_of_measurement"):
            m = getattr(d, mname, None)
            if callable(m):
                try:
                    snap[f"{d.name}.{mname}()"] = repr(m())
                except Exception as e:  # noqa: BLE001
                    snap[f"{d.name}.{mname}()"] = f"EXC {type(e).__name__}"
        for aname in ("state", "counter", "_count_set_on", "_count_set_off", "_learn_requested"):
            if aname in getattr(d, "__dict__", {}):
                snap[f"{d.name}.attr.{aname}"] = repr(d.__dict__[aname])
        snap[f"{d.name}.callbacks"] = counters.get(d.name, 0)
    return snap


class Frozen:
    """Freeze the clocks read by devices so both instances see the same time."""

    def __enter__(self):
        import xknx.devices.binary_sensor as bs
        import xknx.devices.travelcalculator as tc

        self.mods = [(bs, bs.time), (tc, tc.time)]
        fake = types.SimpleNamespace(time=lambda: 1000.0)
        bs.time = fake
        tc.time = fake
        return self

    def __exit__(self, *exc):
        for m, t in self.mods:
            m.time = t
        return False


def make_payload(spec, rv_len, tab_len):
    from xknx.dpt import DPTArray, DPTBinary

    kind, data = spec
    if kind == "bin":
        return DPTBinary(int(data))
    if kind == "raw":
        return DPTArray(bytes(data))
    n = rv_len if kind == "rvlen" else tab_len
    if n is None:
        n = rv_len
    if n is None or n == 0:
        return DPTBinary(bytes(data)[0] & (0x3F if n == 0 else 0x01))
    return DPTArray(bytes(data)[:n])


def dpt_len(cls):
    from xknx.dpt import DPTBinary

    if cls is None:
        return None
    if getattr(cls, "payload_type", None) is DPTBinary:
        return 0
    return getattr(cls, "payload_length", None)


async def run_instance(ctx, h, with_table: bool, plan, info):
    """Returns (snapshot, [decoded_data per telegram]) or None after a recorded failure."""
    from xknx import XKNX
    from xknx.telegram import Telegram, TelegramDirection
    from xknx.telegram.address import InternalGroupAddress
    from xknx.telegram.apci import GroupValueRead, GroupValueResponse, GroupValueWrite

    xknx = XKNX()
    counters: dict = {}
    devs = build_devices(xknx, h["sensor_types"], counters)
    rvs = remote_values(devs)
    await xknx.telegram_queue.start()
    consumer = xknx.telegram_queue._consumer_task  # noqa: SLF001
    sent = []
    try:
        for step, p in zip(script_of(h), plan):
            if step[0] == "set":
                if with_table:
                    table = {(str(rvs[i][3]) if i % 2 else rvs[i][3]): val for i, val in p}
                    try:
                        xknx.group_address_dpt.set(table)
                    except Exception as e:  # noqa: BLE001
                        ctx.fail(f"C38:table-set-exc:{exc_site(e)}", h, f"GroupAddressDPT.set raised {e!r} for {table!r}"[:1500])
                        return None
                continue
            if step[0] == "clear":
                if with_table:
                    try:
                        xknx.group_address_dpt.clear()
                    except Exception as e:  # noqa: BLE001
                        ctx.fail(f"C38:table-clear-exc:{exc_site(e)}", h, f"GroupAddressDPT.clear raised {e!r}")
                        return None
                continue
            _t, i, apci, pspec = step
            name, _k, rv, ga = rvs[i]
            own = rv.dpt_class
            rv_len = dpt_len(own)
            if own is None:
                rv_len = RV_LEN.get(type(rv).__name__)
            tab_cls = p[2]
            value = make_payload(pspec, rv_len, dpt_len(tab_cls))
            payload = GroupValueRead() if apci == "read" else (GroupValueResponse(value) if apci == "response" else GroupValueWrite(value))
            direction = TelegramDirection.OUTGOING if isinstance(ga, InternalGroupAddress) else TelegramDirection.INCOMING
            t = Telegram(destination_address=ga, payload=payload, direction=direction)
            xknx.telegrams.put_nowait(t)
            for _ in range(50):
                await asyncio.sleep(0)
                if xknx.telegrams._unfinished_tasks == 0 or consumer.done():  # noqa: SLF001
                    break
            if consumer.done():
                exc = consumer.exception() if not consumer.cancelled() else None
                ctx.fail(f"C38:consumer-died:{exc_site(exc) if exc else 'cancelled'}", h, f"telegram consumer ended after telegram to {name} ({ga}) payload {value!r}: {exc!r} (table: {with_table})")
                return None
            if xknx.telegrams._unfinished_tasks != 0:  # noqa: SLF001
                ctx.fail("C38:consumer-stalled", h, f"telegram to {name} ({ga}) not processed after 50 loop iterations")
                return None
            sent.append((t, value, apci, rv.last_payload is value))
        snap = snapshot(devs, counters)
        return snap, [(t.decoded_data, value, apci, acc) for t, value, apci, acc in sent]
    finally:
        if not consumer.done():
            await xknx.telegram_queue.stop()
        for d in list(xknx.devices):
            xknx.devices.async_remove(d)
        xknx.task_registry.stop()


RV_LEN = {
    "RemoteValueSwitch": 0,
    "RemoteValueUpDown": 0,
    "RemoteValueStep": 0,
    "RemoteValueScaling": 1,
    "RemoteValueColorRGBW": 6,
    "RemoteValueSetpointShift": 2,
    "RemoteValueBinaryOperationMode": 0,
    "RemoteValueBinaryHeatCool": 0,
    "RemoteValueRaw": 2,
}


def make_plan(h):
    """Reference model of the table, op by op.

    Per script step: for a set the list [(rv index, table value)] handed to GroupAddressDPT.set; for a clear None;
    for a telegram (kind, table value, class currently configured for its address or None, cleared before?, number of sets so far).
    """
    cur: dict = {}
    cleared = False
    n_sets = 0
    plan = []
    for step in script_of(h):
        if step[0] == "set":
            n_sets += 1
            res = resolve_table(h, step[1])
            items = []
            for i, _e in step[1]:
                kind, val, c = res[i]
                if kind is None:
                    continue
                items.append((i, val))
                if c is not None:
                    cur[i] = (kind, val, c)  # an entry with an unknown DPT is skipped: the previous one stays
            plan.append(items)
        elif step[0] == "clear":
            cur = {}
            cleared = True
            plan.append(None)
        else:
            kind, val, c = cur.get(step[1], ("unconfigured", None, None))
            plan.append((kind, val, c, cleared, n_sets))
    return plan


def resolve_table(h, table):
    """index -> (kind, table value, expected class or None) for one set() call."""
    tree = _tree()
    lay = layout()
    # the sensors' own classes follow the generated sensor types
    own_by_idx = {}
    for idx, (name, _k, own) in enumerate(lay):
        own_by_idx[idx] = own
    sensor_names = {f"sensor{i}": t for i, t in enumerate(h["sensor_types"][:5])}
    sensor_names["expose"] = h["sensor_types"][6]
    out = {}
    for i, e in table:
        kind = e[0]
        name = lay[i][0]
        own_name = sensor_names.get(name, own_by_idx[i])
        if name == "numeric":
            own_name = None  # resolved at run time (numeric fallback); treated as foreign
        if kind == "none":
            out[i] = (None, None, None)
        elif kind == "own":
            if own_name is None:
                out[i] = (None, None, None)
            else:
                c = cls_by_name(own_name)
                out[i] = ("own", render(c, e[1]), c)
        elif kind == "cls":
            c = tree[e[1] % len(tree)]
            out[i] = ("cls", render(c, e[2]), c)
        elif kind == "sibling":
            base = cls_by_name(own_name) if own_name else tree[e[1] % len(tree)]
            sibs = [c for c in tree if c.dpt_main_number == base.dpt_main_number]
            c = sibs[e[1] % len(sibs)]
            out[i] = ("sibling", render(c, e[2]), c)
        else:
            out[i] = ("invalid", INVALID_IDS[e[1]], None)
    return out


def oracle(ctx, h) -> None:
    from xknx.exceptions import ConversionError, CouldNotParseTelegram

    plan = make_plan(h)
    tele_plan = [p for st_, p in zip(script_of(h), plan) if st_[0] == "tele"]
    tele_steps = [st_ for st_ in script_of(h) if st_[0] == "tele"]
    info: dict = {}

    async def both():
        a = await run_instance(ctx, h, False, plan, info)
        if a is None:
            return None
        b = await run_instance(ctx, h, True, plan, info)
        if b is None:
            return None
        return a, b

    # virtual-time loop: timers of devices (0.2 s colour debounce, resets) never fire while the
    # stream is processed with sleep(0) steps, so both instances are processed deterministically
    with Frozen():
        try:
            res, vl = run_case(lambda _loop: both(), max_iters=200_000)
            if vl.escaped and res is not None:
                ctx.fail(f"C38:escaped:{type(vl.escaped[0]['exception']).__name__}", h, vl.escaped[0]["repr"])
                res = None
        except (BudgetExceeded, Deadlock):
            ctx.notes["inconclusive"] = ctx.notes.get("inconclusive", 0) + 1
            res = None
        except Exception as e:  # noqa: BLE001
            ctx.fail(f"C38:exc:{exc_site(e)}", h, f"{e!r}")
            res = None
    cls = set()
    own_hits = foreign_hits = 0
    if res is not None:
        (snap_a, dec_a), (snap_b, dec_b) = res
        lay = layout()
        # ---- decoded_data -----------------------------------------------------
        for n, ((da, value, apci, _acc), (db, _v, _a, accepted), (_t, i, _apci, _p), tp) in enumerate(zip(dec_a, dec_b, tele_steps, tele_plan)):
            if da is not None:
                ctx.fail("C38:decoded-data:set-without-table", h, f"telegram {n}: decoded_data {da!r} on the instance without a table")
                break
            kind, _val, exp_cls, cleared, n_sets = tp
            phase = ":after-clear" if cleared else (":after-merge" if n_sets > 1 else "")
            if cleared:
                cls.add("telegram-after-clear" if exp_cls is None else "telegram-after-clear-and-set")
            elif n_sets > 1:
                cls.add("telegram-after-merging-set")
            if exp_cls is None or apci == "read":
                exp = None
            else:
                try:
                    exp = (exp_cls, exp_cls.from_knx(value))
                except (ConversionError, CouldNotParseTelegram):
                    exp = None
            got = None if db is None else (db.transcoder, db.value)
            if repr(got) != repr(exp) or (got is not None and got[0] is not exp[0]):
                which = "missing" if got is None else ("unexpected" if exp is None else ("wrong-transcoder" if got[0] is not exp[0] else "wrong-value"))
                ctx.fail(f"C38:decoded-data:{which}:{kind}{phase}", h, f"telegram {n} to {lay[i][0]} payload {value!r}: decoded_data {got!r}, currently configured type gives {exp!r} (table entry {tp[:3]!r}, cleared before: {cleared}, sets so far: {n_sets})")
                break
            if got is not None:
                if kind == "own":
                    own_hits += 1
                elif accepted:
                    foreign_hits += 1  # both the foreign table type and the remote value decoded this payload
                else:
                    cls.add("eager-decode-by-foreign-type-rv-rejects")
            cls.add(f"entry:{kind}")
        # ---- state ------------------------------------------------------------
        if snap_a != snap_b:
            diff = sorted(k for k in set(snap_a) | set(snap_b) if snap_a.get(k) != snap_b.get(k))
            k0 = diff[0]
            dev = k0.split(".")[0]
            rvcls = ""
            ctx.fail(f"C38:state-differs:{dev}", h, f"{len(diff)} differences, first {k0}: without table {snap_a.get(k0)!r}, with table {snap_b.get(k0)!r}; all: {diff[:8]}")
    if own_hits:
        cls.add("eager-decode-by-own-type")
    if foreign_hits:
        cls.add("eager-decode-by-foreign-type-rv-accepts")
    nontrivial = foreign_hits > 0
    sample = {"script": [st_[0] if st_[0] != "tele" else f"tele->{layout()[st_[1]][0]}" for st_ in script_of(h)][:14]} if nontrivial else None
    ctx.case(repr(h), nontrivial=nontrivial, cls=sorted(cls), sample=sample)


def _shard(ctx, n: int) -> None:
    hyp_search(ctx, cases(), oracle, n)


def selftest(ctx) -> None:
    lay = layout()
    assert len(lay) > 70, len(lay)
    tree = _tree()
    # every notation of every class is distinct from every other class' notations of the same form
    for form in range(6):
        seen = {}
        for c in tree:
            r = repr(render(c, form))
            assert seen.setdefault(r, c) is c, (r, c, seen[r])


def run(ctx) -> None:
    parallel(ctx, _shard, [(ctx.n(80, 1500),)] * 16)
    ctx.exhaustive = False


def replay(ctx, case) -> None:
    oracle(ctx, case)
