"""C08 - every decoded datapoint value re-encodes to a payload with the same meaning.

For every concrete DPT class and every payload p it accepts: v = T.from_knx(p);
p2 = T.to_knx(v) must not raise and must be a payload of T's kind/length;
T.from_knx(p2) must equal v (NaN-aware; for text types U+FFFD compares equal to the
documented replacement '?').  Exhaustive for DPTBinary types and arrays of <= 2
octets; positional sweeps, two-octet field sweeps and seeded random / structured
payloads for 3..14 octet types.  Integration sample: RemoteValueSensor.process()
followed by respond() must queue a payload that decodes to the same value.
"""

from __future__ import annotations

import random

from vk.core import exc_site
from vk.engine import parallel
from vk.strategies import dpts as D
from xknx.exceptions import ConversionError, CouldNotParseTelegram

PROPERTY = "C08"
LEVEL = "exploration"
TECHNIQUE = "round-trip oracle: exhaustive enumeration (<=2-octet payloads) + positional/field sweeps and seeded random payloads over the whole DPT class tree"
RULE = (
    "every concrete DPT class x payloads of its own kind and length (all DPTBinary values, all 1- and 2-octet arrays; "
    "for 3..14-octet types every octet value in every position over 7+ backgrounds, all 65536 values of adjacent octet pairs, "
    "structured and random arrays); evaluated = accepted payloads; non-trivial = decoded value differs from the decode of the all-zero payload; "
    "distinct by construction for the enumerations"
)
ASSUMPTIONS = [
    "value equality: ==, NaN equals NaN, U+FFFD equals '?' for text types (documented replacement)",
    "payload octets are 0..255",
]
LEVEL_TEXT = "exhaustive for all DPT classes with payloads of at most 2 octets; sampled (sweeps + random) for longer payloads"
LEVEL_NOTE = "payloads longer than 2 octets are covered by positional / pair sweeps and random sampling only"

ALLOWED = (CouldNotParseTelegram, ConversionError)

def specs_for(ctx, T, rng: random.Random):
    return D.roundtrip_specs(T, rng, quick=ctx.quick, n_f32=ctx.n(2000, 40000), n_random=ctx.n(4000, 80000))


def roundtrip(ctx, T, spec) -> str:
    """Returns 'rejected', 'decode-exc', 'fail' or 'ok'; records violations on ctx."""
    p = D.mk(spec)
    try:
        v = T.from_knx(p)
    except ALLOWED:
        return "rejected"
    except Exception:  # noqa: BLE001 - undeclared decode exceptions are C07's subject
        return "decode-exc"
    label = D.codec_label(T)
    try:
        p2 = T.to_knx(v)
    except ConversionError as e:
        ctx.fail(f"C08:encode-rejects:{label}:{D.cause_site(e)}", D.case_of(T, spec), f"{T.__name__}: {p!r} -> {v!r}; to_knx raised {type(e).__name__}: {e}")
        return "fail"
    except Exception as e:  # noqa: BLE001
        ctx.fail(f"C08:encode-exc:{label}:{exc_site(e)}", D.case_of(T, spec), f"{T.__name__}: {p!r} -> {v!r}; to_knx raised {type(e).__name__}: {e}")
        return "fail"
    ok_shape = isinstance(p2, T.payload_type) and (
        (D.is_binary(T) and 0 <= p2.value < 2**T.payload_length)
        or (not D.is_binary(T) and len(p2.value) == T.payload_length and all(isinstance(b, int) and 0 <= b <= 255 for b in p2.value))
    )
    if not ok_shape:
        ctx.fail(f"C08:payload-shape:{label}", D.case_of(T, spec), f"{T.__name__}: {p!r} -> {v!r} -> {p2!r} is not a {T.payload_type.__name__} of length {T.payload_length}")
        return "fail"
    try:
        v2 = T.from_knx(p2)
    except Exception as e:  # noqa: BLE001
        ctx.fail(f"C08:redecode-rejects:{label}", D.case_of(T, spec), f"{T.__name__}: {p!r} -> {v!r} -> {p2!r}; from_knx raised {type(e).__name__}: {e}")
        return "fail"
    if not D.same_value(v, v2):
        D.fail_capped(ctx, f"C08:neq:{label}", D.case_of(T, spec), lambda: f"{T.__name__}: {p!r} -> {v!r} -> {p2!r} -> {v2!r}", cap=5000)
        return "fail"
    return "ok"


def _zero_value(T):
    try:
        return True, T.from_knx(D.mk(D.zero_spec(T)))
    except Exception:  # noqa: BLE001
        return False, None


def class_worker(ctx, name: str) -> None:
    T = D.dpt_by_name(name)
    rng = random.Random(ctx.shard_seed() ^ 0xC08)
    has_zero, zero = _zero_value(T)
    n = acc = nt = 0
    seen: set = set()
    exhaustive = D.is_binary(T) or T.payload_length <= 2
    for spec in specs_for(ctx, T, rng):
        n += 1
        if not exhaustive:
            if spec in seen:
                continue
            seen.add(spec)
        st = roundtrip(ctx, T, spec)
        if st in ("rejected", "decode-exc"):
            continue
        acc += 1
        if not has_zero:
            nt += 1
        else:
            try:
                v = T.from_knx(D.mk(spec))
                nt += not D.same_value(v, zero)
            except Exception:  # noqa: BLE001
                pass
    ctx.bulk(acc, nt, f"accepted:{D.kind(T)}:{D.shape(T)}")
    ctx.notes["payloads_generated"] = ctx.notes.get("payloads_generated", 0) + n
    if name in ("DPTPercentV16", "DPTDateTime", "DPTSwitch", "DPTLatin1", "DPTAngle", "DPT4ByteFloat"):
        ctx.sample({"dpt": name, "shape": D.shape(T), "generated": n, "accepted": acc, "nontrivial": nt})


# --------------------------------------------------------------------------- integration


def respond_roundtrip(ctx, T, spec) -> bool:
    """RemoteValueSensor.process(telegram) then respond(): the queued payload decodes to the stored value."""
    from xknx import XKNX
    from xknx.remote_value.remote_value_sensor import RemoteValueSensor
    from xknx.telegram import Telegram
    from xknx.telegram.address import GroupAddress
    from xknx.telegram.apci import GroupValueResponse, GroupValueWrite

    p = D.mk(spec)
    try:
        v = T.from_knx(p)
    except Exception:  # noqa: BLE001
        return False
    if roundtrip(ctx, T, spec) == "fail":
        return True  # same root cause as the codec-level failure just recorded in its bucket
    inp = D.case_of(T, spec, path="respond")
    label = D.codec_label(T)
    xknx = XKNX()
    rv = RemoteValueSensor(xknx, group_address="1/2/3", value_type=T)
    tg = Telegram(destination_address=GroupAddress("1/2/3"), payload=GroupValueWrite(p))
    if not rv.process(tg):
        ctx.fail(f"C08:respond-not-processed:{label}", inp, f"{T.__name__}: accepted payload {p!r} not processed by RemoteValueSensor")
        return True
    try:
        rv.respond()
    except Exception as e:  # noqa: BLE001
        ctx.fail(f"C08:respond-encode-rejects:{label}", inp, f"{T.__name__}: {p!r} -> {v!r}; respond() raised {type(e).__name__}: {e}")
        return True
    if xknx.telegrams.qsize() != 1:
        ctx.fail(f"C08:respond-no-telegram:{label}", inp, f"{T.__name__}: respond() queued {xknx.telegrams.qsize()} telegrams")
        return True
    out = xknx.telegrams.get_nowait()
    if not isinstance(out.payload, GroupValueResponse):
        ctx.fail(f"C08:respond-no-telegram:{label}", inp, f"queued {out!r}")
        return True
    try:
        v2 = T.from_knx(out.payload.value)
    except Exception as e:  # noqa: BLE001
        ctx.fail(f"C08:respond-redecode-rejects:{label}", inp, f"{T.__name__}: {p!r} -> {v!r} -> {out.payload.value!r}: {type(e).__name__}")
        return True
    if not D.same_value(v, v2):
        ctx.fail(f"C08:respond-neq:{label}", inp, f"{T.__name__}: {p!r} -> {v!r}; respond() sent {out.payload.value!r} -> {v2!r}")
    return True


def integration(ctx) -> None:
    rng = random.Random(ctx.shard_seed() ^ 0x8E5)
    for T in D.all_dpt_classes():
        k = 0
        cand = list(D.own_shape_specs(T, rng, 40, exhaustive2=False))
        if T.payload_length == 2 and not D.is_binary(T):
            cand = [("a", bytes((rng.randrange(256), rng.randrange(256)))) for _ in range(60)] + [("a", b"\x00\x1d")]
        rng.shuffle(cand)
        for spec in cand[: ctx.n(60, 400)]:
            if respond_roundtrip(ctx, T, spec):
                k += 1
                ctx.case(("respond", T.__name__, spec), nontrivial=True, cls="integration:process+respond")


def run(ctx) -> None:
    classes = D.all_dpt_classes()
    ctx.notes["dpt_classes"] = len(classes)
    parallel(ctx, class_worker, [(T.__name__,) for T in classes])
    integration(ctx)
    ctx.exhaustive = True  # all <=2-octet / 6-bit payloads of every class enumerated


def replay(ctx, case) -> None:
    T = D.dpt_by_name(case["dpt"])
    spec = D.spec_of_case(case)
    if case.get("path") == "respond":
        respond_roundtrip(ctx, T, spec)
    else:
        roundtrip(ctx, T, spec)
    ctx.case(("replay", case["dpt"], spec), nontrivial=True, cls="replay")
