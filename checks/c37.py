"""C37 - the device registry dispatches each telegram to exactly the right devices.

Generated add / remove / re-add / duplicate-add / remove-unregistered histories over
devices of every type that share group addresses from a small pool. After every step
telegrams to every pool address (and to addresses nobody uses) go through
`xknx.devices.process(telegram)` - the call the telegram queue makes - with every
device's `process` replaced by a recorder. The oracle is a naive scan of the model's
list of registered devices with `Device.has_group_address`.
"""

from __future__ import annotations

import asyncio

from hypothesis import strategies as st

from vk.core import exc_site
from vk.engine import hyp_search, parallel

PROPERTY = "C37"
LEVEL = "exploration"
TECHNIQUE = "model-based stateful histories (Hypothesis, data-driven) vs naive scan of a reference list"
RULE = (
    "2..7 devices drawn from 19 device types (Climate with and without nested ClimateMode), each constructor group-address parameter "
    "bound to None, one address, an active plus passive addresses, or passive addresses only ([None, ga, ...]) from a pool of 4 group + 2 internal addresses; histories of up to 24 "
    "add / remove steps incl. duplicate add, re-add and remove of unregistered devices, registry started or not; devices may carry a set-up fault "
    "(sync_state=' ' that the StateUpdater cannot parse, or register_state_updater / async_start_tasks patched to raise always / once) so that "
    "async_add raises half-way; 'mid' steps let a device add another device or remove a later-registered one from inside its process() during the dispatch; after every step "
    "a write, read or response telegram to every pool address, an unused group address and an individual address; "
    "non-trivial = some telegram had >= 2 expected receivers after at least one removal, or an erroneous add/remove was exercised with devices registered; "
    "distinct by (devices, history)"
)
LEVEL_TEXT = (
    "After every step of every generated history the recorded `process` calls per telegram are compared with the naive scan of the "
    "reference list (same devices, once each, registration order); duplicate add / unknown remove must raise ValueError and leave "
    "iteration order, length, membership, lookups, the registry callback on each device and dispatch unchanged."
)
LEVEL_NOTE = "An add that fails inside the device's own set-up may leave the device registered or not (outcome read from `device in registry`), but iteration, len, membership, callbacks, lookup and dispatch must agree on it and a later remove must work. Devices' own process() is replaced by a recorder (dispatch only); has_group_address of the device classes is trusted as the definition of 'uses the address'."
ASSUMPTIONS = [
    "'uses its group address' = Device.has_group_address(address) of the registered device, cross-checked against the address lists the check itself configured (active, state and passive addresses all count; Device.group_addresses() is not consulted)",
    "the error for duplicate add / unknown remove is ValueError (Devices.async_add / async_remove)",
    "telegrams addressed to an individual address reach no device",
    "registry changes made from inside a device's process() / callback while a telegram is being dispatched are generated in two forms: adding a new (fault-free) device "
    "on the same or another pool address, and removing a LATER-registered device; for that telegram only the devices registered before the dispatch started and still "
    "registered when it ends are judged (each using the address processes it exactly once, in registration order; no exception out of Devices.process); the added / removed "
    "device itself is not judged for that telegram. A device removing ITSELF (or an earlier device) mid-dispatch stays excluded: 'registered' is ambiguous there and the "
    "pinned tree skips the next device in that case",
]

POOL = ["1/0/1", "1/0/2", "1/0/3", "7/7/7", "i-a", "i-b"]
UNUSED = "31/7/255"

# type -> (group address keyword names, extra kwargs)
TYPES: dict[str, tuple[list[str], dict]] = {
    "Switch": (["group_address", "group_address_state"], {}),
    "BinarySensor": (["group_address_state"], {}),
    "Light": (
        ["group_address_switch", "group_address_switch_state", "group_address_brightness", "group_address_color", "group_address_rgbw_state", "group_address_tunable_white", "group_address_switch_red", "group_address_brightness_white_state"],
        {},
    ),
    "Cover": (["group_address_long", "group_address_short", "group_address_stop", "group_address_position", "group_address_position_state", "group_address_angle", "group_address_locked_state"], {}),
    "Fan": (["group_address_speed", "group_address_speed_state", "group_address_oscillation", "group_address_switch"], {}),
    "FanStep": (["group_address_speed", "group_address_speed_state"], {"max_step": 3}),
    "Climate": (["group_address_temperature", "group_address_target_temperature", "group_address_setpoint_shift", "group_address_on_off", "group_address_fan_speed", "group_address_humidity_state"], {}),
    "ClimateWithMode": (["group_address_temperature", "group_address_target_temperature_state", "mode:group_address_operation_mode", "mode:group_address_controller_mode_state", "mode:group_address_heat_cool"], {}),
    "ClimateMode": (["group_address_operation_mode", "group_address_operation_mode_state", "group_address_operation_mode_comfort", "group_address_controller_status", "group_address_heat_cool_state"], {}),
    "Sensor": (["group_address_state"], {"value_type": "temperature"}),
    "NumericValue": (["group_address", "group_address_state"], {"value_type": "percent"}),
    "RawValue": (["group_address", "group_address_state"], {"payload_length": 2}),
    "Scene": (["group_address"], {"scene_number": 5}),
    "Notification": (["group_address", "group_address_state"], {}),
    "ExposeSensor": (["group_address"], {"value_type": "temperature"}),
    "DateTimeDevice": (["group_address", "group_address_state"], {"localtime": False}),
    "DateDevice": (["group_address", "group_address_state"], {"localtime": True}),
    "TimeDevice": (["group_address"], {"localtime": False}),
    "Weather": (["group_address_temperature", "group_address_brightness_south", "group_address_wind_speed", "group_address_rain_alarm", "group_address_day_night", "group_address_humidity"], {}),
}
TYPE_NAMES = sorted(TYPES)


SYNC_TYPES = {"Switch", "BinarySensor", "Light", "Cover", "Fan", "FanStep", "Climate", "ClimateWithMode", "ClimateMode", "Sensor", "NumericValue", "RawValue", "Notification", "DateTimeDevice", "Weather"}


class SetupFault(Exception):
    """Raised by a patched set-up method of a device (fault injection)."""


def build_device(xknx, idx: int, spec):
    """spec = [type name, [binding per address keyword], fault]; binding None | int | [ints] (first active, rest passive).

    fault: None | "blank_sync" (sync_state=" ": StateUpdater cannot parse it, register_state_updater raises if the
    device has a state address) | ["state_updater" | "start_tasks", "always" | "once"] (method patched on the instance).
    """
    import xknx.devices as D

    tname, bindings = spec[0], spec[1]
    fault = spec[2] if len(spec) > 2 else None
    names, extra = TYPES[tname]
    if fault == "blank_sync" and tname in SYNC_TYPES:
        extra = {**extra, "sync_state": " "}
    kw: dict = {}
    mode_kw: dict = {}
    for name, b in zip(names, bindings):
        if b is None:
            continue
        val = POOL[b] if isinstance(b, int) else [POOL[i] if i >= 0 else None for i in b]  # -1: no active address, passive only
        if name.startswith("mode:"):
            mode_kw[name[5:]] = val
        else:
            kw[name] = val
    cls_name = {"FanStep": "Fan", "ClimateWithMode": "Climate"}.get(tname, tname)
    if tname == "ClimateWithMode":
        kw["mode"] = D.ClimateMode(xknx, f"d{idx}-mode", **mode_kw)
    dev = getattr(D, cls_name)(xknx, f"d{idx}", **kw, **extra)
    if isinstance(fault, list):
        mname = "register_state_updater" if fault[0] == "state_updater" else "async_start_tasks"
        orig = getattr(dev, mname)
        left = [1 if fault[1] == "once" else 10**9]

        def faulty(*a, **k):
            if left[0] > 0:
                left[0] -= 1
                raise SetupFault(f"{mname} of {dev.name} fails")
            return orig(*a, **k)

        setattr(dev, mname, faulty)
    return dev


_binding = st.one_of(
    st.none(),
    st.integers(0, len(POOL) - 1),
    st.integers(0, len(POOL) - 1),
    st.lists(st.integers(0, len(POOL) - 1), min_size=2, max_size=3),
    st.lists(st.integers(0, len(POOL) - 1), min_size=1, max_size=2).map(lambda l: [-1, *l]),  # [None, ga, ...]: passive addresses only
)


def configured_addresses(spec) -> set[str]:
    """The pool addresses the check itself bound to the device (independent of the device's own bookkeeping)."""
    tname, bindings = spec[0], spec[1]
    names, _ = TYPES[tname]
    out: set[str] = set()
    for name, b in zip(names, bindings):
        if b is None or (tname == "DateDevice" and name == "group_address_state"):  # localtime devices ignore the state address
            continue
        out.update(POOL[i] for i in ([b] if isinstance(b, int) else b) if i >= 0)
    return out


@st.composite
def device_specs(draw):
    t = draw(st.sampled_from(TYPE_NAMES))
    names, _ = TYPES[t]
    b = [draw(_binding) for _ in names]
    if all(x is None for x in b):
        b[draw(st.integers(0, len(b) - 1))] = draw(st.integers(0, len(POOL) - 1))
    fault = draw(
        st.one_of(
            st.none(),
            st.none(),
            st.just("blank_sync"),
            st.tuples(st.sampled_from(["state_updater", "start_tasks"]), st.sampled_from(["always", "once"])).map(list),
        )
    )
    return [t, b, fault]


@st.composite
def histories(draw):
    devs = draw(st.lists(device_specs(), min_size=2, max_size=7))
    n = len(devs)
    op = st.one_of(
        st.tuples(st.sampled_from(["add", "add", "add", "remove", "remove"]), st.integers(0, n - 1)),
        st.tuples(st.sampled_from(["add", "add", "add", "remove", "remove"]), st.integers(0, n - 1)),
        st.tuples(st.sampled_from(["mid_add", "mid_add", "mid_remove"]), st.integers(0, n - 1), st.integers(0, n - 1)),
    )
    ops = draw(st.lists(op, min_size=1, max_size=24))
    return {"devices": devs, "started": draw(st.booleans()), "apci": draw(st.sampled_from(["write", "write", "read", "response"])), "ops": [list(o) for o in ops]}


def _telegrams(apci: str):
    from xknx.dpt import DPTArray, DPTBinary
    from xknx.telegram import GroupAddress, IndividualAddress, Telegram, TelegramDirection
    from xknx.telegram.address import InternalGroupAddress
    from xknx.telegram.apci import GroupValueRead, GroupValueResponse, GroupValueWrite

    def payload():
        if apci == "read":
            return GroupValueRead()
        if apci == "response":
            return GroupValueResponse(DPTArray((1, 2)))
        return GroupValueWrite(DPTBinary(1))

    out = []
    for a in POOL + [UNUSED]:
        dst = InternalGroupAddress(a) if a.startswith("i-") else GroupAddress(GroupAddress(a).raw)  # built from the raw int
        out.append((a, Telegram(destination_address=dst, payload=payload(), direction=TelegramDirection.INCOMING)))
    out.append(("individual 1.0.1", Telegram(destination_address=IndividualAddress("1.0.1"), payload=payload(), direction=TelegramDirection.INCOMING)))
    return out


def oracle(ctx, h) -> None:
    from xknx import XKNX
    from xknx.telegram import IndividualAddress

    info = {"nontrivial": False, "cls": set()}

    async def scenario():
        xknx = XKNX()
        if h["started"]:
            xknx.started.set()
        devices = [build_device(xknx, i, s) for i, s in enumerate(h["devices"])]
        calls: list[int] = []
        reg = xknx.devices
        model: list[int] = []
        configured = [configured_addresses(sp) for sp in h["devices"]]
        state: dict = {"mid": None}

        def recorder(i: int):
            def process(telegram) -> None:
                calls.append(i)
                m = state["mid"]
                if m is None or m["fired"] or m["actor"] != i or i not in model:
                    return
                n = len(devices)
                for t in [(m["target"] + k) % n for k in range(n)]:  # first suitable device, starting at the drawn one
                    spec = h["devices"][t]
                    if m["kind"] == "mid_add" and t != i and t not in model and (len(spec) < 3 or spec[2] is None):
                        m["fired"], m["target"] = True, t
                        reg.async_add(devices[t])
                        return
                    if m["kind"] == "mid_remove" and t in model and model.index(t) > model.index(i):
                        m["fired"], m["target"] = True, t  # a LATER registered device (self-removal mid-dispatch stays excluded)
                        reg.async_remove(devices[t])
                        return

            return process

        for i, d in enumerate(devices):
            d.process = recorder(i)  # recorder instead of the device logic
        removed_once = False
        ever_removed: set[int] = set()
        try:
            for step, op in enumerate(h["ops"]):
                name, i = op[0], int(op[1])
                before = list(model)
                expect_error = setup_failed = False
                if name.startswith("mid_"):
                    # no change now: device `i` changes the registry from inside its process() during the
                    # first telegram it receives in the dispatch round below
                    state["mid"] = {"kind": name, "actor": i, "target": int(op[2]), "fired": False}
                else:
                    dev = devices[i]
                    before = list(model)
                    expect_error = (name == "add") == (i in model)
                    fault = h["devices"][i][2] if len(h["devices"][i]) > 2 else None
                    setup_failed = False
                    try:
                        if name == "add":
                            reg.async_add(dev)
                        else:
                            reg.async_remove(dev)
                        raised = None
                    except Exception as e:  # noqa: BLE001
                        if name == "add" and not expect_error and fault is not None:
                            # the device's own set-up failed inside async_add: either outcome (registered / not
                            # registered) is accepted, but every view of the registry has to agree on it
                            setup_failed = True
                            raised = None
                            info["cls"].add("add-fails-in-set-up:" + (fault if isinstance(fault, str) else fault[0]))
                        elif isinstance(e, ValueError):
                            raised = e
                        else:
                            ctx.fail(f"C37:exc:{name}:{exc_site(e)}", h, f"step {step} {name} d{i} ({h['devices'][i][0]}) raised {e!r}")
                            return
                    if expect_error:
                        info["cls"].add("duplicate-add" if name == "add" else "remove-unregistered")
                        if model:
                            info["nontrivial"] = True
                        if raised is None:
                            ctx.fail(f"C37:no-error:{'duplicate-add' if name == 'add' else 'remove-unregistered'}", h, f"step {step}: {name} d{i} did not raise")
                            return
                    else:
                        if raised is not None:
                            ctx.fail(f"C37:spurious-error:{name}", h, f"step {step}: {name} d{i} raised {raised!r} although it was {'not ' if name == 'add' else ''}registered")
                            return
                        if name == "add" and setup_failed:
                            if dev in reg:
                                model.append(i)
                                info["cls"].add("failed-set-up-left-registered")
                            if model:
                                info["nontrivial"] = True
                        elif name == "add":
                            if i in ever_removed:
                                info["cls"].add("re-add")
                            model.append(i)
                        else:
                            model.remove(i)
                            ever_removed.add(i)
                            removed_once = True
                            info["cls"].add("remove")
                # ---- registry views --------------------------------------------
                what = "changed-by-failed-" + name if expect_error else ("after-add-failing-in-set-up" if setup_failed else "after-" + name)
                if name.startswith("mid_"):
                    what = "registry-changed-during-dispatch:" + name[4:]
                listed = [devices.index(d) for d in reg]
                if listed != model:
                    ctx.fail(f"C37:iteration:{what}", h, f"step {step}: registry iterates {listed}, reference {model} (before {before})")
                    return
                if len(reg) != len(model) or any((d in reg) != (j in model) for j, d in enumerate(devices)):
                    ctx.fail(f"C37:membership:{what}", h, f"step {step}: len {len(reg)} / membership differ from reference {model}")
                    return
                cbs = [len(d.device_updated_cbs) for d in devices]
                if cbs != [1 if j in model else 0 for j in range(len(devices))]:
                    ctx.fail(f"C37:device-callbacks:{what}", h, f"step {step}: registry callbacks on the devices {cbs}, registered {model}")
                    return
                # ---- dispatch ------------------------------------------------------
                for label, telegram in _telegrams(h["apci"]):
                    calls.clear()
                    try:
                        reg.process(telegram)
                    except Exception as e:  # noqa: BLE001
                        ctx.fail(f"C37:exc:process:{exc_site(e)}", h, f"step {step}: process of telegram to {label} raised {e!r}")
                        return
                    dst = telegram.destination_address
                    m = state["mid"]
                    fired = m is not None and m["fired"]
                    # a device added / removed while this telegram was dispatched is not judged for it; every device
                    # registered before and after must still get it exactly once, in registration order
                    skip = m["target"] if fired else None
                    exp = [] if isinstance(dst, IndividualAddress) else [j for j in model if j != skip and devices[j].has_group_address(dst)]
                    exp_cfg = [] if isinstance(dst, IndividualAddress) else [j for j in model if j != skip and label in configured[j]]
                    if exp != exp_cfg:
                        ctx.fail("C37:has_group_address-disagrees-with-configured-addresses", h, f"step {step}: address {label}: has_group_address scan {exp}, devices configured with it {exp_cfg}")
                        return
                    if any(isinstance(b, list) and b and b[0] < 0 and label in [POOL[k] for k in b[1:]] for j in exp for b in h["devices"][j][1]):
                        info["cls"].add("receiver-with-passive-only-address")
                    got = [c for c in calls if c != skip]
                    if fired:
                        info["cls"].add("registry-changed-during-dispatch:" + m["kind"][4:] + (":same-address" if devices[skip].has_group_address(dst) else ":other-address"))
                        if len(exp) >= 2:
                            info["nontrivial"] = True
                        if m["kind"] == "mid_add":
                            if devices[skip] in reg:
                                model.append(skip)
                        else:
                            model.remove(skip)
                            ever_removed.add(skip)
                            removed_once = True
                        state["mid"] = None
                    if got != exp:
                        if sorted(got) == sorted(exp):
                            kind = "order"
                        elif len(set(got)) != len(got):
                            kind = "duplicate-delivery"
                        elif set(got) - set(exp):
                            kind = "extra-receiver" + (":unregistered" if set(got) - set(model) else ":wrong-address")
                        else:
                            kind = "missing-receiver"
                        ctx.fail(f"C37:dispatch:{kind}:{what}", h, f"step {step} ({name} d{i}): telegram to {label} processed by {got}, reference scan {exp}; registered {model}")
                        return
                    if fired:
                        exp = [] if isinstance(dst, IndividualAddress) else [j for j in model if devices[j].has_group_address(dst)]
                    looked = [devices.index(d) for d in reg.devices_by_group_address(dst)] if not isinstance(dst, IndividualAddress) else []
                    if looked != exp:
                        ctx.fail(f"C37:lookup:{what}", h, f"step {step}: devices_by_group_address({label}) = {looked}, reference {exp}")
                        return
                    if len(exp) >= 2 and removed_once:
                        info["nontrivial"] = True
                    if len(exp) >= 2:
                        info["cls"].add("shared-address")
                state["mid"] = None
        finally:
            for d in list(reg):
                try:
                    reg.async_remove(d)
                except Exception:  # noqa: BLE001
                    pass
            xknx.task_registry.stop()
            xknx.started.clear()
            await asyncio.sleep(0)

    loop = asyncio.new_event_loop()
    try:
        loop.run_until_complete(scenario())
    finally:
        loop.close()
    types_ = sorted({s[0] for s in h["devices"]})
    cls = sorted(info["cls"]) + ["type:" + t for t in types_] + ["started" if h["started"] else "not-started", "apci:" + h["apci"]]
    sample = {"devices": h["devices"][:3], "ops": h["ops"][:10]} if info["nontrivial"] and len(h["ops"]) > 8 else None
    ctx.case(repr((h["devices"], h["started"], h["apci"], h["ops"])), nontrivial=info["nontrivial"], cls=cls, sample=sample)


def _shard(ctx, n: int) -> None:
    hyp_search(ctx, histories(), oracle, n)


def selftest(ctx) -> None:
    """Every device type can be built with every address keyword bound."""
    from xknx import XKNX

    async def go():
        xknx = XKNX()
        for t in TYPE_NAMES:
            names, _ = TYPES[t]
            d = build_device(xknx, 0, [t, [k % len(POOL) for k in range(len(names))]])
            exp = {POOL[k % len(POOL)] for k in range(len(names))}
            if t == "DateDevice":
                exp = {POOL[0]}  # state address ignored with localtime
            got = {str(a) for a in d.group_addresses()}
            assert got == exp, (t, got, exp)

    loop = asyncio.new_event_loop()
    try:
        loop.run_until_complete(go())
    finally:
        loop.close()


def run(ctx) -> None:
    parallel(ctx, _shard, [(ctx.n(120, 4000),)] * 16)
    ctx.exhaustive = False


def replay(ctx, case) -> None:
    oracle(ctx, case)
