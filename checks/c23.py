"""C23 - server-sent tunnel and management frames are delivered once, in order.

The real `UDPTunnel` and `UDPDeviceManagementConnection` (+ `DeviceManagement`) run on the
virtual-time loop against the simulated gateway. The gateway sends histories of
TunnellingRequest / DeviceConfigurationRequest datagrams whose counters are chosen
relative to the counter the driver believes the client expects (expected, expected-1,
expected+k, absolute random, repeat of the last datagram), with per-datagram delivery
delays (reordering), gaps around the tunnel's 2 s out-of-order timer, > 300 frames
(wrap-around) and server-side disconnects followed by a new Connect handshake.

The oracle is a reference model `expected` (mod 256, reset at every completed Connect
handshake seen on the wire) evaluated over the datagrams *as delivered* (wire log order):
every delivered datagram has a unique cEMI payload, the acknowledgements and the
`cemi_received_callback` calls it caused are the log entries that follow it.
"""

from __future__ import annotations

import asyncio
import itertools

from hypothesis import strategies as st

from vk.core import HarnessError, exc_site
from vk.engine import hyp_search, parallel
from vk.simgw import GW_ADDR, NET_DELAY, SimGateway
from vk.vloop import BudgetExceeded, Deadlock, run_case

PROPERTY = "C23"
LEVEL = "exploration"
TECHNIQUE = "Hypothesis-generated datagram histories + bounded exhaustive enumeration of short counter sequences (also across the 255->0 wrap), real UDP tunnel / device-management connection on a virtual-time loop vs simulated gateway and a mod-256 reference model; wire-log oracle"
RULE = (
    "case = (connection kind: UDPTunnel auto_reconnect on/off | UDPDeviceManagementConnection, route_back off/on (NAT mode), in-order prefix length, list of ops (gap, kind, arg, delivery delay)); "
    "kinds: e expected, r expected-1, o expected+k (k in 1..254), a absolute counter, d counter of the previous datagram, b burst of n in-order frames, x server DisconnectRequest + new handshake; "
    "delivery delays 5 ms..1 s reorder datagrams, gaps 0..2.5 s straddle the 2 s out-of-order timer; every symbol sequence over {e,r,o+1,o+128,d,x,2.1 s pause} up to length 4 (quick) / 6 (thorough) "
    "is enumerated from expected=0 and up to length 2 / 4 from expected=254; UDP tunnel: 0..3 datagrams (counters 0,0 / 0,1 / 0,1,2 / 0,0,1 / 1 / 255 / random) handed over in the SAME loop iteration as the ConnectResponse "
    "of the initial connect and of every reconnect handshake, followed by every word up to length 2 / 3 and by generated histories; consumers that raise: a per-datagram flag makes the cEMI callback raise a generated exception type "
    "(ValueError, KeyError, RuntimeError, CouldNotParseCEMI, UnsupportedCEMIMessage, ConversionError) after it was called - every word up to length 3 / 4 x 4 sets of raising datagrams x 3 connection kinds, and in generated histories; non-trivial = the delivered history contains a repeated or out-of-order datagram, a second handshake or more than 256 expected frames; distinct by case"
)
LEVEL_TEXT = "Generated and bounded-exhaustive request histories are replayed against the real UDP tunnel and UDP device-management handlers in virtual time; deliveries and acknowledgements are compared datagram by datagram with a mod-256 reference model that is reset at every Connect handshake on the wire."
LEVEL_NOTE = "Only own-channel datagrams are sent, and only while the simulated server holds an established channel; TCP connections do not evaluate counters and are out of scope; KNX/IP codec used for the wire log is trusted here (C20/C21)."
ASSUMPTIONS = [
    "single-threaded asyncio on a virtual clock; the gateway sends data requests only on its current channel and only between a delivered ConnectResponse and the next Disconnect (requests already in flight are still judged when delivered)",
    "every injected datagram carries the client's own channel id (the property does not speak about foreign channels: the tunnel ignores the channel id, DeviceManagement drops foreign channels)",
    "datagrams right behind the ConnectResponse (same loop iteration, before connect() resumes) are driven for the UDP tunnel only: UDPDeviceManagementConnection registers its receiver when connect() resumes, "
    "so such a DeviceConfigurationRequest is dropped like a lost datagram (no ack, not passed up; the server's repetition is then accepted) - observed, treated as a loss, not judged",
    "a consumer's own exception escaping into the event loop is not judged (only acks, pass-up and counters are); for the device-management connection the consumer is the cemi_received_callback handed to DeviceManagement (it raises before the connection's own parsing)",
    "TCP tunnels / TCP device-management connections do not evaluate sequence counters (Core 03.08.02 §8.4.3.4.1) and are not driven",
    "wire log parsed with xknx.knxip (codec judged separately by C20/C21)",
]

GAPS = [0.0, 0.001, 0.001, 0.02, 0.5, 1.0, 1.9, 1.99, 2.0, 2.01, 2.5]
DELAYS = [NET_DELAY, NET_DELAY, NET_DELAY, 0.02, 0.3, 1.0]
KINDS = {"tunnel": ("TunnellingRequest", "TunnellingAck"), "devmgmt": ("DeviceConfigurationRequest", "DeviceConfigurationAck")}


def payload(conn: str, i: int) -> bytes:
    """Unique raw cEMI for injected datagram number i."""
    if conn == "tunnel":
        # L_Data.ind, 1.1.1 -> 1/1/1, GroupValueWrite 2 octets
        return bytes([0x29, 0x00, 0xBC, 0xE0, 0x11, 0x01, 0x09, 0x01, 0x03, 0x00, 0x80, (i >> 8) & 0xFF, i & 0xFF])
    # M_PropInfo.ind, KNXnet/IP parameter object (11), instance 1, PID 0x47, 1 element from index 1, 2 octets data
    return bytes([0xF7, 0x00, 0x0B, 0x01, 0x47, 0x10, 0x01, (i >> 8) & 0xFF, i & 0xFF])


def execute(case):
    from xknx import XKNX
    from xknx.exceptions import CommunicationError
    from xknx.io.device_management_connection import UDPDeviceManagementConnection
    from xknx.io.tunnel import UDPTunnel

    conn = case["conn"]
    gw = SimGateway()
    gw.send_con = False
    conn_reqs = [0]
    info = {"injected": 0, "skipped": 0, "user_connects": 0, "ind": []}

    def _count_connect(_gw, _body, _entry):
        conn_reqs[0] += 1
        return False

    gw.hooks["ConnectRequest"] = _count_connect

    raises = {int(i): str(t) for i, t in (case.get("raises") or [])}
    info["raised"] = 0

    def up(raw):
        """The consumer (cemi_received_callback). For datagrams flagged in case['raises'] it raises after having been called."""
        gw.log.append({"t": round(gw.loop.time(), 6), "tick": gw.loop.tick, "dir": "up", "kind": "cemi", "raw": bytes(raw), "epoch": gw.epoch})
        idx = (raw[-2] << 8) | raw[-1]
        if idx in raises:
            from xknx import exceptions as xe

            exc_type = {"ValueError": ValueError, "KeyError": KeyError, "RuntimeError": RuntimeError, "CouldNotParseCEMI": xe.CouldNotParseCEMI, "UnsupportedCEMIMessage": xe.UnsupportedCEMIMessage, "ConversionError": xe.ConversionError}[raises[idx]]
            exc = exc_type(f"consumer raises on datagram #{idx}")
            exc._c23_consumer = True  # lets the judge tell it from an exception of the code under test
            info["raised"] += 1
            raise exc

    async def scenario(loop):
        gw.attach(loop)
        if conn == "tunnel":
            xknx = XKNX()
            client = UDPTunnel(xknx, up, gateway_ip=GW_ADDR[0], gateway_port=GW_ADDR[1], local_ip="10.0.0.2", route_back=bool(case.get("route_back")), auto_reconnect=case["auto_reconnect"], auto_reconnect_wait=1)
        else:

            class Recording(UDPDeviceManagementConnection):
                """Observe the cemi_received_callback handed to DeviceManagement (bound at connect)."""

                def _cemi_received(self, raw_cemi):
                    up(raw_cemi)
                    super()._cemi_received(raw_cemi)

            client = Recording(gateway_ip=GW_ADDR[0], gateway_port=GW_ADDR[1], local_ip="10.0.0.2", route_back=bool(case.get("route_back")), indication_callback=lambda cemi: info["ind"].append(bytes(cemi.data.data)))
        belief = 0
        last_seq = 0
        n = 0
        beliefs: dict[int, int] = {}

        def behind(g):
            """Datagrams handed to the client in the same loop iteration as the ConnectResponse of handshake g.epoch."""
            nonlocal n, last_seq
            lists = case.get("behind") or []
            h = g.epoch - 1
            seqs = lists[h] if h < len(lists) else []
            b, items = 0, []
            for sq in seqs:
                sq &= 0xFF
                items.append((payload(conn, n), sq, {"inj": n}))
                n += 1
                last_seq = sq
                if sq == b:
                    b = (b + 1) & 0xFF
            beliefs[g.epoch] = b
            return items

        gw.behind_handshake = behind
        await client.connect()
        epoch_seen = gw.epoch
        belief = beliefs.get(gw.epoch, 0)

        def established():
            return gw.channel is not None and gw.epoch == conn_reqs[0]

        async def ensure_connected():
            nonlocal belief, epoch_seen
            if not established():
                for _ in range(40):  # an automatic reconnect takes ~15 ms
                    await asyncio.sleep(0.005)
                    if established():
                        break
            if not established():
                # nothing reconnects on its own (auto_reconnect off / device management): the user does
                reconnecting = conn == "tunnel" and client._reconnect_task is not None
                if not reconnecting and gw.channel is None and client.communication_channel is None:
                    try:
                        info["user_connects"] += 1
                        await client.connect()
                    except CommunicationError:
                        pass
            if gw.epoch != epoch_seen:
                epoch_seen = gw.epoch
                belief = beliefs.get(gw.epoch, 0)
            return established()

        def inject(seq, delay):
            nonlocal n, last_seq
            raw = payload(conn, n)
            if conn == "tunnel":
                gw.server_tunnelling_request(raw, seq=seq, delay=delay, inj=n)
            else:
                gw.server_devcfg_request(raw, seq=seq, delay=delay, inj=n)
            n += 1
            last_seq = seq

        ops = ([[0.0, "b", case["prefix"], NET_DELAY]] if case.get("prefix") else []) + list(case["ops"])
        for gap, kind, arg, delay in ops:
            if gap:
                await asyncio.sleep(gap)
            if kind == "g":
                continue
            if not await ensure_connected():
                info["skipped"] += 1
                continue
            if kind == "x":
                gw.server_disconnect()
                await asyncio.sleep(0.001)
                continue
            if kind == "b":
                for _ in range(arg):
                    inject(belief, NET_DELAY)
                    belief = (belief + 1) & 0xFF
                    await asyncio.sleep(0.001)
                    if gw.epoch != epoch_seen or gw.channel is None:
                        break
                continue
            if kind == "e":
                inject(belief, delay)
                belief = (belief + 1) & 0xFF
            elif kind == "r":
                inject((belief - 1) & 0xFF, delay)
            elif kind == "o":
                inject((belief + arg) & 0xFF, delay)
            elif kind == "a":
                inject(arg & 0xFF, delay)
                if arg & 0xFF == belief:
                    belief = (belief + 1) & 0xFF
            elif kind == "d":
                inject(last_seq, delay)
                if last_seq == belief:
                    belief = (belief + 1) & 0xFF
        info["injected"] = n
        await asyncio.sleep(case.get("tail", 3.0))
        try:
            await client.disconnect()
        except CommunicationError:
            pass
        return None

    _, loop = run_case(scenario, net=None, max_iters=600_000)
    if gw.errors:
        raise HarnessError("simulator error: " + gw.errors[0])
    return gw.log, info, loop.escaped


def judge(ctx, case, log, info, escaped):
    """Reference model over the delivered datagrams. Returns class facts of the history."""
    conn = case["conn"]
    req_kind, ack_kind = KINDS[conn]
    for e in escaped:
        if getattr(e["exception"], "_c23_consumer", False):
            continue  # the consumer's own exception reaching the loop is not judged here - only acks / pass-up / counters are
        ctx.fail(f"C23:{conn}:escaped:{type(e['exception']).__name__}", case, e["repr"] + " " + e["message"])
    expected = None
    facts = {"expected": 0, "repeated": 0, "out_of_order": 0, "handshakes": 0, "wrapped": False, "max_run": 0}
    run_len = 0
    seen_payloads = set()
    n_ack_total = sum(1 for e in log if e["dir"] == "c2s" and e["kind"] == ack_kind)
    n_up_total = sum(1 for e in log if e["dir"] == "up")
    n_ack_win = n_up_win = 0
    i = 0
    N = len(log)
    while i < N:
        e = log[i]
        i += 1
        if e["dir"] == "s2c" and e["kind"] == "ConnectResponse" and e.get("handshake") and e.get("status_code") == "E_NO_ERROR":
            expected = 0
            run_len = 0
            facts["handshakes"] += 1
            continue
        if not (e["dir"] == "s2c" and e["kind"] == req_kind and "inj" in e):
            continue
        j = i
        while j < N and log[j]["dir"] != "s2c":
            j += 1
        window = log[i:j]
        acks = [w for w in window if w["dir"] == "c2s" and w["kind"] == ack_kind]
        ups = [w for w in window if w["dir"] == "up"]
        n_ack_win += len(acks)
        n_up_win += len(ups)
        seq, ch, raw = e["sequence_counter"], e["communication_channel_id"], e["raw_cemi"]
        if expected is None:
            raise HarnessError("data request delivered before any handshake")
        if seq == expected:
            verdict = "expected"
            expected = (expected + 1) % 256
            facts["expected"] += 1
            run_len += 1
            facts["max_run"] = max(facts["max_run"], run_len)
            if expected == 0:
                facts["wrapped"] = True
        elif seq == (expected - 1) % 256:
            verdict = "repeated"
            facts["repeated"] += 1
        else:
            verdict = "out-of-order"
            facts["out_of_order"] += 1
        where = f"datagram #{e['inj']} counter {seq} at t={e['t']} (reference expected {expected if verdict != 'expected' else seq}, verdict {verdict})"
        # acknowledgements
        if verdict in ("expected", "repeated"):
            if not acks:
                ctx.fail(f"C23:{conn}:{verdict}:not-acked", case, where)
            elif len(acks) > 1:
                ctx.fail(f"C23:{conn}:{verdict}:acked-more-than-once", case, f"{where}: {len(acks)} acks")
            else:
                a = acks[0]
                if a["sequence_counter"] != seq:
                    ctx.fail(f"C23:{conn}:{verdict}:ack-counter", case, f"{where}: ack carries {a['sequence_counter']}")
                if a["communication_channel_id"] != ch:
                    ctx.fail(f"C23:{conn}:{verdict}:ack-channel", case, f"{where}: ack channel {a['communication_channel_id']} != {ch}")
                if a.get("status_code") != "E_NO_ERROR":
                    ctx.fail(f"C23:{conn}:{verdict}:ack-status", case, f"{where}: ack status {a.get('status_code')}")
        elif acks:
            ctx.fail(f"C23:{conn}:{verdict}:acked", case, f"{where}: acks {[(a['communication_channel_id'], a['sequence_counter']) for a in acks]}")
        # deliveries
        if verdict == "expected":
            if not ups:
                ctx.fail(f"C23:{conn}:expected:not-passed-up", case, where)
            elif len(ups) > 1:
                ctx.fail(f"C23:{conn}:expected:passed-up-more-than-once", case, f"{where}: {len(ups)} callbacks")
            elif ups[0]["raw"] != raw:
                ctx.fail(f"C23:{conn}:expected:passed-up-other-payload", case, f"{where}: callback got {ups[0]['raw'].hex()} instead of {raw.hex()}")
        elif ups:
            ctx.fail(f"C23:{conn}:{verdict}:passed-up", case, f"{where}: callback got {[u['raw'].hex() for u in ups]}")
        for u in ups:
            if u["raw"] in seen_payloads:
                ctx.fail(f"C23:{conn}:passed-up-twice", case, f"{where}: payload {u['raw'].hex()} was passed up before")
            seen_payloads.add(u["raw"])
    if n_ack_total != n_ack_win:
        ctx.fail(f"C23:{conn}:ack-without-request", case, f"{n_ack_total - n_ack_win} acknowledgement(s) not following a delivered request")
    if n_up_total != n_up_win:
        ctx.fail(f"C23:{conn}:callback-without-request", case, f"{n_up_total - n_up_win} cemi callback(s) not following a delivered request")
    if conn == "devmgmt" and len(info["ind"]) != n_up_total - info.get("raised", 0):
        # every payload is a well-formed M_PropInfo.ind: the public indication callback sees what DeviceManagement passed up
        ctx.fail("C23:devmgmt:indication-callback-count", case, f"{n_up_total} frames passed up, indication_callback called {len(info['ind'])} times")
    return facts


def check_case(ctx, case):
    try:
        log, info, escaped = execute(case)
    except (BudgetExceeded, Deadlock):
        ctx.notes["inconclusive"] = ctx.notes.get("inconclusive", 0) + 1
        return None
    except HarnessError:
        raise
    except Exception as e:  # noqa: BLE001
        ctx.fail(f"C23:{case['conn']}:scenario-exc:{exc_site(e)}", case, repr(e))
        return None
    facts = judge(ctx, case, log, info, escaped)
    facts["skipped"] = info["skipped"]
    facts["raised"] = info.get("raised", 0)
    return facts


def _nontrivial(facts) -> bool:
    return bool(facts) and (facts["repeated"] > 0 or facts["out_of_order"] > 0 or facts["handshakes"] > 1 or facts["wrapped"])


VARIANTS = [("tunnel", True), ("tunnel", False), ("devmgmt", False)]
SYMS = {
    "e": [0.001, "e", 0, NET_DELAY],
    "r": [0.001, "r", 0, NET_DELAY],
    "p": [0.001, "o", 1, NET_DELAY],
    "h": [0.001, "o", 128, NET_DELAY],
    "d": [0.001, "d", 0, NET_DELAY],
    "x": [0.001, "x", 0, NET_DELAY],
    "g": [2.1, "g", 0, NET_DELAY],
}


def _enum_shard(ctx, length: int, first: str, prefix: int) -> None:
    n = nt = 0
    for rest in itertools.product(SYMS, repeat=length - 1):
        word = first + "".join(rest)
        # route_back (NAT mode: the ConnectRequest carries 0.0.0.0:0 HPAIs) for the words that lead to a second connection:
        # auto-reconnecting tunnel for server disconnects / the out-of-order timer, the other kinds for server disconnects
        variants = [(c, a, False) for c, a in VARIANTS]
        if prefix == 0 and ("x" in word or "g" in word or length <= 2):
            variants.append(("tunnel", True, True))
        if prefix == 0 and "x" in word:
            variants += [("tunnel", False, True), ("devmgmt", False, True)]
        for conn, ar, rb in variants:
            case = {"conn": conn, "auto_reconnect": ar, "route_back": rb, "prefix": prefix, "ops": [SYMS[c] for c in word], "tail": 2.5}
            facts = check_case(ctx, case)
            n += 1
            if _nontrivial(facts):
                nt += 1
        if first == "x" and len(ctx.samples) < 1:
            ctx.sample({"enum": word, "prefix": prefix})
    ctx.bulk(n, nt, f"enum-L{length}-from-{prefix}")


BEHIND = [[0], [0, 0], [0, 1], [0, 1, 2], [0, 0, 1], [1], [255]]


def _behind_shard(ctx, bi: int, maxlen: int) -> None:
    """Datagrams handed over in the same loop iteration as the ConnectResponse (initial connect and every
    reconnect handshake), followed by every short symbol word. UDP tunnel only (see ASSUMPTIONS)."""
    n = nt = 0
    for length in range(1, maxlen + 1):
        for w in itertools.product(SYMS, repeat=length):
            for ar, rb in ((True, False), (False, False), (True, True)):
                case = {"conn": "tunnel", "auto_reconnect": ar, "route_back": rb, "prefix": 0, "behind": [BEHIND[bi]] * 4, "ops": [SYMS[c] for c in w], "tail": 2.5}
                facts = check_case(ctx, case)
                n += 1
                if facts is not None:
                    nt += 1  # a datagram behind the handshake is the interesting part by itself
    ctx.bulk(n, nt, "enum-behind-handshake")
    if bi == 0:
        ctx.sample({"behind_handshake": BEHIND[bi], "then": "every word up to length %d" % maxlen})


EXC_TYPES = ["ValueError", "CouldNotParseCEMI", "UnsupportedCEMIMessage", "KeyError", "RuntimeError", "ConversionError"]
RAISE_SETS = [[0], [1], [0, 1, 2], [2, 3]]


def _raise_shard(ctx, first: str, maxlen: int) -> None:
    """Every short word with a consumer (cemi_received_callback) that raises on some of the datagrams: the acks,
    what is passed up and the counter must be exactly as with a well-behaved consumer, also for the following datagrams."""
    n = nt = 0
    for length in range(1, maxlen + 1):
        for rest in itertools.product(SYMS, repeat=length - 1):
            word = first + "".join(rest)
            for conn, ar in VARIANTS:
                for k, rs in enumerate(RAISE_SETS):
                    case = {"conn": conn, "auto_reconnect": ar, "prefix": 0, "raises": [[i, EXC_TYPES[(i + k + n) % len(EXC_TYPES)]] for i in rs], "ops": [SYMS[c] for c in word], "tail": 2.5}
                    facts = check_case(ctx, case)
                    n += 1
                    if facts is not None and facts.get("raised"):
                        nt += 1
    ctx.bulk(n, nt, "enum-consumer-raises")
    if first == "e":
        ctx.sample({"consumer_raises_on": RAISE_SETS, "words_from": first, "up_to_length": maxlen})


_gap = st.sampled_from(GAPS)
_delay = st.sampled_from(DELAYS)
_op = st.one_of(
    st.tuples(_gap, st.just("e"), st.just(0), _delay),
    st.tuples(_gap, st.just("e"), st.just(0), _delay),
    st.tuples(_gap, st.just("r"), st.just(0), _delay),
    st.tuples(_gap, st.just("o"), st.sampled_from([1, 2, 3, 127, 128, 253, 254]) | st.integers(1, 254), _delay),
    st.tuples(_gap, st.just("a"), st.integers(0, 255), _delay),
    st.tuples(_gap, st.just("d"), st.just(0), _delay),
    st.tuples(_gap, st.just("b"), st.integers(2, 40), st.just(NET_DELAY)),
    st.tuples(st.sampled_from([0.0, 0.001, 0.5]), st.just("x"), st.just(0), st.just(NET_DELAY)),
)


@st.composite
def cases(draw):
    conn, ar = draw(st.sampled_from(VARIANTS))
    prefix = draw(st.sampled_from([0, 0, 0, 0, 0, 0, 3, 3, 250, 254, 255, 256, 300, 511]))
    ops = draw(st.lists(_op, min_size=1, max_size=24))
    behind = []
    if conn == "tunnel" and draw(st.booleans()):
        behind = draw(st.lists(st.lists(st.sampled_from([0, 0, 0, 1, 1, 2, 255]) | st.integers(0, 255), max_size=3), min_size=1, max_size=3))
    raises = draw(st.lists(st.tuples(st.integers(0, 30) | st.integers(prefix, prefix + 30), st.sampled_from(EXC_TYPES)), max_size=4)) if draw(st.booleans()) else []
    return {"conn": conn, "auto_reconnect": ar, "route_back": draw(st.booleans()), "prefix": prefix, "behind": behind, "raises": [list(r) for r in raises], "ops": [list(o) for o in ops], "tail": draw(st.sampled_from([0.5, 2.5]))}


def _hyp_oracle(ctx, case) -> None:
    facts = check_case(ctx, case)
    if facts is None:
        ctx.case(None, False, "inconclusive")
        return
    cls = [case["conn"] + ("+auto_reconnect" if case["auto_reconnect"] else "")]
    if case.get("route_back"):
        cls.append("route_back")
    if facts["wrapped"]:
        cls.append("wrap-around")
    if facts["handshakes"] > 1:
        cls.append("reconnected")
    if facts["out_of_order"]:
        cls.append("has-out-of-order")
    if facts["repeated"]:
        cls.append("has-repeated")
    if any(case.get("behind") or []):
        cls.append("frames-behind-handshake")
    if facts.get("raised"):
        cls.append("consumer-raised")
    ctx.case(
        repr(sorted(case.items())),
        nontrivial=_nontrivial(facts) or any(case.get("behind") or []),
        cls=cls,
        sample={"conn": case["conn"], "prefix": case["prefix"], "ops": "".join(o[1] for o in case["ops"]), "delivered": {k: facts[k] for k in ("expected", "repeated", "out_of_order", "handshakes")}} if len(case["ops"]) > 6 and len(ctx.samples) < 2 else None,
    )
    for k in ("expected", "repeated", "out_of_order"):
        ctx.notes["delivered_" + k] = ctx.notes.get("delivered_" + k, 0) + facts[k]


def _hyp_shard(ctx, n: int) -> None:
    hyp_search(ctx, cases(), _hyp_oracle, n)


def _wrap_shard(ctx, conn: str, ar: bool, variant: int) -> None:
    """Deterministic long runs: > 300 in-order frames with disturbances at the 255 -> 0 boundary."""
    around = [
        [],
        [SYMS["r"], SYMS["e"], SYMS["r"], SYMS["e"]],  # expected-1 == 254 / 255 around the wrap
        [SYMS["p"], SYMS["e"], SYMS["e"], SYMS["d"], SYMS["e"]],
        [[0.001, "a", 0, NET_DELAY], [0.001, "a", 255, NET_DELAY], [0.001, "a", 0, NET_DELAY], [0.001, "a", 1, NET_DELAY]],
    ][variant]
    case = {"conn": conn, "auto_reconnect": ar, "prefix": 255, "ops": [*around, [0.001, "b", 60, NET_DELAY], SYMS["r"], [0.001, "b", 300, NET_DELAY], SYMS["r"], SYMS["e"]], "tail": 2.5}
    facts = check_case(ctx, case)
    if facts is not None and facts["expected"] < 600:
        raise HarnessError(f"wrap-around case delivered only {facts['expected']} expected frames: {facts}")
    ctx.case(("wrap", conn, ar, variant), True, "wraparound-600+", sample={"wraparound": conn, "variant": variant, "delivered": facts} if variant == 1 and ar else None)


def selftest(ctx) -> None:
    # the judge must notice a handler that acks / passes everything and one that does nothing
    log = [
        {"dir": "s2c", "kind": "ConnectResponse", "handshake": True, "status_code": "E_NO_ERROR", "t": 0, "tick": 1},
        {"dir": "s2c", "kind": "TunnellingRequest", "inj": 0, "sequence_counter": 5, "communication_channel_id": 8, "raw_cemi": b"a", "t": 0, "tick": 2},
        {"dir": "c2s", "kind": "TunnellingAck", "sequence_counter": 5, "communication_channel_id": 8, "status_code": "E_NO_ERROR"},
        {"dir": "up", "kind": "cemi", "raw": b"a"},
        {"dir": "s2c", "kind": "TunnellingRequest", "inj": 1, "sequence_counter": 0, "communication_channel_id": 8, "raw_cemi": b"b", "t": 0, "tick": 3},
    ]
    from vk.core import Ctx

    c = Ctx("C23", "quick", 1)
    judge(c, {"conn": "tunnel"}, log, {"ind": []}, [])
    assert set(c.failures) == {"C23:tunnel:out-of-order:acked", "C23:tunnel:out-of-order:passed-up", "C23:tunnel:expected:not-acked", "C23:tunnel:expected:not-passed-up"}, set(c.failures)


def _job(ctx, what: str, *args) -> None:
    """One fork pool for everything (forking is the expensive part on a busy box)."""
    {"enum": _enum_shard, "wrap": _wrap_shard, "hyp": _hyp_shard, "behind": _behind_shard, "raise": _raise_shard}[what](ctx, *args)


def run(ctx) -> None:
    L0 = ctx.n(4, 6)
    L254 = ctx.n(2, 4)
    jobs: list[tuple] = [("wrap", c, ar, v) for c, ar in VARIANTS for v in range(4)]
    jobs += [("hyp", ctx.n(100, 2500))] * 16
    jobs += [("behind", bi, ctx.n(2, 3)) for bi in range(len(BEHIND))]
    jobs += [("raise", first, ctx.n(3, 4)) for first in SYMS]
    for length in range(L0, 0, -1):
        for first in SYMS:
            jobs.append(("enum", length, first, 0))
    for length in range(L254, 0, -1):
        for first in SYMS:
            jobs.append(("enum", length, first, 254))
    parallel(ctx, _job, jobs)
    ctx.exhaustive = False
    ctx.notes["enumerated_symbol_sequences_up_to"] = {"from_expected_0": L0, "from_expected_254": L254}


def replay(ctx, case) -> None:
    check_case(ctx, case)
