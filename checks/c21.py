"""C21 - KNX/IP bodies round-trip exactly.

For generated instances of all 29 body classes (specs from vk/strategies/knxip.py):
`KNXIPFrame.init_from_body(b).to_knx()` has length == header.total_length ==
announced length on the wire == 6 + b.calculated_length(); `KNXIPFrame.from_knx` of it
returns an equal body (deep field comparison + byte-identical re-serialisation) and an
empty rest.
"""

from __future__ import annotations

import enum

from hypothesis import strategies as st

from vk.core import exc_site
from vk.engine import hyp_collect, hyp_search, parallel
from vk.strategies import knxip as S

PROPERTY = "C21"
LEVEL = "exploration"
TECHNIQUE = "property-based testing (Hypothesis) of encode -> decode -> encode round trips, sharded over the 29 body classes"
RULE = (
    "Hypothesis-generated specs of all 29 KNX/IP body classes (HPAI udp/tcp/route-back, basic/extended/non-tunnel "
    "CRI, CRD, DIB lists: device info with 0..30 char latin-1 names, (secured) service families 0..126, tunnelling "
    "info 0..62 slots, generic DIBs with even and odd data up to 252 octets; SRP lists; status / return / feature "
    "codes from tables written from the specification; raw cEMI 0..250; secure wrapper / session / timer fields); "
    "non-trivial = body class with a variable-length part (DIB/SRP list, CRI/CRD variant, cEMI, feature value, "
    "encrypted payload), distinct by spec hash"
)
ASSUMPTIONS = [
    "equality is a deep comparison of instance fields (type-exact, recursive through HPAI/CRI/CRD/DIB/SRP objects); "
    "the library `==` is not used for the verdict because DIB classes define no __eq__ (count of bodies that are "
    "field-equal but `!=` is reported in coverage.library_eq_false_on_equal_fields)",
    "odd-length data of a generic DIB / tunnelling feature value is compared modulo the single 00h pad octet the "
    "specification requires on the wire (the pad is not distinguishable from data after parsing)",
    "fields that are not on the wire for a variant (knx_layer / individual_address of a non-tunnel CRI or CRD) are "
    "left at their defaults by the generator",
]
LEVEL_TEXT = (
    "Sampled exploration: each run round-trips several thousand generated bodies per class through the real encoder "
    "and parser; a defect that needs a field combination outside the sampled ones can be missed."
)
LEVEL_NOTE = (
    "Trusted: the service-type table and value domains written from the KNXnet/IP specification in "
    "vk/strategies/knxip.py; the wire layout itself is not compared against an independent encoder "
    "(the property states length and round-trip, not layout)."
)

_ATOM = (int, str, bytes, bool, type(None), float)


def deep_diff(a, b, path: str = "") -> str | None:
    """Path of the first difference between two object graphs, None if equal."""
    if type(a) is not type(b):
        return f"{path}<type {type(a).__name__}!={type(b).__name__}>"
    if isinstance(a, enum.Enum) or isinstance(a, _ATOM):
        return None if a == b else path or "<value>"
    if isinstance(a, tuple) and hasattr(a, "_fields"):
        for f in a._fields:
            d = deep_diff(getattr(a, f), getattr(b, f), f"{path}.{f}")
            if d:
                return d
        return None
    if isinstance(a, (list, tuple)):
        if len(a) != len(b):
            return f"{path}<len>"
        for x, y in zip(a, b):
            d = deep_diff(x, y, f"{path}[]")
            if d:
                return d
        return None
    if isinstance(a, dict):
        ka, kb = list(a), list(b)
        d = deep_diff(ka, kb, f"{path}<keys>")
        if d:
            return d
        for k in ka:
            d = deep_diff(a[k], b[k], f"{path}{{}}")
            if d:
                return d
        return None
    if hasattr(a, "__dict__"):
        da, db = vars(a), vars(b)
        if set(da) != set(db):
            return f"{path}<fields>"
        for k in sorted(da):
            d = deep_diff(da[k], db[k], f"{path}.{k}")
            if d:
                return d
        return None
    slots = [s for c in type(a).__mro__ for s in getattr(c, "__slots__", ())]
    if slots:
        for k in slots:
            d = deep_diff(getattr(a, k, None), getattr(b, k, None), f"{path}.{k}")
            if d:
                return d
        return None
    return None if a == b else path or "<value>"


def selftest(ctx) -> None:
    from xknx.knxip import HPAI, SearchResponse
    from xknx.telegram import IndividualAddress

    assert deep_diff(HPAI("1.2.3.4", 5), HPAI("1.2.3.4", 5)) is None
    assert deep_diff(HPAI("1.2.3.4", 5), HPAI("1.2.3.4", 6)) == ".port"
    assert deep_diff(IndividualAddress(1), IndividualAddress(2)) == ".raw"
    assert deep_diff(True, 1) is not None
    s = {"cls": "SearchResponse", "hpai": {"ip": "1.2.3.4", "port": 1, "proto": 1}, "dibs": [{"dib": "generic", "dtc": 3, "data": b"\x01"}]}
    a, b = S.build(s), S.build(s, wire=True)
    assert isinstance(a, SearchResponse) and deep_diff(a, b) == ".dibs[].data"
    assert deep_diff(S.build(s), S.build(s)) is None
    assert set(S.SERVICE) == set(S.BODY_CLASSES) and len(S.BODY_CLASSES) == 29


def _variant(s: dict) -> str:
    cls = s["cls"]
    if cls == "ConnectResponse" and s["status"] != 0:
        return cls + ":error-status"
    return cls


def oracle(ctx, s: dict) -> None:
    from xknx.knxip import KNXIPFrame

    cls = s["cls"]
    var = _variant(s)
    ctx.case(repr(s), nontrivial=S.has_variable_part(s), cls=var)
    # -- serialise ---------------------------------------------------------
    try:
        body = S.build(s)
        frame = KNXIPFrame.init_from_body(body)
        raw = frame.to_knx()
        calc = body.calculated_length()
    except Exception as e:  # noqa: BLE001
        ctx.fail(f"C21:to_knx-exc:{var}:{exc_site(e)}", s, repr(e))
        return
    if ctx.evaluations % 997 == 1:
        ctx.sample({"cls": cls, "frame": raw[:48].hex() + ("..." if len(raw) > 48 else ""), "len": len(raw)})
    announced = raw[4] * 256 + raw[5] if len(raw) >= 6 else -1
    if not (len(raw) == frame.header.total_length == announced == 6 + calc):
        ctx.fail(f"C21:length:{var}", s, f"len(to_knx())={len(raw)} header.total_length={frame.header.total_length} announced={announced} 6+calculated_length()={6 + calc}")
        return
    if raw[0] != 6 or raw[1] != 0x10 or raw[2] * 256 + raw[3] != S.SERVICE[cls]:
        ctx.fail(f"C21:header:{var}", s, f"header octets {raw[:6].hex()}")
        return
    # -- parse -------------------------------------------------------------
    try:
        parsed, rest = KNXIPFrame.from_knx(raw)
    except Exception as e:  # noqa: BLE001
        ctx.fail(f"C21:from_knx-exc:{var}:{exc_site(e)}", s, f"{raw.hex()} -> {e!r}")
        return
    if rest != b"":
        ctx.fail(f"C21:rest:{var}", s, f"rest={rest.hex()}")
    if parsed.header.total_length != len(raw) or parsed.header.service_type_ident.value != S.SERVICE[cls]:
        ctx.fail(f"C21:parsed-header:{var}", s, repr(parsed.header))
    expected = S.build(s, wire=True)
    d = deep_diff(parsed.body, expected, "")
    if d is not None:
        d = d if var == cls else "*"
        ctx.fail(f"C21:roundtrip-neq:{var}:{d}", s, f"{raw.hex()} parsed {parsed.body!r}, expected {expected!r}")
        if var != cls:
            return
    elif parsed.body != expected:
        ctx.notes["library_eq_false_on_equal_fields"] = ctx.notes.get("library_eq_false_on_equal_fields", 0) + 1
    try:
        again = parsed.to_knx()
    except Exception as e:  # noqa: BLE001
        ctx.fail(f"C21:reserialise-exc:{var}:{exc_site(e)}", s, repr(e))
        return
    if again != raw:
        ctx.fail(f"C21:reserialise-neq:{var}", s, f"{raw.hex()} -> {again.hex()}")


def _shard(ctx, classes: tuple, n: int) -> None:
    for i, cls in enumerate(classes):
        hyp_search(ctx, S.body_strategy(cls), oracle, n, seed_salt=i, shrink_cap_s=10.0 if ctx.quick else 40.0)


def run(ctx) -> None:
    n = ctx.n(300, 4000)
    classes = S.BODY_CLASSES
    k = ctx.n(8, 16)
    shards = [(tuple(classes[i::k]), n) for i in range(k)]
    parallel(ctx, _shard, shards)
    # mixed-class pass in the parent (keeps collect-only; buckets already shrunk in shards)
    hyp_collect(ctx, S.body_specs(), oracle, ctx.n(500, 5000), seed_salt=99)
    ctx.notes["body_classes"] = len(classes)
    missing = [c for c in classes if not any(key.split(":")[0] == c for key in ctx.classes)]
    if missing:
        raise AssertionError(f"classes never generated: {missing}")


def replay(ctx, case) -> None:
    if isinstance(case, dict) and "cls" in case:
        oracle(ctx, case)
