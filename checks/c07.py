"""C07 - datapoint decoding is total: a value, CouldNotParseTelegram or ConversionError.

Every concrete DPT class (walked from DPTBase.dpt_class_tree()) x all 64 DPTBinary
values x every DPTArray of length 0, 1 and 2 (exhaustive), wrong-length arrays
(0..20, 254, 255 octets) and, for types of 3..14 octets, every octet value in every
position over zero / 0xFF / random backgrounds plus seeded random arrays.  A sample
of every class also goes through the consumer path
GroupAddressDPT.set_decoded_data(telegram), which runs outside the telegram
consumer's try block and therefore must never raise.
"""

from __future__ import annotations

import random

from vk.core import exc_site
from vk.engine import parallel
from vk.strategies import dpts as D
from xknx.core.group_address_dpt import GroupAddressDPT
from xknx.exceptions import ConversionError, CouldNotParseTelegram
from xknx.telegram import Telegram
from xknx.telegram.address import GroupAddress
from xknx.telegram.apci import GroupValueResponse, GroupValueWrite

PROPERTY = "C07"
LEVEL = "exploration"
TECHNIQUE = "exhaustive enumeration (<=2-octet payloads, all 6-bit values) + positional sweeps and seeded random payloads over the whole DPT class tree"
RULE = (
    "every concrete DPT class x {64 DPTBinary values, all DPTArrays of length 0/1/2, wrong-length arrays 0..20/254/255, "
    "for 3..14-octet types every octet value in every position over 7 backgrounds + random arrays}; "
    "non-trivial = payload of the type's own kind and length (reaches the type's decoder); distinct by construction; "
    "plus a per-class sample through GroupAddressDPT.set_decoded_data"
    "; thorough tier only: atheris/libFuzzer campaigns (vk/fuzz.py, fuzz/c07_target.py; 8 processes, half from an empty corpus, half from "
    "a seed corpus of valid inputs, -runs budget, -seed derived from VERIF_SEED) with this same oracle inside the target: input = class index + payload kind + payload octets (FuzzedDataProvider), decode() and consumer() on every execution; each "
    "execution counts as one evaluation, it is non-trivial by the same rule (payload of the type's own kind and length, measured in the target), distinct by input hash"
)
FUZZ_RUNS = 2_000_000  # executions per campaign (thorough tier)
ASSUMPTIONS = [
    "payload octets are 0..255 and DPTBinary values 0..63 (what a parsed group telegram can carry)",
    "allowed failures: xknx.exceptions.CouldNotParseTelegram and ConversionError only",
]
LEVEL_TEXT = (
    "exhaustive for every DPT class over all 6-bit values and all byte arrays up to 2 octets; "
    "sampled (positional sweeps + random) for longer payloads"
)
LEVEL_NOTE = "trusts DPTBase.dpt_class_tree() to enumerate the registered types; payloads longer than 2 octets are not exhaustively covered"

ALLOWED = (CouldNotParseTelegram, ConversionError)
_GA = GroupAddress("1/2/3")


def decode(ctx, T, spec) -> tuple[bool, object]:
    """Run T.from_knx; record any undeclared exception. Returns (accepted, value)."""
    try:
        return True, T.from_knx(D.mk(spec))
    except ALLOWED:
        return False, None
    except Exception as e:  # noqa: BLE001
        ctx.fail(f"C07:exc:{D.decoder_owner(T).__name__}:{exc_site(e)}", D.case_of(T, spec), f"{T.__name__}.from_knx({D.mk(spec)!r}) raised {type(e).__name__}: {e}")
        return False, e


def _gadpt_for(T) -> GroupAddressDPT:
    gad = GroupAddressDPT()
    # public configuration path where the class is addressable by value_type, else direct
    if T.value_type and T.has_distinct_value_type():
        gad.set({"1/2/3": T.value_type})
    if gad.get(_GA) is not T:
        gad._ga_dpts[_GA.raw] = T  # noqa: SLF001
    return gad


def consumer(ctx, T, spec, gad=None, response=False) -> None:
    """GroupAddressDPT.set_decoded_data must not raise and must agree with from_knx."""
    gad = gad or _gadpt_for(T)
    payload = D.mk(spec)
    tg = Telegram(destination_address=_GA, payload=(GroupValueResponse if response else GroupValueWrite)(payload))
    inp = D.case_of(T, spec, path="consumer")
    try:
        gad.set_decoded_data(tg)
    except Exception as e:  # noqa: BLE001
        ctx.fail(f"C07:consumer-exc:{D.decoder_owner(T).__name__}:{exc_site(e)}", inp, f"set_decoded_data raised {type(e).__name__}: {e}")
        return
    try:
        v = T.from_knx(payload)
        ok = True
    except Exception:  # noqa: BLE001 - already classified by decode()
        ok = False
        v = None
    if ok:
        if tg.decoded_data is None or tg.decoded_data.transcoder is not T or not D.same_value(tg.decoded_data.value, v):
            ctx.fail(f"C07:consumer-mismatch:{D.codec_label(T)}", inp, f"decoded_data={tg.decoded_data!r} but from_knx -> {v!r}")
    elif tg.decoded_data is not None:
        ctx.fail(f"C07:consumer-mismatch:{D.codec_label(T)}", inp, f"decoded_data={tg.decoded_data!r} but from_knx rejects the payload")


def specs_for(ctx, T, rng: random.Random):
    """(spec, label) for one class."""
    for s in D.binary_specs():
        yield s, "binary64"
    for n in (0, 1, 2):
        for s in D.array_specs_exhaustive(n):
            yield s, f"array-len{n}"
    own = None if D.is_binary(T) else T.payload_length
    for s in D.wrong_length_specs(own, rng):
        if len(s[1]) > 2:
            yield s, "array-otherlen"
    if own is not None and own >= 3:
        for s in D.positional_sweep(own, rng):
            yield s, "own-positional"
        for s in D.random_array_specs(own, rng, ctx.n(3000, 60000)):
            yield s, "own-random"


def class_worker(ctx, name: str) -> None:
    T = D.dpt_by_name(name)
    rng = random.Random(ctx.shard_seed() ^ 0xC07)
    counts: dict[str, int] = {}
    n = nt = acc = 0
    gad = _gadpt_for(T)
    stride = 0
    for spec, label in specs_for(ctx, T, rng):
        ok, _ = decode(ctx, T, spec)
        n += 1
        acc += ok
        counts[label] = counts.get(label, 0) + 1
        own = D.is_own_shape(T, spec)
        if own:
            nt += 1
        # consumer path: all binary / short arrays once, a stride of the rest
        stride += 1
        if label in ("binary64", "array-len0", "array-len1") or stride % 37 == 0:
            consumer(ctx, T, spec, gad, response=bool(stride & 1))
            counts["consumer-path"] = counts.get("consumer-path", 0) + 1
    for label, c in counts.items():
        if label == "consumer-path":
            ctx.bulk(c, 0, "consumer-path")
        else:
            ctx.classes[label] += c
    ctx.bulk(n, nt, f"kind:{D.kind(T)}")
    ctx.notes["accepted_payloads"] = ctx.notes.get("accepted_payloads", 0) + acc
    if name in ("DPTTemperature", "DPTDateTime", "DPTSwitch", "DPTString"):
        ctx.sample({"dpt": name, "shape": D.shape(T), "cases": n, "own_shape": nt, "accepted": acc})


def run(ctx) -> None:
    classes = D.all_dpt_classes()
    ctx.notes["dpt_classes"] = len(classes)
    parallel(ctx, class_worker, [(T.__name__,) for T in classes])
    ctx.exhaustive = True  # the <=2-octet / 6-bit core is enumerated completely for every class
    if not ctx.quick:  # thorough tier only: coverage-guided campaigns, oracle inside the target
        from vk.fuzz import run_fuzz

        run_fuzz(ctx, PROPERTY, runs=FUZZ_RUNS, jobs=8)


def replay(ctx, case) -> None:
    T = D.dpt_by_name(case["dpt"])
    spec = D.spec_of_case(case)
    decode(ctx, T, spec)
    consumer(ctx, T, spec)
    ctx.case(("replay", case["dpt"], spec), nontrivial=D.is_own_shape(T, spec), cls="replay")
