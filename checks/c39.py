"""C39 - device commands loop back to the state they requested.

Per device class an adapter builds the device from a generated configuration (invert
flags, ranges, setpoint-shift mode and step, DPT choice, which group addresses exist),
calls a setter with a generated value from the setter's accepted range, takes the
telegrams the device queued in `xknx.telegrams`, processes them as OUTGOING telegrams
through the device registry (`xknx.devices.process`, as the telegram queue does) and reads
the device's state. The state must equal the requested value or lie within half a step of
the configured datapoint type (reference quantisers in exact rationals).
"""

from __future__ import annotations

import asyncio
from fractions import Fraction
import types

from hypothesis import strategies as st

from vk.core import exc_site
from vk.engine import hyp_search, parallel
from vk.vloop import BudgetExceeded, Deadlock, run_case

PROPERTY = "C39"
LEVEL = "exploration"
TECHNIQUE = "property-based testing (Hypothesis) of set -> queued telegrams -> process as outgoing -> state, against reference quantisers in exact rationals"
RULE = (
    "adapters: Switch(invert), Light(on/off via switch / colour switches / colour brightness, brightness, tunable white, RGB, RGBW, individual colours, HS, xyY, "
    "colour temperature 7.600 / 9.x), Cover(position, angle, open / close through the up/down address or - without one - through the position address, optionally stopped part-way, with invert flags, travel completed on a patched clock), Fan(percent, steps, switch, oscillation), "
    "Climate(target temperature direct, setpoint shift 6.010 / 9.002 with steps, target temperature through a setpoint shift, on/off invert, fan speed), "
    "ClimateMode(operation / controller modes via DPT 20.x and binary objects), NumericValue(curated DPTs), Scene, RawValue, Notification; 1..3 successive calls per case; "
    "cover_sequence: 2..3 Cover.set_position calls (covers without position address but stop / step address = timer based auto-stop, and with position address; travel times 2..60 s) "
    "with k/8 of the running travel's time passing in between on the virtual-time loop (calculator clock = loop clock), state read after the last travel time; "
    "for half of the cases xknx.group_address_dpt holds the natural DPT of every group address of the device (5.001 scaling, 1.001 switch, 9.001 temperature, 5.010 counter, ...) "
    "and every looped-back telegram passes the queue's eager decode step (set_decoded_data) before the devices process it; "
    "non-trivial = a call whose value is not the type's zero/False/first enum member and that produced at least one telegram; distinct by (adapter, configuration, calls)"
)
LEVEL_TEXT = (
    "Every generated (configuration, value sequence) is executed on the real device: after each call the queued telegrams are fed back as outgoing telegrams and the "
    "reported state is compared with the request: exact for booleans, enums, integers the type represents exactly; otherwise within half a step of the datapoint type "
    "(DPT 9: half of 0.01*2^e for the smallest exponent that holds the value; scaled 1-byte types: half a raw step plus the 0.5 of their integer API; "
    "setpoint shift 6.010: half the configured step)."
)
LEVEL_NOTE = "Only the device's own loop (no bus, no actuator answer); clocks of the travel calculator are patched so a started travel can complete; quantisers written from the KNX datapoint definitions."
ASSUMPTIONS = [
    "values are drawn from the accepted range of each setter (ints for integer datapoints, floats for float datapoints, within setpoint_shift_min/max and min/max temperature)",
    "for a Cover the reported position is read after the patched clock moved past the travel time",
    "for a Climate whose target temperature address is not writable only the setpoint shift is expected to follow the request",
    "cover sequences: after the last command's travel time the cover reports the LAST requested position and is at rest; a cover positioned by timer (no position address) may be one position step off",
    "DPT 9 tolerance: half a step at the smallest exponent whose 11-bit mantissa (<= 2047) holds |value| * 100",
    "DPT 14 tolerance: float32 rounding plus half a unit of the 7th significant digit (xknx reports 4-byte floats rounded to 7 significant digits, like the ETS group monitor)",
]

EPS = Fraction(1, 10**9)


# ---------------------------------------------------------------------------
# reference quantisers / tolerances (exact rationals)


def dpt9_tol(v) -> Fraction:
    x = abs(Fraction(v)) * 100
    e = 0
    while x / 2**e > 2047 and e < 15:
        e += 1
    return Fraction(2**e, 200)


def f32_tol(v) -> Fraction:
    """DPT 14: float32 rounding plus the 7 significant digits xknx reports (as the ETS group monitor)."""
    x = abs(Fraction(v))
    if x == 0:
        return Fraction(1, 10**30)
    d = 0  # smallest d with 10^d >= |v|  (= ceil(log10|v|))
    while Fraction(10) ** d < x:
        d += 1
    while Fraction(10) ** (d - 1) >= x:
        d -= 1
    return x / 2**24 + Fraction(10) ** (d - 7) / 2


def scaled_int_tol(span: int) -> Fraction:
    """1-byte scaled types (0..span over 255 raw steps) with an integer API."""
    return Fraction(span, 255) / 2 + Fraction(1, 2)


def close(state, want, tol: Fraction) -> bool:
    if state is None or isinstance(state, bool):
        return False
    try:
        return abs(Fraction(state) - Fraction(want)) <= tol + EPS
    except (TypeError, ValueError):
        return False


# ---------------------------------------------------------------------------
# strategies: a case is {"dev": adapter, "cfg": {...}, "calls": [[setter, value], ...]}

_u8 = st.one_of(st.integers(0, 255), st.sampled_from([0, 1, 127, 128, 254, 255]))
_pct = st.one_of(st.integers(0, 100), st.sampled_from([0, 1, 50, 99, 100]))
_temp = st.one_of(
    st.integers(-3000, 6000).map(lambda k: k / 100),
    st.integers(-60, 120).map(lambda k: k / 2),
    st.floats(-30, 60, allow_nan=False),
    st.sampled_from([20.47, 20.474, 20.476, 20.48, 0.0, -0.01, 0.005, 21.3, -20.48, 40.96]),
)
_steps = st.sampled_from([0.1, 0.1, 0.5, 1.0, 0.2, 0.25, 0.05])


def _calls(setter_values, n_max=3):
    return st.lists(setter_values.map(list), min_size=1, max_size=n_max)


def _case(dev, cfg, calls):
    return st.fixed_dictionaries({"dev": st.just(dev), "cfg": cfg, "calls": calls})


def _with_table(case_strategy):
    """Configuration dimension: is eager decoding configured for the device's group addresses?"""
    return st.tuples(case_strategy, st.booleans()).map(lambda ct: {**ct[0], "ga_dpt": ct[1]})


def _onoff(names=("on", "off")):
    return st.tuples(st.sampled_from(names), st.none())


@st.composite
def _shift_case(draw):
    mode = draw(st.sampled_from(["6010", "6010", "9002"]))
    step = draw(_steps)
    lim = draw(st.sampled_from([6.0, 6.0, 3.0, 10.0]))
    if mode == "6010":
        lim = min(lim, 127 * step)
    kmax = int(lim / step)
    val = st.one_of(
        st.integers(-kmax, kmax).map(lambda k: k * step),  # what a UI computes: k * step in floats
        st.integers(-kmax, kmax).map(lambda k: round(k * step, 2)),
        st.integers(-kmax, kmax).map(lambda k: k / (1 / step) if step in (0.5, 0.25, 0.2, 0.1, 1.0) else k * step),
        st.floats(-lim, lim, allow_nan=False).map(lambda x: round(x, 3)),
    )
    calls = draw(st.lists(st.tuples(st.just("shift"), val).map(list), min_size=1, max_size=3))
    return {"dev": "climate_shift", "cfg": {"mode": mode, "step": step, "min": -lim, "max": lim}, "calls": calls}


@st.composite
def _target_via_shift_case(draw):
    mode = draw(st.sampled_from(["6010", "6010", "9002"]))
    step = draw(_steps)
    lim = 6.0 if mode == "9002" else min(6.0, 127 * step)
    t0 = draw(st.integers(150, 250)) / 10
    k0 = draw(st.integers(-int(lim / step), int(lim / step)))
    kmax = int(lim / step)
    ks = draw(st.lists(st.integers(-kmax, kmax), min_size=1, max_size=3))
    writable = draw(st.booleans())
    return {"dev": "climate_target_via_shift", "cfg": {"mode": mode, "step": step, "min": -lim, "max": lim, "t0": t0, "k0": k0, "target_writable": writable}, "calls": [["target_k", k] for k in ks]}


NUMERIC_TYPES = {
    # value_type: (kind, lo, hi, resolution)  kind int -> exact ints; "res" -> multiples of the resolution, exact; "dpt9"; "f32"
    "percent": ("scaled", 0, 100, 100),
    "angle": ("scaled", 0, 360, 360),
    "percentU8": ("int", 0, 255, 1),
    "pulse": ("int", 0, 255, 1),
    "1byte_signed": ("int", -128, 127, 1),
    "percentV8": ("int", -128, 127, 1),
    "pulse_2byte": ("int", 0, 65535, 1),
    "2byte_signed": ("int", -32768, 32767, 1),
    "percentV16": ("res", -32768, 32767, Fraction(1, 100)),
    "4byte_signed": ("int", -(2**31), 2**31 - 1, 1),
    "4byte_unsigned": ("int", 0, 2**32 - 1, 1),
    "temperature": ("dpt9", -273, 2000, None),
    "2byte_float": ("dpt9", -2000, 2000, None),
    "illuminance": ("dpt9", 0, 60000, None),
    "4byte_float": ("f32", -1e6, 1e6, None),
}


@st.composite
def _numeric_case(draw):
    vt = draw(st.sampled_from(sorted(NUMERIC_TYPES)))
    kind, lo, hi, res = NUMERIC_TYPES[vt]
    if kind in ("int", "scaled"):
        val = st.one_of(st.integers(lo, hi), st.sampled_from([lo, hi, lo + 1, hi - 1]))
    elif kind == "res":
        val = st.integers(lo, hi).map(lambda k: k / 100)  # a multiple of the resolution, as a float
    elif kind == "dpt9":
        val = st.one_of(st.integers(int(lo * 100), int(hi * 100)).map(lambda k: k / 100), st.floats(lo, hi, allow_nan=False))
    else:
        val = st.floats(lo, hi, allow_nan=False, width=32)
    calls = draw(st.lists(st.tuples(st.just("set"), val).map(list), min_size=1, max_size=2))
    return {"dev": "numeric", "cfg": {"value_type": vt}, "calls": calls}


OP_MODES = ["AUTO", "COMFORT", "STANDBY", "ECONOMY", "BUILDING_PROTECTION"]
CTRL_MODES = ["AUTO", "HEAT", "MORNING_WARMUP", "COOL", "NIGHT_PURGE", "PRECOOL", "OFF", "TEST", "EMERGENCY_HEAT", "FAN_ONLY", "FREE_COOL", "ICE", "DEHUMIDIFICATION", "NODEM"]

_rgb = st.tuples(_u8, _u8, _u8).map(list)

_seq_pos = st.one_of(st.integers(0, 100), st.sampled_from([0, 100, 0, 100, 40, 60]))


@st.composite
def _cover_sequence_case(draw):
    """Cover commands with time passing in between (timers of the Cover run on the virtual-time loop)."""
    has_position = draw(st.sampled_from([False, False, True]))
    stop = draw(st.booleans())
    cfg = {
        "position": has_position,
        "stop": stop,
        "step": (not stop) or draw(st.booleans()),
        "invert_position": draw(st.booleans()),
        "invert_updown": draw(st.booleans()),
        "tt_down": draw(st.sampled_from([2.0, 5.0, 10.0, 25.5, 60.0])),
        "tt_up": draw(st.sampled_from([2.0, 5.0, 10.0, 25.5, 60.0])),
        "p0": draw(_seq_pos),
    }
    n = draw(st.integers(2, 3))
    # wait after a command: k/8 of the time its travel needs (k > 8: the travel / auto-stop is over before the next command)
    calls = [["position_then_wait", [draw(_seq_pos), draw(st.integers(0, 12))]] for _ in range(n)]
    return {"dev": "cover_sequence", "cfg": cfg, "calls": calls}


CASES = st.one_of(
    _cover_sequence_case(),
    _cover_sequence_case(),
    _cover_sequence_case(),
    _case("switch", st.fixed_dictionaries({"invert": st.booleans()}), _calls(_onoff())),
    _case("light_switch", st.fixed_dictionaries({"mode": st.sampled_from(["switch", "color_switches", "color_brightness"])}), _calls(_onoff())),
    _case("light_brightness", st.just({}), _calls(st.tuples(st.just("brightness"), _u8))),
    _case("light_tunable_white", st.just({}), _calls(st.tuples(st.just("tunable_white"), _u8))),
    _case("light_color", st.fixed_dictionaries({"mode": st.sampled_from(["rgb", "individual"])}), _calls(st.tuples(st.just("color"), _rgb))),
    _case("light_rgbw", st.fixed_dictionaries({"mode": st.sampled_from(["rgbw", "individual"])}), _calls(st.tuples(st.just("rgbw"), st.tuples(_u8, _u8, _u8, _u8).map(list)))),
    _case(
        "light_hs",
        st.just({}),
        _calls(st.tuples(st.just("hs"), st.tuples(st.one_of(st.integers(0, 360), st.floats(0, 360, allow_nan=False)), st.one_of(_pct, st.floats(0, 100, allow_nan=False))).map(list))),
    ),
    _case(
        "light_xyy",
        st.just({}),
        _calls(st.tuples(st.just("xyy"), st.tuples(st.one_of(st.none(), st.tuples(st.floats(0, 1, allow_nan=False), st.floats(0, 1, allow_nan=False)).map(list)), st.one_of(st.none(), _u8)).map(list))),
    ),
    _case("light_color_temp", st.fixed_dictionaries({"type": st.sampled_from(["uint", "float"])}), _calls(st.tuples(st.just("kelvin"), st.one_of(st.integers(1000, 10000), st.integers(0, 65535))))),
    _case("cover_position", st.fixed_dictionaries({"invert_position": st.booleans(), "invert_updown": st.booleans()}), _calls(st.tuples(st.just("position"), _pct))),
    _case("cover_angle", st.fixed_dictionaries({"invert_angle": st.booleans()}), _calls(st.tuples(st.just("angle"), _pct))),
    _case(
        "cover_updown",
        st.fixed_dictionaries({"invert_updown": st.booleans(), "invert_position": st.booleans(), "long": st.sampled_from([True, False, False]), "stop": st.booleans()}),
        _calls(st.one_of(_onoff(("up", "down")), _onoff(("up", "down")), st.tuples(st.just("up_stop"), st.integers(1, 7)), st.tuples(st.just("down_stop"), st.integers(1, 7)))),
    ),
    _case("fan_percent", st.just({}), _calls(st.one_of(st.tuples(st.just("speed"), _pct), _onoff(("turn_on", "turn_off"))))),
    _case("fan_step", st.fixed_dictionaries({"max_step": st.integers(1, 10)}), _calls(st.one_of(st.tuples(st.just("speed_step"), st.integers(0, 10)), _onoff(("turn_on", "turn_off"))))),
    _case("fan_switch", st.just({}), _calls(st.one_of(_onoff(("turn_on", "turn_off")), st.tuples(st.just("oscillation"), st.booleans()), st.tuples(st.just("speed"), _pct)))),
    _case("climate_direct", st.just({}), _calls(st.tuples(st.just("target"), _temp))),
    _shift_case(),
    _shift_case(),
    _target_via_shift_case(),
    _target_via_shift_case(),
    _case("climate_onoff", st.fixed_dictionaries({"on_off_invert": st.booleans()}), _calls(_onoff(("turn_on", "turn_off")))),
    _case("climate_fan_speed", st.fixed_dictionaries({"step_mode": st.booleans()}), _calls(st.tuples(st.just("fan_speed"), _pct))),
    _case("climate_mode_op", st.fixed_dictionaries({"kind": st.sampled_from(["dpt", "binary"])}), _calls(st.tuples(st.just("op_mode"), st.sampled_from(OP_MODES)))),
    _case("climate_mode_ctrl", st.fixed_dictionaries({"kind": st.sampled_from(["dpt", "heat_cool"])}), _calls(st.tuples(st.just("ctrl_mode"), st.sampled_from(CTRL_MODES)))),
    _numeric_case(),
    _numeric_case(),
    _case("scene", st.fixed_dictionaries({"number": st.integers(1, 64)}), _calls(_onoff(("run", "learn")))),
    _case("raw", st.fixed_dictionaries({"length": st.integers(0, 4)}), _calls(st.tuples(st.just("raw"), st.integers(0, 2**32 - 1)))),
    _case("notification", st.fixed_dictionaries({"latin1": st.booleans()}), _calls(st.tuples(st.just("text"), st.text(alphabet=st.characters(min_codepoint=32, max_codepoint=126), max_size=14)))),
)


# ---------------------------------------------------------------------------
# execution


class Clock:
    def __init__(self) -> None:
        self.now = 1000.0

    def time(self) -> float:
        return self.now


class V(Exception):
    """A recorded violation: (relation, detail)."""


def build(xknx, dev: str, cfg: dict):
    import xknx.devices as D
    from xknx.devices.fan import FanSpeedMode
    from xknx.devices.light import ColorTemperatureType
    from xknx.remote_value.remote_value_setpoint_shift import SetpointShiftMode

    g = lambda n: f"1/1/{n}"  # noqa: E731
    if dev == "switch":
        return D.Switch(xknx, "d", group_address=g(1), invert=cfg["invert"])
    if dev == "light_switch":
        if cfg["mode"] == "switch":
            return D.Light(xknx, "d", group_address_switch=g(1))
        if cfg["mode"] == "color_switches":
            return D.Light(xknx, "d", group_address_switch_red=g(1), group_address_brightness_red=g(2), group_address_switch_green=g(3), group_address_brightness_green=g(4), group_address_switch_blue=g(5), group_address_brightness_blue=g(6))
        return D.Light(xknx, "d", group_address_brightness_red=g(2), group_address_brightness_green=g(4), group_address_brightness_blue=g(6), group_address_brightness_white=g(8))
    if dev == "light_brightness":
        return D.Light(xknx, "d", group_address_switch=g(1), group_address_brightness=g(2))
    if dev == "light_tunable_white":
        return D.Light(xknx, "d", group_address_switch=g(1), group_address_tunable_white=g(2))
    if dev == "light_color":
        if cfg["mode"] == "rgb":
            return D.Light(xknx, "d", group_address_switch=g(1), group_address_color=g(2))
        return D.Light(xknx, "d", group_address_brightness_red=g(2), group_address_brightness_green=g(4), group_address_brightness_blue=g(6))
    if dev == "light_rgbw":
        if cfg["mode"] == "rgbw":
            return D.Light(xknx, "d", group_address_switch=g(1), group_address_rgbw=g(2))
        return D.Light(xknx, "d", group_address_brightness_red=g(2), group_address_brightness_green=g(4), group_address_brightness_blue=g(6), group_address_brightness_white=g(8))
    if dev == "light_hs":
        return D.Light(xknx, "d", group_address_switch=g(1), group_address_hue=g(2), group_address_saturation=g(3))
    if dev == "light_xyy":
        return D.Light(xknx, "d", group_address_switch=g(1), group_address_xyy_color=g(2))
    if dev == "light_color_temp":
        return D.Light(xknx, "d", group_address_switch=g(1), group_address_color_temperature=g(2), color_temperature_type=ColorTemperatureType.UINT_2_BYTE if cfg["type"] == "uint" else ColorTemperatureType.FLOAT_2_BYTE)
    if dev == "cover_position":
        return D.Cover(xknx, "d", group_address_long=g(1), group_address_position=g(2), invert_position=cfg["invert_position"], invert_updown=cfg["invert_updown"], travel_time_down=10, travel_time_up=20)
    if dev == "cover_angle":
        return D.Cover(xknx, "d", group_address_long=g(1), group_address_angle=g(2), invert_angle=cfg["invert_angle"])
    if dev == "cover_updown":
        # with a long (up/down) address, or without one but with a writable position address (open / close through 0 % / 100 %)
        kw = {"group_address_long": g(1)} if cfg.get("long", True) else {"group_address_position": g(2)}
        if cfg.get("stop", True):
            kw["group_address_stop"] = g(3)
        return D.Cover(xknx, "d", invert_updown=cfg["invert_updown"], invert_position=cfg["invert_position"], travel_time_down=10, travel_time_up=20, **kw)
    if dev == "fan_percent":
        return D.Fan(xknx, "d", group_address_speed=g(1))
    if dev == "fan_step":
        return D.Fan(xknx, "d", group_address_speed=g(1), max_step=cfg["max_step"])
    if dev == "fan_switch":
        return D.Fan(xknx, "d", group_address_speed=g(1), group_address_switch=g(2), group_address_oscillation=g(3))
    if dev == "climate_direct":
        return D.Climate(xknx, "d", group_address_target_temperature=g(1))
    if dev in ("climate_shift", "climate_target_via_shift"):
        mode = SetpointShiftMode.DPT6010 if cfg["mode"] == "6010" else SetpointShiftMode.DPT9002
        kw = {}
        if dev == "climate_target_via_shift":
            kw = {"group_address_target_temperature": g(3)} if cfg["target_writable"] else {"group_address_target_temperature_state": g(3)}
        return D.Climate(xknx, "d", group_address_setpoint_shift=g(1), setpoint_shift_mode=mode, temperature_step=cfg["step"], setpoint_shift_min=cfg["min"], setpoint_shift_max=cfg["max"], **kw)
    if dev == "climate_onoff":
        return D.Climate(xknx, "d", group_address_on_off=g(1), on_off_invert=cfg["on_off_invert"])
    if dev == "climate_fan_speed":
        return D.Climate(xknx, "d", group_address_fan_speed=g(1), fan_speed_mode=FanSpeedMode.STEP if cfg["step_mode"] else FanSpeedMode.PERCENT)
    if dev == "climate_mode_op":
        if cfg["kind"] == "dpt":
            return D.ClimateMode(xknx, "d", group_address_operation_mode=g(1))
        return D.ClimateMode(xknx, "d", group_address_operation_mode_protection=g(1), group_address_operation_mode_economy=g(2), group_address_operation_mode_comfort=g(3))
    if dev == "climate_mode_ctrl":
        if cfg["kind"] == "dpt":
            return D.ClimateMode(xknx, "d", group_address_controller_mode=g(1))
        return D.ClimateMode(xknx, "d", group_address_heat_cool=g(1))
    if dev == "numeric":
        return D.NumericValue(xknx, "d", group_address=g(1), value_type=cfg["value_type"])
    if dev == "scene":
        return D.Scene(xknx, "d", group_address=g(1), scene_number=cfg["number"])
    if dev == "raw":
        return D.RawValue(xknx, "d", payload_length=cfg["length"], group_address=g(1))
    if dev == "notification":
        return D.Notification(xknx, "d", group_address=g(1), value_type="latin_1" if cfg["latin1"] else None)
    raise KeyError(dev)


def drain(xknx) -> int:
    """Process everything the device queued, as outgoing telegrams, through the registry."""
    from xknx.telegram import TelegramDirection

    n = 0
    while not xknx.telegrams.empty() and n < 50:
        t = xknx.telegrams.get_nowait()
        xknx.telegrams.task_done()
        if t is None:
            continue
        if t.direction is not TelegramDirection.OUTGOING:
            raise V("direction", f"queued telegram {t} is not OUTGOING")
        xknx.group_address_dpt.set_decoded_data(t)  # the eager decode step of the telegram queue consumer
        xknx.devices.process(t)
        n += 1
    return n


def incoming(xknx, ga: str, payload) -> None:
    from xknx.telegram import GroupAddress, Telegram, TelegramDirection
    from xknx.telegram.apci import GroupValueWrite

    t = Telegram(destination_address=GroupAddress(ga), payload=GroupValueWrite(payload), direction=TelegramDirection.INCOMING)
    xknx.group_address_dpt.set_decoded_data(t)
    xknx.devices.process(t)


# datapoint types an ETS project would declare for the group addresses of remote values without a dpt_class
NATURAL_DPT = {
    "RemoteValueSwitch": (1, 1),
    "RemoteValueUpDown": (1, 8),
    "RemoteValueStep": (1, 7),
    "RemoteValueScaling": (5, 1),
    "RemoteValueColorRGBW": (251, 600),
    "RemoteValueBinaryOperationMode": (1, 1),
    "RemoteValueBinaryHeatCool": (1, 100),
}


def natural_table(d) -> dict:
    """group address -> DPT as a project import (xknxproject style mapping) would configure it."""
    from xknx.dpt import DPTTemperature, DPTValue1Count

    table: dict = {}
    for rv in d._iter_remote_values():  # noqa: SLF001
        cls_name = type(rv).__name__
        if rv.dpt_class is not None:
            num = (rv.dpt_class.dpt_main_number, rv.dpt_class.dpt_sub_number)
        elif cls_name == "RemoteValueSetpointShift":
            internal = rv._internal_dpt_class  # noqa: SLF001
            num = (6, 10) if internal is DPTValue1Count else ((9, 2) if internal is DPTTemperature else None)
        else:
            num = NATURAL_DPT.get(cls_name)
        if num is None or num[0] is None:
            continue
        for ga in rv.group_addresses():
            table[str(ga)] = {"main": num[0], "sub": num[1]}
    return table


def expect(cond: bool, relation: str, detail: str) -> None:
    if not cond:
        raise V(relation, detail)


async def step(xknx, d, dev: str, cfg: dict, setter: str, val, clock: Clock):
    """Run one call + loop back + compare. Returns (n_telegrams, nontrivial)."""
    from xknx.dpt import DPTArray
    from xknx.dpt.dpt_20 import HVACControllerMode, HVACOperationMode

    if val is None:
        nontrivial = setter not in ("off", "turn_off")
    else:
        nontrivial = bool(val) if not isinstance(val, list) else any(bool(x) for x in val)
    # ---- call ----
    if setter in ("on", "off"):
        await (d.set_on() if setter == "on" else d.set_off())
    elif setter in ("turn_on", "turn_off"):
        await (d.turn_on() if setter == "turn_on" else d.turn_off())
    elif setter in ("up", "down", "up_stop", "down_stop"):
        await (d.set_up() if setter.startswith("up") else d.set_down())
    elif setter in ("run", "learn"):
        await (d.run() if setter == "run" else d.learn())
    elif setter == "brightness":
        await d.set_brightness(val)
    elif setter == "tunable_white":
        await d.set_tunable_white(val)
    elif setter == "color":
        await d.set_color(tuple(val))
    elif setter == "rgbw":
        await d.set_color(tuple(val[:3]), val[3])
    elif setter == "hs":
        await d.set_hs_color(tuple(val))
    elif setter == "xyy":
        from xknx.dpt.dpt_242 import XYYColor

        await d.set_xyy_color(XYYColor(color=tuple(val[0]) if val[0] is not None else None, brightness=val[1]))
    elif setter == "kelvin":
        await d.set_color_temperature(val)
    elif setter == "position":
        await d.set_position(val)
    elif setter == "angle":
        await d.set_angle(val)
    elif setter in ("speed", "speed_step"):
        if setter == "speed_step":
            val = min(val, cfg["max_step"])
        await d.set_speed(val)
    elif setter == "oscillation":
        await d.set_oscillation(val)
    elif setter == "target":
        await d.set_target_temperature(val)
    elif setter == "shift":
        await d.set_setpoint_shift(val)
    elif setter == "target_k":
        base = d.base_temperature
        expect(base is not None, "setup", "base temperature unknown after initial telegrams")
        val = base + val * cfg["step"]  # the temperature a UI would request: base + k steps
        await d.set_target_temperature(val)
    elif setter == "fan_speed":
        await d.set_fan_speed(val)
    elif setter == "op_mode":
        m = HVACOperationMode[val]
        if m not in d.operation_modes:
            return 0, False  # not accepted by this configuration
        await d.set_operation_mode(m)
    elif setter == "ctrl_mode":
        m = HVACControllerMode[val]
        if m not in d.controller_modes:
            return 0, False
        await d.set_controller_mode(m)
    elif setter == "set":
        await d.set(val)
    elif setter == "raw":
        val = val % (64 if cfg["length"] == 0 else 256 ** cfg["length"])
        await d.set(val)
    elif setter == "text":
        await d.set(val)
    else:
        raise KeyError(setter)
    # ---- loop back ----
    n = drain(xknx)
    await asyncio.sleep(0)
    n += drain(xknx)
    # ---- compare ----
    what = f"{setter}({val!r})"
    if dev == "switch":
        expect(d.state is (setter == "on"), "Switch.state", f"{what}: state {d.state!r}")
    elif dev == "light_switch":
        expect(d.state is (setter == "on"), f"Light.state:{cfg['mode']}", f"{what}: state {d.state!r}")
    elif dev == "light_brightness":
        expect(d.current_brightness == val, "Light.brightness", f"{what}: current_brightness {d.current_brightness!r}")
    elif dev == "light_tunable_white":
        expect(d.current_tunable_white == val, "Light.tunable_white", f"{what}: {d.current_tunable_white!r}")
    elif dev == "light_color":
        expect(d.current_color == (tuple(val), None), f"Light.color:{cfg['mode']}", f"{what}: current_color {d.current_color!r}")
    elif dev == "light_rgbw":
        expect(d.current_color == (tuple(val[:3]), val[3]), f"Light.rgbw:{cfg['mode']}", f"{what}: current_color {d.current_color!r}")
    elif dev == "light_hs":
        cur = d.current_hs_color
        ok = cur is not None and close(cur[0], val[0], scaled_int_tol(360)) and close(cur[1], val[1], scaled_int_tol(100))
        if ok and isinstance(val[1], int):
            ok = cur[1] == val[1]  # every whole percent is representable
        expect(ok, "Light.hs_color", f"{what}: current_hs_color {cur!r}")
    elif dev == "light_xyy":
        cur = d.current_xyy_color
        ok = cur is not None
        if ok and val[0] is not None:
            tol = Fraction(1, 2 * 65535) + Fraction(1, 10**5)
            ok = cur.color is not None and close(cur.color[0], val[0][0], tol) and close(cur.color[1], val[0][1], tol)
        if ok and val[1] is not None:
            ok = cur.brightness == val[1]
        expect(ok or (val[0] is None and val[1] is None), "Light.xyy_color", f"{what}: current_xyy_color {cur!r}")
    elif dev == "light_color_temp":
        cur = d.current_color_temperature
        ok = cur == val if cfg["type"] == "uint" else close(cur, val, dpt9_tol(val))
        expect(ok, f"Light.color_temperature:{cfg['type']}", f"{what}: current_color_temperature {cur!r}")
    elif dev == "cover_updown" and setter.endswith("_stop"):
        # open / close, stop after val/8 of a full travel: the cover rests where it was stopped, between start and end position
        start = d.travelcalculator._last_known_position  # noqa: SLF001
        clock.now += (20 if setter.startswith("up") else 10) * val / 8
        mid = d.current_position()
        if d.supports_stop and d.is_traveling():
            await d.stop()
            n += drain(xknx)
            clock.now += 1000.0
            cur = d.current_position()
            end = 0 if setter.startswith("up") else 100
            ok = cur == mid and not d.is_traveling() and (start is None or min(start, end) <= cur <= max(start, end))
            expect(ok, "Cover.updown-then-stop", f"{what}: stopped at {mid!r} (from {start!r} towards {end}), later current_position {cur!r}, is_traveling {d.is_traveling()!r}")
        else:
            clock.now += 1000.0
            want = 0 if setter.startswith("up") else 100
            cur = d.current_position()
            expect(cur == want and d.position_reached(), "Cover.updown", f"{what}: current_position {cur!r} after the travel time, expected {want}")
        nontrivial = True
    elif dev in ("cover_position", "cover_updown"):
        clock.now += 1000.0  # let the travel complete
        want = val if dev == "cover_position" else (0 if setter == "up" else 100)
        cur = d.current_position()
        expect(cur == want and d.position_reached(), "Cover.position" if dev == "cover_position" else "Cover.updown", f"{what}: current_position {cur!r} after the travel time, expected {want}")
        if dev == "cover_position":
            expect(d.position_target.value == val, "Cover.position_target", f"{what}: position_target.value {d.position_target.value!r}")
    elif dev == "cover_angle":
        expect(d.current_angle() == val, "Cover.angle", f"{what}: current_angle {d.current_angle()!r}")
    elif dev in ("fan_percent", "fan_step", "fan_switch"):
        if setter in ("speed", "speed_step"):
            expect(d.current_speed == val, f"Fan.speed:{dev}", f"{what}: current_speed {d.current_speed!r}")
        elif setter == "oscillation":
            expect(d.current_oscillation is val, "Fan.oscillation", f"{what}: current_oscillation {d.current_oscillation!r}")
        else:
            expect(d.is_on is (setter == "turn_on"), f"Fan.is_on:{dev}", f"{what}: is_on {d.is_on!r}, speed {d.current_speed!r}")
        nontrivial = nontrivial or setter == "turn_on"
    elif dev == "climate_direct":
        cur = d.target_temperature.value
        expect(close(cur, val, dpt9_tol(val)), "Climate.target_temperature:direct", f"{what}: target_temperature {cur!r} (tolerance {float(dpt9_tol(val))})")
    elif dev == "climate_shift":
        cur = d.setpoint_shift
        tol = Fraction(cfg["step"]) / 2 if cfg["mode"] == "6010" else dpt9_tol(val)
        expect(close(cur, val, tol), f"Climate.setpoint_shift:{cfg['mode']}", f"{what}: setpoint_shift {cur!r}, step {cfg['step']} (tolerance {float(tol)})")
    elif dev == "climate_target_via_shift":
        cur = d.setpoint_shift
        want_shift = Fraction(val) - Fraction(base)
        tol = Fraction(cfg["step"]) / 2 if cfg["mode"] == "6010" else dpt9_tol(want_shift)
        expect(close(cur, want_shift, tol), f"Climate.setpoint_shift:{cfg['mode']}", f"set_target_temperature({val!r}) with base {base!r}: setpoint_shift {cur!r}, wanted {float(want_shift)!r} (step {cfg['step']}, tolerance {float(tol)})")
        if cfg["target_writable"]:
            tcur = d.target_temperature.value
            expect(close(tcur, val, dpt9_tol(val)), f"Climate.target_temperature:via-shift:{cfg['mode']}", f"set_target_temperature({val!r}): target_temperature {tcur!r}")
    elif dev == "climate_onoff":
        expect(d.is_on is (setter == "turn_on"), "Climate.is_on", f"{what}: is_on {d.is_on!r}")
        nontrivial = True
    elif dev == "climate_fan_speed":
        expect(d.current_fan_speed == val, "Climate.fan_speed", f"{what}: current_fan_speed {d.current_fan_speed!r}")
    elif dev == "climate_mode_op":
        expect(d.operation_mode is HVACOperationMode[val], f"ClimateMode.operation_mode:{cfg['kind']}", f"{what}: operation_mode {d.operation_mode!r}")
        nontrivial = True
    elif dev == "climate_mode_ctrl":
        expect(d.controller_mode is HVACControllerMode[val], f"ClimateMode.controller_mode:{cfg['kind']}", f"{what}: controller_mode {d.controller_mode!r}")
        nontrivial = True
    elif dev == "numeric":
        kind, _lo, _hi, res = NUMERIC_TYPES[cfg["value_type"]]
        cur = d.resolve_state()
        if kind == "int":
            ok = cur == val
        elif kind == "scaled":
            ok = close(cur, val, scaled_int_tol(res)) and (res != 100 or cur == val)
        elif kind == "res":
            ok = close(cur, val, res / 2)
        elif kind == "dpt9":
            ok = close(cur, val, dpt9_tol(val))
        else:
            ok = close(cur, val, f32_tol(val))
        expect(ok, f"NumericValue:{cfg['value_type']}", f"{what}: state {cur!r}")
    elif dev == "scene":
        cur = d.scene_value.value
        ok = cur is not None and cur.scene_number == cfg["number"] and cur.learn is (setter == "learn") and d.learn_requested is (setter == "learn")
        expect(ok, "Scene", f"{what}: scene_value {cur!r}, learn_requested {d.learn_requested!r}")
        nontrivial = True
    elif dev == "raw":
        expect(d.remote_value.value == val, "RawValue", f"{what}: value {d.remote_value.value!r}")
    elif dev == "notification":
        expect(d.message == val, "Notification.message", f"{what}: message {d.message!r}")
    return n, nontrivial and n > 0


def oracle(ctx, case) -> None:
    import xknx.devices.travelcalculator as tcmod
    from xknx import XKNX
    from xknx.dpt import DPTArray
    from xknx.dpt.dpt_6 import DPTValue1Count
    from xknx.dpt.dpt_9 import DPTTemperature
    from xknx.exceptions import ConversionError

    dev, cfg = case["dev"], case["cfg"]
    if dev == "cover_sequence":
        oracle_cover_sequence(ctx, case)
        return
    clock = Clock()
    res = {"nontrivial": False, "n": 0}

    async def scenario():
        xknx = XKNX()
        d = build(xknx, dev, cfg)
        xknx.devices.async_add(d)
        if case.get("ga_dpt"):
            # eager decoding configured for every group address of the device, as after a project import
            table = natural_table(d)
            xknx.group_address_dpt.set(table)
            res["table"] = len(table)
        try:
            if dev == "climate_target_via_shift":
                # initial state from the bus: current target temperature and setpoint shift
                k0, s = cfg["k0"], cfg["step"]
                if cfg["mode"] == "6010":
                    incoming(xknx, "1/1/1", DPTValue1Count.to_knx(k0))
                else:
                    incoming(xknx, "1/1/1", DPTTemperature.to_knx(k0 * s))
                incoming(xknx, "1/1/3", DPTTemperature.to_knx(cfg["t0"]))
            for setter, val in case["calls"]:
                try:
                    n, nt = await step(xknx, d, dev, cfg, setter, val, clock)
                except V as v:
                    ctx.fail(f"C39:loopback:{v.args[0]}", case, v.args[1])
                    return
                except ConversionError as e:
                    # a value from the accepted range must be encodable
                    ctx.fail(f"C39:rejected:{dev}:{setter}" + (f":{cfg['value_type']}" if dev == "numeric" else ""), case, f"{setter}({val!r}) raised {e!r}")
                    return
                except Exception as e:  # noqa: BLE001
                    ctx.fail(f"C39:exc:{dev}:{exc_site(e)}", case, f"{setter}({val!r}) raised {e!r}")
                    return
                res["n"] += n
                res["nontrivial"] = res["nontrivial"] or nt
        finally:
            xknx.devices.async_remove(d)
            xknx.task_registry.stop()
            await asyncio.sleep(0)

    saved = tcmod.time
    tcmod.time = types.SimpleNamespace(time=clock.time)
    loop = asyncio.new_event_loop()
    try:
        loop.run_until_complete(scenario())
    finally:
        loop.close()
        tcmod.time = saved
    cls = [dev] + [f"{dev}:{k}={v}" for k, v in sorted(cfg.items()) if isinstance(v, (bool, str))]
    cls.append("group-address-dpt-table" if res.get("table") else "no-group-address-dpt-table")
    ctx.case(repr(case), nontrivial=res["nontrivial"], cls=cls, sample=case if res["nontrivial"] and len(case["calls"]) > 1 else None)


def oracle_cover_sequence(ctx, case) -> None:
    """Several Cover.set_position calls with virtual time in between; the last request must win."""
    import xknx.devices.travelcalculator as tcmod
    from xknx import XKNX
    from xknx.devices import Cover
    from xknx.dpt import DPTArray
    from xknx.remote_value import RemoteValueScaling

    cfg = case["cfg"]
    res = {"nontrivial": False, "table": 0, "labels": set()}

    async def scenario(loop):
        tcmod.time = types.SimpleNamespace(time=lambda: 1000.0 + loop.time())  # calculator clock in step with the loop
        xknx = XKNX()
        d = Cover(
            xknx,
            "d",
            group_address_long="1/1/1",
            group_address_stop="1/1/2" if cfg["stop"] else None,
            group_address_short="1/1/3" if cfg["step"] else None,
            group_address_position="1/1/4" if cfg["position"] else None,
            group_address_position_state="1/1/5",
            invert_position=cfg["invert_position"],
            invert_updown=cfg["invert_updown"],
            travel_time_down=cfg["tt_down"],
            travel_time_up=cfg["tt_up"],
            sync_state=False,
        )
        xknx.devices.async_add(d)
        if case.get("ga_dpt"):
            table = natural_table(d)
            xknx.group_address_dpt.set(table)
            res["table"] = len(table)
        try:
            # known position from the bus
            rf, rt = (100, 0) if cfg["invert_position"] else (0, 100)
            incoming(xknx, "1/1/5", DPTArray(RemoteValueScaling._calc_to_knx(rf, rt, cfg["p0"])))  # noqa: SLF001
            last = None
            for n_call, (_setter, (pos, k)) in enumerate(case["calls"]):
                cur = d.current_position()
                if cur == pos and d.is_traveling():
                    res["labels"].add("request-equals-current-estimate-while-travelling")
                await d.set_position(pos)
                drain(xknx)
                last = pos
                need = d.travelcalculator.calculate_travel_time(cur, pos) if cur is not None else 0.0
                is_last = n_call == len(case["calls"]) - 1
                wait = max(cfg["tt_down"], cfg["tt_up"]) + 3.0 if is_last else need * k / 8
                if not is_last and 0 < k < 8 and need > 0:
                    res["labels"].add("next-command-during-travel" + (":to-end-position" if case["calls"][n_call + 1][1][0] in (0, 100) else ""))
                    res["nontrivial"] = True
                if wait > 0:
                    await asyncio.sleep(wait)  # virtual time: the Cover's auto-stop / periodic callback run when due
                    drain(xknx)
            est = d.current_position()
            tol = 0 if cfg["position"] else 1  # timer based positioning stops within one position step
            ok = est is not None and abs(est - last) <= tol and not d.is_traveling()
            if not ok:
                kind = "with-position-address" if cfg["position"] else "timer-based"
                if "request-equals-current-estimate-while-travelling" in res["labels"]:
                    kind += ":request-equals-current-estimate-while-travelling"  # own root cause: 'already in position' shortcut
                raise V(f"Cover.position-sequence:{kind}", f"set_position calls {[c[1] for c in case['calls']]} from {cfg['p0']}: current_position {est!r}, is_traveling {d.is_traveling()!r} after the last travel time, last request {last}")
        finally:
            xknx.devices.async_remove(d)
            xknx.task_registry.stop()

    saved = tcmod.time
    try:
        _r, vl = run_case(scenario, max_iters=500_000)
        for esc in vl.escaped:
            ctx.fail(f"C39:exc:cover_sequence:task:{exc_site(esc['exception']) if esc.get('exception') is not None else 'unknown'}", case, esc.get("repr", ""))
            break
    except V as v:
        ctx.fail(f"C39:loopback:{v.args[0]}", case, v.args[1])
    except (BudgetExceeded, Deadlock):
        ctx.notes["inconclusive"] = ctx.notes.get("inconclusive", 0) + 1
    except Exception as e:  # noqa: BLE001
        ctx.fail(f"C39:exc:cover_sequence:{exc_site(e)}", case, f"{e!r}")
    finally:
        tcmod.time = saved
    cls = ["cover_sequence", "cover_sequence:" + ("position-address" if cfg["position"] else ("stop" if cfg["stop"] else "step-only"))] + sorted(res["labels"])
    cls.append("group-address-dpt-table" if res.get("table") else "no-group-address-dpt-table")
    ctx.case(repr(case), nontrivial=res["nontrivial"], cls=cls, sample=case if res["nontrivial"] else None)


def _shard(ctx, n: int) -> None:
    hyp_search(ctx, _with_table(CASES), oracle, n)


def selftest(ctx) -> None:
    assert dpt9_tol(20.3) == Fraction(1, 200) and dpt9_tol(21.3) == Fraction(1, 100)
    assert dpt9_tol(20.474) == Fraction(1, 100)
    assert dpt9_tol(-30) == Fraction(1, 100)
    assert dpt9_tol(5000) == Fraction(256, 200)
    assert close(0.3, 0.30000000000000004, Fraction(0))
    assert not close(0.2, 0.3, Fraction(1, 20))
    assert close(33, 33.3, scaled_int_tol(100)) and not close(32, 33.3, scaled_int_tol(100))
    assert close(-403268.8, -403268.75, f32_tol(-403268.75)) and not close(-403268.9, -403268.75, f32_tol(-403268.75))
    assert close(0.3320312, 0.33203125, f32_tol(0.33203125)) and not close(0.332031, 0.33203125, f32_tol(0.33203125))


def run(ctx) -> None:
    parallel(ctx, _shard, [(ctx.n(400, 6000),)] * 16)
    ctx.exhaustive = False


def replay(ctx, case) -> None:
    oracle(ctx, case)
