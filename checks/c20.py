"""C20 - KNX/IP frame parsing terminates and fails only with declared errors.

Every input is parsed with `KNXIPFrame.from_knx` under a deterministic step budget
(vk/budget.py, sys.monitoring events inside xknx code, limit A + B*len(input)) and a
tracemalloc peak budget. Outcome must be: (frame, rest) with 6 <= announced <= len(data),
rest == data[announced:], header.total_length == announced; or CouldNotParseKNXIP (incl.
IncompleteKNXIPFrame, and that only when a completion of the octets seen so far can exist).
"""

from __future__ import annotations

import re

from hypothesis import strategies as st

from vk.budget import MemBudget, StepBudget, StepBudgetExceeded
from vk.budget import selftest as budget_selftest
from vk.core import HarnessError, exc_site
from vk.engine import hyp_collect, parallel
from vk.strategies import knxip as S

PROPERTY = "C20"
LEVEL = "exploration"
TECHNIQUE = "structure-aware mutation by construction of Hypothesis-generated valid frames + random byte strings, under deterministic step / memory budgets"
RULE = (
    "valid frames of all 29 service types from the C21 strategies, each mutated by construction: truncated at every "
    "offset (announced length kept / corrected), every structure-length octet (HPAI, CRI, CRD, DIB, SRP, connection "
    "header) set to 0,1,2,3,orig+-1,orig+-2,0x7F,0xFE,0xFF, every code octet (status, connection type, layer, host "
    "protocol, DIB/SRP type, medium, service family, feature id, return code, session status) set to a probe set "
    "(quick) or all 256 values (thorough), announced total length in {0,1,5,6,7,n-2,n-1,n+1,n+2,n+256,65535}, trailing "
    "octets, header octets, the body under every other known/unimplemented/unknown service code; 1..4 surplus octets "
    "(generated + 00/01020304/ff fills) behind the well-formed body inside a corrected announced length and behind an "
    "unchanged one, for every class plus fixed basic / extended / non-tunnel CRI and CRD variants; header-only and "
    "zero bodies for every service code; random octet strings and random bodies behind valid headers; "
    "non-trivial = valid 6-octet header of an implemented service with 6 <= announced <= len(data), i.e. the input "
    "reaches a body/structure parser; distinct by input hash"
    "; thorough tier only: atheris/libFuzzer campaigns (vk/fuzz.py, fuzz/c20_target.py; 8 processes, half from an empty corpus, half from "
    "a seed corpus of valid inputs, -runs budget, -seed derived from VERIF_SEED) with this same oracle inside the target: input = the octets given to KNXIPFrame.from_knx, check_bytes() under the same step and memory budgets (libFuzzer dictionary = header prefixes of the service-code table); each "
    "execution counts as one evaluation, it is non-trivial by the same rule (valid header of an implemented service with 6 <= announced <= len, measured in the target), distinct by input hash"
)
FUZZ_RUNS = 400_000  # executions per campaign (thorough tier)
ASSUMPTIONS = [
    "surplus differential: a frame accepted with surplus octets inside the announced length must have the fields of "
    "the frame without them, except where the layout is open-ended (raw cEMI / feature value = base + surplus, secure "
    "wrapper data|MAC boundary shifted, additional DIB / SRP list elements after the unchanged ones); it is a "
    "metamorphic relation between two parses, rejecting the surplus with CouldNotParseKNXIP is always accepted",
    "termination is judged by a step budget, never by wall clock: steps = sys.monitoring PY_START/LINE/JUMP/BRANCH "
    "events in xknx code objects; limit = A + B*len(input) with A,B >= 20x the maximum observed on valid frames "
    "(re-verified on every run, constants in coverage.budget)",
    "a returned frame must announce at least its own 6 header octets (a frame that 'consumed' fewer octets than the "
    "header it was parsed from has not consumed the announced length of a frame)",
    "IncompleteKNXIPFrame is accepted for known-but-unimplemented service types and for any prefix that is still "
    "consistent with a valid header (header length 06h, version 10h, a service code of the specification, "
    "announced length >= 6 and > len(data))",
]
LEVEL_TEXT = (
    "Sampled exploration with exhaustive single-structure mutation of each sampled frame: every raising site that "
    "one wrong length octet, one wrong code octet, a truncation or an inconsistent announced length can reach from "
    "a generated valid frame is reached; multi-fault inputs are covered only by the random part."
)
LEVEL_NOTE = (
    "Trusted: vk/budget.py step counter (self-tested to interrupt a `while True` loop inside xknx code), the "
    "service-code table and header rules written from KNXnet/IP Core in vk/strategies/knxip.py."
)

# step budget: measured on valid frames: <= ~12.5 steps/octet, <= ~1500 steps for the largest (350 octet) frames; headroom >= 70x (see coverage.budget)
A_STEPS = 6000
B_STEPS = 400
# memory budget (tracemalloc peak of the call): measured maximum on valid frames ~13 KiB; headroom >= 190x
A_MEM = 256 * 1024
B_MEM = 8 * 1024
HEADROOM = 20


def step_limit(n: int) -> int:
    return A_STEPS + B_STEPS * n


def mem_limit(n: int) -> int:
    return A_MEM + B_MEM * n


def selftest(ctx) -> None:
    budget_selftest()
    assert could_complete(b"") and could_complete(b"\x06") and could_complete(b"\x06\x10\x02\x01\x00")
    assert not could_complete(b"\x05") and not could_complete(b"\x06\x11") and not could_complete(b"\x06\x10\x02\x0d")
    assert could_complete(b"\x06\x10\x02\x01\x00\x0e") and not could_complete(b"\x06\x10\x02\x01\x00\x05")
    assert not could_complete(b"\x06\x10\x02\x01\x00\x06")
    f = bytes.fromhex("06100201000e0801c0a80001e1f7")
    assert all(could_complete(f[:k]) for k in range(len(f))) and not could_complete(f)
    assert len(list(S.mutations(f))) > 100


def could_complete(data: bytes) -> bool:
    """Can appending octets turn `data` into a complete frame (independent reference)?"""
    n = len(data)
    if n >= 1 and data[0] != 6:
        return False
    if n >= 2 and data[1] != 0x10:
        return False
    if n >= 4 and data[2] * 256 + data[3] not in S.KNOWN_SERVICE_CODES:
        return False
    if n >= 6:
        announced = data[4] * 256 + data[5]
        if announced < 6 or n >= announced:
            return False
    return True


def reaches_body_parser(data: bytes) -> bool:
    if len(data) < 6 or data[0] != 6 or data[1] != 0x10:
        return False
    if data[2] * 256 + data[3] not in S.SERVICE_BY_CODE:
        return False
    return 6 <= data[4] * 256 + data[5] <= len(data)


_ENUM_MSG = re.compile(r"is not a valid (\w+)")


def site(e: BaseException) -> str:
    s = exc_site(e)
    if isinstance(e, ValueError):
        m = _ENUM_MSG.search(str(e))
        if m:
            s += ":" + m.group(1)
    return s


def parse(data: bytes):
    """-> (kind, payload, steps, mem_peak); kind in ok|declared|incomplete|undeclared|nonterm.

    A memory peak above the limit is re-measured once (minimum of the two runs): one-time
    allocations of a first call (lazy imports, caches) are not a cost of the input."""
    out = _parse_once(data)
    if out[3] * HEADROOM > mem_limit(len(data)) and out[0] != "nonterm":
        again = _parse_once(data)
        if again[3] < out[3]:
            out = again
    return out


def _parse_once(data: bytes):
    from xknx.exceptions import CouldNotParseKNXIP, IncompleteKNXIPFrame
    from xknx.knxip import KNXIPFrame

    mb = MemBudget()
    sb = StepBudget(step_limit(len(data)))
    try:
        with mb, sb:
            out = KNXIPFrame.from_knx(data)
        return "ok", out, sb.steps, mb.peak
    except StepBudgetExceeded as e:
        hot = "+".join(q for q in e.site.split("+") if q != "DIB.determine_dib")
        return "nonterm", hot, sb.steps, mb.peak
    except IncompleteKNXIPFrame as e:
        return "incomplete", e, sb.steps, mb.peak
    except CouldNotParseKNXIP as e:
        return "declared", e, sb.steps, mb.peak
    except Exception as e:  # noqa: BLE001
        return "undeclared", e, sb.steps, mb.peak


def check_bytes(ctx, data: bytes, cls: str) -> str:
    data = bytes(data)
    ctx.case(data, nontrivial=reaches_body_parser(data), cls=cls)
    kind, val, steps, peak = parse(data)
    n = len(data)
    if kind == "nonterm":
        ctx.fail(f"C20:nontermination:{val}", data, f"step budget {step_limit(n)} exhausted (input {n} octets) in {val}; memory peak so far {peak} B")
        return kind
    if peak > mem_limit(n):
        ctx.fail(f"C20:memory:{cls}", data, f"tracemalloc peak {peak} B > {mem_limit(n)} B for {n} octets")
    if kind == "undeclared":
        ctx.fail(f"C20:undeclared-exc:{site(val)}", data, f"{type(val).__name__}: {val}")
    elif kind == "incomplete":
        if not could_complete(data):
            why = "prefix-contradicts-header" if n < 6 else "header-complete"
            ctx.fail(f"C20:incomplete-impossible:{why}", data, "IncompleteKNXIPFrame although no appended octets can complete this into a frame")
    elif kind == "ok":
        frame, rest = val
        announced = data[4] * 256 + data[5] if n >= 6 else -1
        if announced < 6:
            ctx.fail("C20:accepted-announced-lt-6", data, f"frame returned for announced total length {announced} (< 6 header octets); rest={bytes(rest).hex()}")
        elif announced > n:
            ctx.fail("C20:accepted-announced-gt-data", data, f"announced {announced} > {n} octets given")
        else:
            if rest != data[announced:]:
                ctx.fail("C20:rest-mismatch", data, f"rest={bytes(rest).hex()} expected {data[announced:].hex()}")
            if frame.header.total_length != announced:
                ctx.fail("C20:header-length-mismatch", data, f"header.total_length={frame.header.total_length} announced={announced}")
    return kind


_ABSORB = {  # classes whose last field is open-ended: attribute that takes the surplus octets
    "DeviceConfigurationRequest": "raw_cemi",
    "TunnellingRequest": "raw_cemi",
    "RoutingIndication": "raw_cemi",
    "TunnellingFeatureSet": "data",
    "TunnellingFeatureInfo": "data",
    "TunnellingFeatureResponse": "data",
}
_LISTS = {"SearchResponse": "dibs", "SearchResponseExtended": "dibs", "DescriptionResponse": "dibs", "SearchRequestExtended": "srps"}


def surplus_diff(base_body, got_body, surplus: bytes, inside: bool) -> str | None:
    """Differential for `valid frame + surplus octets`: path of the first field of the
    accepted frame that is not what the layout of the frame WITHOUT the surplus dictates.

    Behind the announced length (inside=False) nothing may change. Inside the announced
    length the surplus may only show up where the layout is open-ended: appended to the raw
    cEMI / feature value, shifting the boundary between encrypted data and MAC of a secure
    wrapper, or as additional DIB / SRP list elements; every other field must be unchanged."""
    from checks.c21 import deep_diff

    if type(base_body) is not type(got_body):
        return "<type>"
    if not inside:
        return deep_diff(got_body, base_body)
    name = type(base_body).__name__
    b, g = vars(base_body), vars(got_body)
    if set(b) != set(g):
        return "<fields>"
    for k in sorted(b):
        if _ABSORB.get(name) == k:
            if g[k] != b[k] + surplus:
                return f".{k}<not base+surplus>"
        elif name == "SecureWrapper" and k in ("encrypted_data", "message_authentication_code"):
            tail = b["encrypted_data"] + b["message_authentication_code"] + surplus
            if g["encrypted_data"] + g["message_authentication_code"] != tail or len(g["message_authentication_code"]) != 16:
                return f".{k}<not a re-split of data+mac+surplus>"
        elif _LISTS.get(name) == k:
            if len(g[k]) < len(b[k]):
                return f".{k}<len>"
            d = deep_diff(g[k][: len(b[k])], b[k], f".{k}")
            if d:
                return d
        else:
            d = deep_diff(g[k], b[k], f".{k}")
            if d:
                return d
    return None


def check_surplus(ctx, frame: bytes, base, surplus: bytes, inside: bool, mcls: str) -> None:
    """frame (valid) + surplus octets: declared-error clause via check_bytes, and where the
    frame is accepted, the fields must equal those of the frame without the surplus."""
    frame, surplus = bytes(frame), bytes(surplus)
    data = S._with_len(frame + surplus) if inside else frame + surplus  # noqa: SLF001
    if check_bytes(ctx, data, mcls) != "ok":
        return
    kind, val, _steps, _peak = parse(data)
    if kind != "ok":
        return
    got = val[0]
    d = surplus_diff(base.body, got.body, surplus, inside)
    if d is not None:
        cls = type(base.body).__name__
        ctx.fail(
            f"C20:surplus-changes-fields:{cls}:{d}",
            {"base": frame, "surplus": surplus, "inside": inside},
            f"{data.hex()} parses to {got.body!r}; without the {len(surplus)} surplus octet(s) {'inside' if inside else 'behind'} the announced length: {base.body!r}",
        )


def oracle_frame(ctx, spec: dict) -> None:
    """All by-construction mutants of one generated valid frame."""
    cls = spec["cls"]
    try:
        frame = S.serialise(spec)
    except Exception:  # noqa: BLE001 - encoder problems are C21's subject
        ctx.notes["unserialisable_specs_skipped"] = ctx.notes.get("unserialisable_specs_skipped", 0) + 1
        return
    # calibration on the valid frame itself
    kind, val, steps, peak = parse(frame)
    ctx.case(frame, nontrivial=True, cls="valid")
    if kind != "ok":
        # a valid frame must parse; report in C20 terms only if undeclared / non-terminating
        check_bytes(ctx, frame, "valid")
        ctx.notes["valid_frames_rejected"] = ctx.notes.get("valid_frames_rejected", 0) + 1
    else:
        if steps * HEADROOM > step_limit(len(frame)):
            raise HarnessError(f"step budget not {HEADROOM}x above valid input: {steps} steps for {len(frame)} octets ({cls}); recalibrate A_STEPS/B_STEPS")
        if peak * HEADROOM > mem_limit(len(frame)):
            raise HarnessError(f"memory budget not {HEADROOM}x above valid input: {peak} B for {len(frame)} octets ({cls})")
    if ctx.evaluations % 50 == 1:
        ctx.sample({"valid": cls, "frame": frame[:40].hex(), "len": len(frame), "steps": steps})
    full = not ctx.quick and len(frame) <= 120
    for mcls, data in S.mutations(frame, full=full):
        k = check_bytes(ctx, data, mcls)
        if k in ("undeclared", "nonterm") and ctx.fail_counts and sum(ctx.fail_counts.values()) % 200 == 1:
            ctx.sample({"mutation": mcls, "of": cls, "input": data[:40].hex(), "outcome": k})
    if kind == "ok":
        for mcls, _data, surplus, inside in S.surplus_variants(frame, bytes(spec.get("_fill", b""))):
            check_surplus(ctx, frame, val[0], surplus, inside, mcls)


def oracle_random(ctx, item) -> None:
    cls, data = item
    check_bytes(ctx, data, cls)


def _shard(ctx, classes: tuple, n: int) -> None:
    for i, cls in enumerate(classes):
        specs = S.body_strategy(cls).filter(S.serialisable).filter(lambda s: len(repr(s)) < 4000)
        # "_fill": generated content of the surplus octets (ignored by S.build)
        hyp_collect(ctx, st.tuples(specs, st.binary(min_size=4, max_size=4)).map(lambda t: {**t[0], "_fill": t[1]}), oracle_frame, n, seed_salt=i)
    hyp_collect(ctx, S.random_inputs(), oracle_random, n * 20, seed_salt=77)


def run(ctx) -> None:
    n = ctx.n(8, 60)
    k = ctx.n(8, 16)  # few workers in the quick tier: the work is ~10 s serial, fork/scheduling overhead dominates beyond that
    shards = [(tuple(S.BODY_CLASSES[i::k]), n) for i in range(k)]
    parallel(ctx, _shard, shards)
    cal = {"frames": 0, "max_steps": 0, "max_steps_per_octet": 0.0, "max_mem_peak": 0, "min_step_headroom": 1e9, "min_mem_headroom": 1e9}

    def calibrate(_ctx, item) -> None:
        _cls, frame = item
        kind, _val, steps, peak = parse(frame)
        if kind != "ok":
            return
        cal["frames"] += 1
        cal["max_steps"] = max(cal["max_steps"], steps)
        cal["max_steps_per_octet"] = round(max(cal["max_steps_per_octet"], steps / len(frame)), 2)
        cal["max_mem_peak"] = max(cal["max_mem_peak"], peak)
        cal["min_step_headroom"] = round(min(cal["min_step_headroom"], step_limit(len(frame)) / max(steps, 1)), 1)
        cal["min_mem_headroom"] = round(min(cal["min_mem_headroom"], mem_limit(len(frame)) / max(peak, 1)), 1)

    hyp_collect(ctx, S.valid_frames(), calibrate, ctx.n(300, 2000), seed_salt=55)
    if cal["min_step_headroom"] < HEADROOM or cal["min_mem_headroom"] < HEADROOM:
        raise HarnessError(f"budget headroom below {HEADROOM}x on valid frames: {cal}")
    for spec in S.CANONICAL_SPECS:  # CRI / CRD variants a small sample may miss (basic, extended 0.0.x, extended, non-tunnel)
        oracle_frame(ctx, dict(spec))
    for cls, data in S.empty_bodies():
        check_bytes(ctx, data, cls)
    for data in (b"", b"\x06", b"\x05", b"\x06\x10", b"\x06\x11", b"\x06\x10\x05\x30", b"\x06\x10\xff\xff", b"\x06\x10\x05\x30\x00", b"\x00" * 6, b"\xff" * 6):
        check_bytes(ctx, data, "short-literal")
    ctx.notes["budget"] = {
        "steps": f"{A_STEPS} + {B_STEPS}*len(input) sys.monitoring events in xknx code",
        "memory": f"{A_MEM} + {B_MEM}*len(input) bytes tracemalloc peak",
        "required_headroom_over_valid_frames": HEADROOM,
        "observed_on_valid_frames": cal,
    }
    if not ctx.quick:  # thorough tier only: coverage-guided campaigns, oracle inside the target
        from vk.fuzz import run_fuzz

        run_fuzz(ctx, PROPERTY, runs=FUZZ_RUNS, jobs=8)


def replay(ctx, case) -> None:
    if isinstance(case, (bytes, bytearray)):
        check_bytes(ctx, bytes(case), "replay")
    elif isinstance(case, dict) and "base" in case:
        frame = bytes(case["base"])
        kind, val, _s, _p = parse(frame)
        if kind == "ok":
            check_surplus(ctx, frame, val[0], bytes(case["surplus"]), bool(case.get("inside", True)), "replay")
    elif isinstance(case, dict) and "cls" in case:
        oracle_frame(ctx, case)
