"""C26 - heartbeat gives up exactly after four consecutive failures.

The real `ConnectionHeartbeat` runs on the virtual-time loop with a scripted
`send_connectionstate` (outcome alphabet S success, F failure status, N no response
for 10 s, R raises CommunicationError, G connection gone -> None). Outcome sequences
are enumerated exhaustively up to a bound and sampled beyond, with stop()/start()
injected at generated times, and the observed request times / on_failure calls are
compared with a reference automaton written from Core 03.08.02 §5.4.
"""

from __future__ import annotations

import asyncio
import itertools

from hypothesis import strategies as st

from vk.core import exc_site
from vk.engine import hyp_search, parallel
from vk.vloop import BudgetExceeded, Deadlock, run_case

PROPERTY = "C26"
LEVEL = "fault_enumeration"
TECHNIQUE = "exhaustive enumeration of heartbeat outcome sequences + Hypothesis-sampled longer ones with stop/restart, real ConnectionHeartbeat on a virtual-time loop vs reference automaton"
RULE = (
    "outcome sequences over {S,F,N,R,G} enumerated exhaustively up to length 6 (quick) / 8 (thorough), "
    "random sequences up to length 14 with optional stop()/start() at generated times; "
    "non-trivial = sequence containing at least one failure (F/N/R) i.e. exercising the retry/give-up logic; distinct by sequence"
)
LEVEL_TEXT = "All bounded outcome sequences of the scripted connection-state request are run against the real heartbeat in virtual time and compared, event by event, with a reference automaton (period from xknx.io.const, three immediate repetitions, give up once after four consecutive failures or a raise, quiet end when the connection is gone, nothing after stop)."
LEVEL_NOTE = "Part 1: the connection-state request is scripted; part 2: the real UDPTunnel heartbeat against the simulated gateway answering ConnectionStateRequests ok / error status / not at all (all plans up to length 5 quick, 8 thorough), control frames on the wire compared with the reference timeline incl. the reconnect after four failures and silence after disconnect(). Details of part 1: the request is scripted (its own timeout is modelled as a 10 s wait); virtual time; single-threaded asyncio."
ASSUMPTIONS = [
    "send_connectionstate is scripted: S=(True,None) F=(False,'E_CONNECTION_ID') N=10 s then (False,None) R=raise CommunicationError G=None",
    "the heartbeat period is configuration read from xknx.io.const.HEARTBEAT_RATE (70 s on the pinned tree); run() additionally requires period + 4 x 10 s request timeout <= 120 s, the server-side CONNECTION_ALIVE_TIME of Core 03.08.02 §5.4, so four failed requests fit before the server drops the channel",
]

ALPHABET = "SFNRG"
from xknx.io import const as _const

PERIOD = float(_const.HEARTBEAT_RATE)  # the period is configuration; its bound is checked in run()


def model(outs: str, start_times: list[float], stop_times: list[float], horizon: float):
    """Reference automaton. Returns (request_times, failure_times).

    start_times/stop_times: ascending, alternating start, stop, start, ... The outcome
    script is shared across restarts (an outcome is consumed when a request is made).
    """
    reqs: list[float] = []
    fails: list[float] = []
    i = 0
    for k, t0 in enumerate(start_times):
        t_stop = stop_times[k] if k < len(stop_times) else horizon
        t = t0
        done = False
        while not done:
            t += PERIOD
            if t >= t_stop:
                break
            nfail = 0
            while True:
                if t >= t_stop:
                    done = True
                    break
                o = outs[i] if i < len(outs) else "G"
                i += 1
                reqs.append(t)
                if o == "G":
                    done = True
                    break
                if o == "R":
                    fails.append(t)
                    done = True
                    break
                if o == "S":
                    break
                if o == "N":
                    t += 10.0
                    if t >= t_stop:
                        # cancelled while waiting for the response
                        done = True
                        break
                nfail += 1
                if nfail == 4:
                    fails.append(t)
                    done = True
                    break
    return reqs, fails


def selftest(ctx) -> None:
    P = PERIOD
    assert model("S", [0.0], [], 1000) == ([P, 2 * P], [])
    assert model("FFFF", [0.0], [], 1000) == ([P] * 4, [P])
    assert model("FFFSFFFF", [0.0], [], 1000) == ([P] * 4 + [2 * P] * 4, [2 * P])
    assert model("NNNN", [0.0], [], 1000) == ([P, P + 10, P + 20, P + 30], [P + 40])
    assert model("R", [0.0], [], 1000) == ([P], [P])
    assert model("SS", [0.0, P + 40], [P + 30], 1000) == ([P, 2 * P + 40, 3 * P + 40], [])


def execute(outs: str, starts: list[float], stops: list[float], horizon: float):
    """Run the real heartbeat; returns (request_times, failure_times, escaped, alive_task)."""
    from xknx.exceptions import CommunicationError
    from xknx.io.data_connection import ConnectionHeartbeat

    reqs: list[float] = []
    fails: list[float] = []
    idx = [0]

    async def scenario(loop):
        async def send():
            reqs.append(round(loop.time(), 6))
            o = outs[idx[0]] if idx[0] < len(outs) else "G"
            idx[0] += 1
            if o == "S":
                return True, None
            if o == "F":
                return False, "E_CONNECTION_ID"
            if o == "N":
                await asyncio.sleep(10.0)
                return False, None
            if o == "R":
                raise CommunicationError("scripted")
            return None

        async def on_failure():
            fails.append(round(loop.time(), 6))

        hb = ConnectionHeartbeat("verif", send, on_failure)
        events = sorted([(t, 0, "start") for t in starts] + [(t, 1, "stop") for t in stops])
        now = 0.0
        for t, _, what in events:
            if t > now:
                await asyncio.sleep(t - now)
                now = t
            if what == "start":
                hb.start()
            else:
                hb.stop()
        if horizon > now:
            await asyncio.sleep(horizon - now)
        hb.stop()
        await asyncio.sleep(PERIOD * 3)
        return None

    _, loop = run_case(scenario, max_iters=200_000)
    return reqs, fails, loop.escaped


def check_case(ctx, outs: str, starts: list[float], stops: list[float], horizon: float) -> None:
    inp = {"outs": outs, "starts": starts, "stops": stops, "horizon": horizon}
    try:
        reqs, fails, escaped = execute(outs, starts, stops, horizon)
    except (BudgetExceeded, Deadlock) as e:
        ctx.notes["inconclusive"] = ctx.notes.get("inconclusive", 0) + 1
        return
    except Exception as e:  # noqa: BLE001
        ctx.fail(f"C26:exc:{exc_site(e)}", inp, repr(e))
        return
    exp_reqs, exp_fails = model(outs, starts, stops, horizon)
    if escaped:
        ctx.fail(f"C26:escaped:{type(escaped[0]['exception']).__name__}", inp, escaped[0]["repr"])
    if fails != exp_fails:
        kind = "missing" if len(fails) < len(exp_fails) else ("extra" if len(fails) > len(exp_fails) else "time")
        ctx.fail(f"C26:on_failure:{kind}", inp, f"on_failure at {fails}, reference {exp_fails}; requests {reqs}")
    elif reqs != exp_reqs:
        kind = "count" if len(reqs) != len(exp_reqs) else "time"
        ctx.fail(f"C26:requests:{kind}", inp, f"requests at {reqs}, reference {exp_reqs}")


def _enum_shard(ctx, length: int, prefix: str) -> None:
    n = nt = 0
    for tail in itertools.product(ALPHABET, repeat=length - len(prefix)):
        outs = prefix + "".join(tail)
        check_case(ctx, outs, [0.0], [], 2000.0)
        n += 1
        if any(c in outs for c in "FNR"):
            nt += 1
    ctx.bulk(n, nt, f"enum-len{length}")
    ctx.sample({"outs": prefix + ALPHABET[1] * (length - len(prefix)), "model": model(prefix + ALPHABET[1] * (length - len(prefix)), [0.0], [], 2000.0)})


# sampled: longer sequences with stop/restart
_times = st.integers(0, 160).map(lambda k: k * 2.5 + 1.25)  # never coincides with a request instant


@st.composite
def histories(draw):
    outs = draw(st.text(alphabet="SSFFFNRG", min_size=0, max_size=14))
    n_restarts = draw(st.integers(0, 2))
    ts = sorted(draw(st.lists(_times, min_size=2 * n_restarts, max_size=2 * n_restarts, unique=True)))
    starts = [0.0] + ts[1::2]
    stops = ts[0::2]
    horizon = draw(st.sampled_from([500.0, 1000.0, 2000.0]))
    if ts and horizon <= ts[-1]:
        horizon = ts[-1] + 300.0
    return outs, starts, stops, horizon


def _hyp_oracle(ctx, h) -> None:
    outs, starts, stops, horizon = h
    check_case(ctx, outs, starts, stops, horizon)
    ctx.case(
        (outs, tuple(starts), tuple(stops), horizon),
        nontrivial=any(c in outs for c in "FNR"),
        cls=["restarts=%d" % (len(starts) - 1), "len>8" if len(outs) > 8 else "len<=8"],
        sample={"outs": outs, "starts": starts, "stops": stops} if len(outs) > 6 else None,
    )


def _hyp_shard(ctx, n: int) -> None:
    hyp_search(ctx, histories(), _hyp_oracle, n)


# ---------------------------------------------------------------------------
# Tunnel level: the real UDPTunnel's heartbeat against the simulated gateway.

NET = 0.005  # simulated one-way network delay (vk.simgw.NET_DELAY)
REQ_TIMEOUT = 10.0


def tunnel_model(plan: str, auto_reconnect: bool, horizon: float):
    """Expected client->server control frames as (kind, time): hb / disc / connect."""
    ev = [("connect", 0.0)]
    t_up = NET  # handshake delivered
    i = 0
    while True:
        t = t_up
        lost = False
        while not lost:
            t += PERIOD
            if t >= horizon:
                return ev
            nfail = 0
            while True:
                o = plan[i] if i < len(plan) else "o"
                i += 1
                ev.append(("hb", t))
                if o == "o":
                    t += NET
                    break
                t += NET if o == "e" else REQ_TIMEOUT
                nfail += 1
                if nfail == 4:
                    lost = True
                    break
                if t >= horizon:
                    return ev
        # connection declared lost at t
        ev.append(("disc", t))
        if not auto_reconnect:
            return ev
        ev.append(("connect", t + NET))
        t_up = t + 2 * NET


def tunnel_execute(plan: str, auto_reconnect: bool, horizon: float):
    from xknx import XKNX
    from xknx.io.tunnel import UDPTunnel

    from vk.simgw import GW_ADDR, SimGateway

    gw = SimGateway()
    gw.hb_plan = [{"o": "ok", "e": "err", "d": "drop"}[c] for c in plan]

    async def scenario(loop):
        gw.attach(loop)
        xknx = XKNX()
        tunnel = UDPTunnel(xknx, lambda raw: None, gateway_ip=GW_ADDR[0], gateway_port=GW_ADDR[1], local_ip="10.0.0.2", auto_reconnect=auto_reconnect, auto_reconnect_wait=3)
        await tunnel.connect()
        await asyncio.sleep(horizon - loop.time())
        t_disc = loop.time()
        try:
            await tunnel.disconnect()
        except Exception:  # noqa: BLE001
            pass
        await asyncio.sleep(3 * PERIOD)
        xknx.started.clear()
        return t_disc

    t_disc, loop = run_case(scenario, max_iters=200_000)
    if gw.errors:
        from vk.core import HarnessError

        raise HarnessError("simulator error: " + gw.errors[0])
    names = {"ConnectionStateRequest": "hb", "DisconnectRequest": "disc", "ConnectRequest": "connect"}
    ev = [(names[e["kind"]], e["t"]) for e in gw.log if e["dir"] == "c2s" and e["kind"] in names]
    return ev, t_disc, loop.escaped


def check_tunnel_case(ctx, plan: str, auto_reconnect: bool) -> None:
    horizon = (len(plan) + 2) * (PERIOD + 4 * REQ_TIMEOUT) + 1.234
    inp = {"tunnel_hb_plan": plan, "auto_reconnect": auto_reconnect}
    try:
        ev, t_disc, escaped = tunnel_execute(plan, auto_reconnect, horizon)
    except (BudgetExceeded, Deadlock):
        ctx.notes["inconclusive"] = ctx.notes.get("inconclusive", 0) + 1
        return
    exp = tunnel_model(plan, auto_reconnect, horizon)
    for e in escaped:
        ctx.fail(f"C26:tunnel-escaped:{type(e['exception']).__name__}", inp, e["repr"])
    before = [(k, t) for k, t in ev if t < t_disc - 1e-9]
    after = [(k, t) for k, t in ev if t >= t_disc - 1e-9]
    if any(k in ("hb", "connect") for k, _ in after):
        ctx.fail("C26:tunnel-heartbeat-after-disconnect", inp, f"frames after user disconnect at {t_disc}: {after}")
    same = len(before) == len(exp) and all(a[0] == b[0] and abs(a[1] - b[1]) < 1e-6 for a, b in zip(before, exp))
    if not same:
        nb, ne = sum(k == "disc" for k, _ in before), sum(k == "disc" for k, _ in exp)
        kind = "gave-up-count" if nb != ne else "request-times"
        ctx.fail(f"C26:tunnel:{kind}", inp, f"control frames {before[:14]} ... reference {exp[:14]}")


def _tunnel_shard(ctx, length: int, first: str) -> None:
    n = nt = 0
    for rest in itertools.product("oed", repeat=max(0, length - 1)):
        plan = (first + "".join(rest))[:length]
        for ar in (True, False):
            check_tunnel_case(ctx, plan, ar)
            n += 1
            nt += 1 if plan.strip("o") else 0
    ctx.bulk(n, nt, f"tunnel-len{length}")
    ctx.sample({"tunnel_hb_plan": plan, "model": tunnel_model(plan, True, 900.0)[:8]})


def run(ctx) -> None:
    if not (0 < PERIOD and PERIOD + 4 * 10 <= 120):
        ctx.fail("C26:period-exceeds-alive-time", {"period": PERIOD}, f"heartbeat period {PERIOD} s + 4 x 10 s > 120 s CONNECTION_ALIVE_TIME")
    maxlen = ctx.n(6, 8)
    jobs = []
    for length in range(0, maxlen + 1):
        if length <= 3:
            jobs.append((length, ""))
        else:
            for p in itertools.product(ALPHABET, repeat=2):
                jobs.append((length, "".join(p)))
    parallel(ctx, _enum_shard, jobs)
    parallel(ctx, _hyp_shard, [(ctx.n(150, 2500),)] * 8)
    tl = ctx.n(5, 8)
    parallel(ctx, _tunnel_shard, [(0, "o")] + [(length, f) for length in range(1, tl + 1) for f in "oed"])
    ctx.notes["tunnel_level_exhaustive_up_to_length"] = tl
    ctx.exhaustive = False
    ctx.notes["exhaustive_up_to_length"] = maxlen


def replay(ctx, case) -> None:
    if "tunnel_hb_plan" in case:
        check_tunnel_case(ctx, case["tunnel_hb_plan"], bool(case["auto_reconnect"]))
        return
    check_case(ctx, case["outs"], [float(x) for x in case["starts"]], [float(x) for x in case["stops"]], float(case["horizon"]))
