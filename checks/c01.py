"""C01 - addresses survive text and wire round trips in every notation.

(a) exhaustive: all 65,536 raw values x {IndividualAddress, GroupAddress x LONG/SHORT/FREE}
    against reference renderings / bit packings written from the KNX address layouts;
(b) constructed near-miss texts + Hypothesis text fuzz (ASCII / Unicode digits, separators,
    prefixes, whitespace) and (c) non-string objects, through IndividualAddress, GroupAddress,
    InternalGroupAddress and parse_device_group_address: the only allowed outcomes are
    CouldNotParseAddress or an address that renders and re-parses to itself in all notations.
"""

from __future__ import annotations

import gc

from hypothesis import strategies as st

from vk.core import exc_site
from vk.engine import hyp_search, parallel
from xknx.exceptions import CouldNotParseAddress
from xknx.telegram import address as A

PROPERTY = "C01"
LEVEL = "exploration"
TECHNIQUE = "exhaustive enumeration vs reference bit layout + property-based text fuzzing (Hypothesis)"
LEVEL_TEXT = (
    "Every one of the 65,536 raw values was rendered, re-parsed, serialised and re-read for individual "
    "addresses and for group addresses in each of the three notations (exhaustive: true for that part); "
    "malformed / unusual constructor inputs are sampled (generated search, can refute, not prove)."
)
LEVEL_NOTE = (
    "Reference renderings (area.line.device = 4/4/8 bits, main/middle/sub = 5/3/8 bits, main/sub = 5/11 bits, "
    "free = decimal) are written in this module and self-tested on literal vectors; the accepted language of "
    "the text parsers is not specified by the property and is not judged, only stability and the error class."
)
RULE = (
    "exhaustive: 65,536 raw values x 4 (type, notation) configurations, each parsed from the reference text "
    "of all notations (distinct by construction, all counted non-trivial); text/object inputs: constructed "
    "near-misses, Hypothesis texts over digits/Unicode digits/separators/prefixes/whitespace and a table of "
    "non-string objects; an input is non-trivial when it is accepted from non-canonical text, is a rejected "
    "text containing a digit or an internal prefix, contains a non-ASCII digit, or is not a string"
)
ASSUMPTIONS = [
    "GroupAddress.address_format is the only configuration that influences rendering; it is set per case and restored",
    "which malformed texts are accepted is unspecified; only 'CouldNotParseAddress or a stable address' is required",
    "parse_device_group_address must not return the broadcast group address 0 (its documented rejection)",
]

FORMATS = {"LONG": A.GroupAddressType.LONG, "SHORT": A.GroupAddressType.SHORT, "FREE": A.GroupAddressType.FREE}


# --------------------------------------------------------------------------- reference
def ref_ia_fields(raw: int) -> tuple[int, int, int]:
    return (raw >> 12) & 0xF, (raw >> 8) & 0xF, raw & 0xFF


def ref_ia_text(raw: int) -> str:
    a, l, d = ref_ia_fields(raw)
    return f"{a}.{l}.{d}"


def ref_ga_text(raw: int, fmt: str) -> str:
    if fmt == "LONG":
        return f"{(raw >> 11) & 0x1F}/{(raw >> 8) & 0x7}/{raw & 0xFF}"
    if fmt == "SHORT":
        return f"{(raw >> 11) & 0x1F}/{raw & 0x7FF}"
    return str(raw)


def ref_ga_fields(raw: int, fmt: str):
    if fmt == "LONG":
        return (raw >> 11) & 0x1F, (raw >> 8) & 0x7, raw & 0xFF
    if fmt == "SHORT":
        return (raw >> 11) & 0x1F, None, raw & 0x7FF
    return None, None, raw


def ref_wire(raw: int) -> bytes:
    return bytes((raw >> 8, raw & 0xFF))


def selftest(ctx) -> None:
    assert ref_ga_text(2563, "LONG") == "1/2/3"
    assert ref_ga_text(2563, "SHORT") == "1/515"
    assert ref_ga_text(2563, "FREE") == "2563"
    assert ref_ga_text(65535, "LONG") == "31/7/255" and ref_ga_text(65535, "SHORT") == "31/2047"
    assert ref_ga_text(0, "LONG") == "0/0/0" and ref_ga_text(0, "SHORT") == "0/0"
    assert ref_ia_text(0x1203) == "1.2.3" and ref_ia_text(65535) == "15.15.255" and ref_ia_text(0) == "0.0.0"
    assert ref_wire(0x1203) == b"\x12\x03" and ref_wire(65535) == b"\xff\xff"
    assert ref_ga_fields(0x0A03, "SHORT") == (1, None, 0x203)
    # packing is a bijection onto 0..65535
    assert len({ref_ga_text(r, "LONG") for r in range(65536)}) == 65536
    assert len({ref_ga_text(r, "SHORT") for r in range(65536)}) == 65536
    assert len({ref_ia_text(r) for r in range(65536)}) == 65536


# --------------------------------------------------------------------------- (a) exhaustive
def check_raw(ctx, kind: str, fmt: str | None, raw: int) -> None:
    """One raw value; GroupAddress.address_format already set by the caller when kind == 'GA'."""
    inp = {"kind": kind, "fmt": fmt, "raw": raw}
    tag = f"{kind}:{fmt}" if fmt else kind
    try:
        if kind == "IA":
            a = A.IndividualAddress(raw)
            text = str(a)
            if text != ref_ia_text(raw):
                ctx.fail(f"C01:render:{tag}", inp, f"str -> {text!r}, reference {ref_ia_text(raw)!r}")
            if (a.area, a.main, a.line) != ref_ia_fields(raw):
                ctx.fail(f"C01:fields:{tag}", inp, f"fields {(a.area, a.main, a.line)} reference {ref_ia_fields(raw)}")
            back = A.IndividualAddress(text)
            if back != a or back.raw != raw:
                ctx.fail(f"C01:text-roundtrip:{tag}", inp, f"{text!r} parsed to raw {back.raw}")
            b2 = A.IndividualAddress(ref_ia_text(raw))
            if b2.raw != raw:
                ctx.fail(f"C01:parse-ref-text:{tag}", inp, f"{ref_ia_text(raw)!r} parsed to raw {b2.raw}")
            b3 = A.IndividualAddress(str(raw))
            if b3.raw != raw:
                ctx.fail(f"C01:parse-ref-text:{tag}<-decimal", inp, f"{str(raw)!r} parsed to raw {b3.raw}")
            cls = A.IndividualAddress
        else:
            a = A.GroupAddress(raw)
            text = str(a)
            if text != ref_ga_text(raw, fmt):
                ctx.fail(f"C01:render:{tag}", inp, f"str -> {text!r}, reference {ref_ga_text(raw, fmt)!r}")
            if (a.main, a.middle, a.sub) != ref_ga_fields(raw, fmt):
                ctx.fail(f"C01:fields:{tag}", inp, f"fields {(a.main, a.middle, a.sub)} reference {ref_ga_fields(raw, fmt)}")
            back = A.GroupAddress(text)
            if back != a or back.raw != raw:
                ctx.fail(f"C01:text-roundtrip:{tag}", inp, f"{text!r} parsed to raw {back.raw}")
            for f2 in FORMATS:  # text of every notation parses to the same address under this notation
                t2 = ref_ga_text(raw, f2)
                b2 = A.GroupAddress(t2)
                if b2.raw != raw or b2 != a:
                    ctx.fail(f"C01:parse-ref-text:{tag}<-{f2}", inp, f"{t2!r} parsed to raw {b2.raw}")
            cls = A.GroupAddress
        wire = a.to_knx()
        if not isinstance(wire, bytes) or len(wire) != 2 or wire != ref_wire(raw):
            ctx.fail(f"C01:wire-encode:{kind}", inp, f"to_knx -> {wire!r}, reference {ref_wire(raw)!r}")
        back = cls.from_knx(ref_wire(raw))
        if back != a or back.raw != raw or type(back) is not cls:
            ctx.fail(f"C01:wire-roundtrip:{kind}", inp, f"from_knx -> raw {back.raw}")
        if hash(back) != hash(a):
            ctx.fail(f"C01:hash:{kind}", inp, "equal addresses hash differently")
    except Exception as e:  # noqa: BLE001
        ctx.fail(f"C01:exhaustive-exc:{tag}:{exc_site(e)}", inp, repr(e))


def _exhaustive_job(ctx, kind: str, fmt: str | None, lo: int, hi: int) -> None:
    saved = A.GroupAddress.address_format
    try:
        if fmt:
            A.GroupAddress.address_format = FORMATS[fmt]
        for raw in range(lo, hi):
            check_raw(ctx, kind, fmt, raw)
        ctx.bulk(hi - lo, hi - lo, f"exhaustive:{kind}:{fmt}" if fmt else f"exhaustive:{kind}")
        if lo == 0:
            for raw in (0, 1, 2563):
                ctx.sample({"kind": kind, "fmt": fmt, "raw": raw, "text": ref_ga_text(raw, fmt) if fmt else ref_ia_text(raw)})
    finally:
        A.GroupAddress.address_format = saved


# --------------------------------------------------------------------------- (b)/(c) arbitrary input
class _StrSub(str):
    pass


class _IntSub(int):
    pass


def _objects() -> dict:
    return {
        "None": None,
        "1.0": 1.0,
        "nan": float("nan"),
        "inf": float("inf"),
        "bytes 1/2/3": b"1/2/3",
        "bytes 2 octets": b"\x12\x03",
        "bytearray": bytearray(b"1.1.1"),
        "True": True,
        "False": False,
        "-1": -1,
        "0": 0,
        "1": 1,
        "65535": 65535,
        "65536": 65536,
        "2**31": 2**31,
        "10**30": 10**30,
        "-10**30": -(10**30),
        "tuple": (1, 2, 3),
        "list": [1, 2, 3],
        "dict": {},
        "set": {1},
        "complex": 1j,
        "object": object(),
        "type": int,
        "GroupAddress(1)": A.GroupAddress(1),
        "GroupAddress(0)": A.GroupAddress(0),
        "GroupAddress(65535)": A.GroupAddress(65535),
        "IndividualAddress(1)": A.IndividualAddress(1),
        "IndividualAddress(0)": A.IndividualAddress(0),
        "InternalGroupAddress(i-1)": A.InternalGroupAddress("i-1"),
        "strsub 1/2/3": _StrSub("1/2/3"),
        "strsub i-x": _StrSub("i-x"),
        "intsub 5": _IntSub(5),
        "intsub 70000": _IntSub(70000),
        "GroupAddressType.LONG": A.GroupAddressType.LONG,
    }


TARGETS = (
    ("IndividualAddress", A.IndividualAddress),
    ("GroupAddress", A.GroupAddress),
    ("InternalGroupAddress", A.InternalGroupAddress),
    ("parse_device_group_address", A.parse_device_group_address),
)

_ASCII_DIGITS = set("0123456789")


def _has_nonascii_digit(s: str) -> bool:
    return any((c.isdigit() or c.isnumeric()) and c not in _ASCII_DIGITS for c in s)


def _stable(ctx, name: str, fn, result, inp) -> None:
    """Accepted value must render and re-parse to itself in all three notations."""
    for fname, fmt in FORMATS.items():
        A.GroupAddress.address_format = fmt
        try:
            text = str(result)
            again = fn(text)
        except Exception as e:  # noqa: BLE001
            if isinstance(result, A.BaseAddress) and type(result.raw) is not int:
                # one root cause whatever the entry point: the constructor stores a bool / int subclass
                # unnormalised and the FREE rendering prints it ("True")
                ctx.fail(f"C01:accepted-nonint-raw-unstable:{type(result).__name__}", inp, f"accepted with raw={result.raw!r}, renders {_try_str(result)!r} in {fname}; re-parse raised {e!r}")
            else:
                ctx.fail(f"C01:accepted-not-reparsable:{name}:{fname}", inp, f"accepted as {result!r}; re-parse raised {e!r}")
            continue
        if again != result or type(again) is not type(result) or str(again) != text:
            ctx.fail(f"C01:accepted-not-stable:{name}:{fname}", inp, f"accepted as {result!r}, renders {text!r}, re-parses to {again!r}")


def check_input(ctx, x, inp, origin: str) -> None:
    """Arbitrary constructor input through the four parsers."""
    saved = A.GroupAddress.address_format
    is_text = isinstance(x, str) and type(x) is str
    accepted = []
    noncanonical = False
    try:
        for name, fn in TARGETS:
            A.GroupAddress.address_format = saved
            try:
                r = fn(x)
            except CouldNotParseAddress:
                continue
            except RecursionError:
                ctx.fail(f"C01:exc:RecursionError:{name}", inp, "RecursionError")
                continue
            except Exception as e:  # noqa: BLE001
                ctx.fail(f"C01:exc:{exc_site(e)}", inp, f"{name}({_short(x)}) raised {type(e).__name__}: {str(e)[:120]}")
                continue
            accepted.append(name)
            if isinstance(r, A.BaseAddress):
                raw = r.raw
                if not isinstance(raw, int) or not 0 <= raw <= 65535:
                    ctx.fail(f"C01:accepted-out-of-range:{name}", inp, f"accepted with raw={raw!r}")
                    continue
                try:
                    wire = r.to_knx()
                    if wire != ref_wire(int(raw)) or type(r).from_knx(wire) != r:
                        ctx.fail(f"C01:accepted-wire:{name}", inp, f"raw {raw} -> {wire!r}")
                except Exception as e:  # noqa: BLE001
                    ctx.fail(f"C01:accepted-wire-exc:{name}:{exc_site(e)}", inp, repr(e))
                if is_text:
                    canon = {ref_ia_text(raw)} if isinstance(r, A.IndividualAddress) else {ref_ga_text(raw, f) for f in FORMATS}
                    noncanonical |= x not in canon
            elif isinstance(r, A.InternalGroupAddress):
                if not isinstance(r.raw, str):
                    ctx.fail(f"C01:accepted-bad-internal:{name}", inp, f"raw={r.raw!r}")
                    continue
                if is_text:
                    noncanonical |= x != r.raw
            else:
                ctx.fail(f"C01:accepted-wrong-type:{name}", inp, f"returned {r!r}")
                continue
            if name == "parse_device_group_address" and isinstance(r, A.GroupAddress) and r.raw == 0:
                ctx.fail("C01:device-broadcast-accepted", inp, "parse_device_group_address returned group address 0")
                continue
            if name == "GroupAddress" and type(r) is not A.GroupAddress or name == "IndividualAddress" and type(r) is not A.IndividualAddress or name == "InternalGroupAddress" and type(r) is not A.InternalGroupAddress:
                ctx.fail(f"C01:accepted-wrong-type:{name}", inp, f"returned {r!r}")
                continue
            _stable(ctx, name, fn, r, inp)
    finally:
        A.GroupAddress.address_format = saved
    # ---- accounting
    if not is_text:
        ctx.case(("obj", repr(inp)), True, ["non-string", "non-string:accepted" if accepted else "non-string:rejected"], sample=inp if origin != "hyp" else None)
        return
    uni = _has_nonascii_digit(x)
    has_digit = any(c.isdigit() for c in x)
    labels = [f"text:{origin}"]
    if uni:
        labels.append("text:unicode-digit")
    if accepted:
        labels.append("text:accepted-noncanonical" if noncanonical else "text:accepted-canonical")
        nontrivial = noncanonical or uni
    else:
        nontrivial = has_digit or uni or x[:1] in ("i", "I")
        labels.append("text:rejected-near-miss" if nontrivial else "text:rejected-other")
    ctx.case(("text", x), nontrivial, labels)
    if nontrivial and len(x) < 40:
        ctx.sample({"text": x, "accepted_by": accepted})


def _try_str(x) -> str:
    try:
        return str(x)
    except Exception as e:  # noqa: BLE001
        return f"<str raised {type(e).__name__}>"


def _short(x) -> str:
    r = repr(x)
    return r if len(r) <= 40 else r[:20] + f"...<{len(r)} chars>"


# --------------------------------------------------------------------------- constructed near-misses
def constructed_texts() -> list[str]:
    out: list[str] = []

    def variants(fields: list[int], sep: str) -> None:
        plain = sep.join(str(f) for f in fields)
        out.append(plain)
        out.append(plain + "\n")
        out.append(sep.join("0" + str(f) for f in fields))
        out.append(sep.join(str(f).zfill(4) for f in fields))

    for main in (0, 1, 31, 32, 99, 100):
        for sub in (0, 1, 255, 256, 2047, 2048, 9999, 10000, 65535, 65536):
            variants([main, sub], "/")
            for middle in (0, 7, 8, 9, 99, 100):
                variants([main, middle, sub], "/")
    for area in (0, 1, 15, 16, 99, 100):
        for line in (0, 15, 16, 99, 100):
            for dev in (0, 1, 255, 256, 999, 1000):
                variants([area, line, dev], ".")
    for v in (0, 1, 255, 256, 2047, 2048, 65534, 65535, 65536, 65537, 99999, 2**32, 10**20):
        out += [str(v), "0" + str(v), "000000000000" + str(v), " " + str(v), str(v) + " ", str(v) + "\n", "-" + str(v), "+" + str(v), str(v) + ".0", hex(v), f"{v:_}"]
    for n in list(range(1, 12)) + [100, 1000, 4299, 4300, 4301, 5000]:
        out += ["1" * n, "0" * n, "0" * n + "7", "1" * n + "/1/1", "1/1/" + "1" * n, "1.1." + "1" * n, "1" * n + ".1.1"]
    out += ["", " ", "\n", "/", ".", "//", "..", "1/", "/1", "1//1", "/1/1", "1/1/", "1/2/3/4", "1/2/3/4/5", "1.2", "1.2.3.4", "1.", ".1", "1..1",
            "1/2.3", "1.2/3", "1,2,3", "1-2-3", "1 /2/3", "1/ 2/3", "1/2/3 ", " 1/2/3", "1/2/3\n\n", "\n1/2/3", "1/2/3\r", "1/2/3\r\n", "1/2/3\x00", "1.1.1\n", "1.1.1\n\n",
            "1/2/3 ", "1/-2/3", "1/+2/3", "1/2/0x3", "1/2/3e0", "a/b/c", "1/a/3", "*/*/*", "1/*/3",
            "²", "³/1/1", "1/²/1", "1/1/²", "².1.1", "1.1.²", "①", "１", "１/２/３", "１.２.３", "٣", "٣/٣/٣", "٣.٣.٣", "৩", "৩/1", "1٣", "²²²", "१२३", "𝟏𝟐𝟑", "𝟏/𝟐/𝟑", "Ⅷ", "½", "1/½/3", "一", "〇",
            "i", "I", "i-", "i_", "i- ", "i-  \n", "i-1", "i_1", "i1", "I-1", "I_1", "I1", "i--", "i-_", "i__", "i -", "i - x", "i-x ", "i- x", "i-\tx\n", "i-1/2/3", "i-²", "ii", "i-i-x", "i\x00", "i-\x00",
            "i-" + "x" * 5000, "I" + "9" * 5000, "x-1", "-i1", " i-1", "i\n1"]
    seen = set()
    uniq = []
    for t in out:
        if t not in seen:
            seen.add(t)
            uniq.append(t)
    return uniq


# --------------------------------------------------------------------------- Hypothesis texts
_UNI_DIGITS = "٣١１２²³①৩१𝟏½Ⅷ"
_ALPHA = "0123456789" * 3 + _UNI_DIGITS + "//..--__iI" + " \n\t\r" + "ax*+,"
_BOUNDARY = [0, 1, 7, 8, 15, 16, 31, 32, 99, 100, 255, 256, 999, 1000, 2047, 2048, 9999, 10000, 65535, 65536]
_FULLWIDTH = {ord(str(d)): 0xFF10 + d for d in range(10)}
_ARABIC = {ord(str(d)): 0x0660 + d for d in range(10)}
_SUPER = {ord("1"): ord("¹"), ord("2"): ord("²"), ord("3"): ord("³")}


@st.composite
def structured_text(draw) -> str:
    n = draw(st.integers(1, 4))
    fields = []
    for _ in range(n):
        v = draw(st.one_of(st.sampled_from(_BOUNDARY), st.integers(0, 70000)))
        s = str(v)
        z = draw(st.sampled_from([0, 0, 0, 1, 2, 5]))
        fields.append("0" * z + s)
    sep = draw(st.sampled_from(["/", "/", ".", ".", "-", ",", " / "]))
    if draw(st.booleans()) and n > 1:
        seps = [draw(st.sampled_from(["/", ".", "//", ""])) for _ in range(n - 1)]
    else:
        seps = [sep] * (n - 1)
    body = fields[0] + "".join(s_ + f for s_, f in zip(seps, fields[1:]))
    tr = draw(st.sampled_from([None, None, None, _FULLWIDTH, _ARABIC, _SUPER]))
    if tr:
        body = body.translate(tr)
    pre = draw(st.sampled_from(["", "", "", "", " ", "\n", "i-", "i", "I_", "-", "+"]))
    suf = draw(st.sampled_from(["", "", "", "", "\n", " ", "\r\n", "/", ".", "\x00"]))
    return pre + body + suf


TEXTS = st.one_of(
    st.text(alphabet=st.sampled_from(_ALPHA), max_size=12),
    structured_text(),
    st.text(max_size=8),
)


def _hyp_oracle(ctx, x: str) -> None:
    check_input(ctx, x, {"text": x}, "hyp")


def _hyp_job(ctx, n: int) -> None:
    hyp_search(ctx, TEXTS, _hyp_oracle, n)


# --------------------------------------------------------------------------- run / replay
def run(ctx) -> None:
    # (a) exhaustive value space, 16 jobs
    jobs = []
    step = 16384
    for kind, fmt in (("IA", None), ("GA", "LONG"), ("GA", "SHORT"), ("GA", "FREE")):
        for lo in range(0, 65536, step):
            jobs.append((kind, fmt, lo, lo + step))
    gc.collect()
    gc.freeze()  # keep the forked workers' collectors off the shared heap (copy-on-write storms)
    parallel(ctx, _exhaustive_job, jobs)
    ctx.exhaustive = True
    ctx.notes["exhaustive_part"] = "65,536 raw values x {IndividualAddress, GroupAddress LONG/SHORT/FREE}; text/object inputs are sampled"
    # (b) constructed near-misses, (c) non-strings
    texts = constructed_texts()
    for t in texts:
        check_input(ctx, t, {"text": t}, "constructed")
    for label, obj in _objects().items():
        check_input(ctx, obj, {"obj": label}, "object")
    ctx.notes["constructed_texts"] = len(texts)
    # (b) Hypothesis
    total = ctx.n(32000, 520000)
    shards = 16
    try:
        parallel(ctx, _hyp_job, [(total // shards,)] * shards)
    finally:
        gc.unfreeze()


def replay(ctx, case) -> None:
    if "raw" in case:
        saved = A.GroupAddress.address_format
        try:
            if case.get("fmt"):
                A.GroupAddress.address_format = FORMATS[case["fmt"]]
            check_raw(ctx, case["kind"], case.get("fmt"), int(case["raw"]))
            ctx.case(("raw", case["kind"], case.get("fmt"), int(case["raw"])), True, "replay:raw")
        finally:
            A.GroupAddress.address_format = saved
    elif "text" in case:
        check_input(ctx, case["text"], {"text": case["text"]}, "replay")
    elif "obj" in case:
        objs = _objects()
        if case["obj"] in objs:
            check_input(ctx, objs[case["obj"]], {"obj": case["obj"]}, "replay")
