"""C16 - tampered Data Secure frames are never delivered.

For every generated secured frame (sender harness of C15): every single-bit flip of every
octet, every truncation (plain and with the NPDU length octet corrected), and receivers
holding a different key. Each bit is classified by the independent cEMI layout reference;
a fresh receiver (XKNX + DataSecure) is used for every variant so freshness never interferes.
"""

from __future__ import annotations

from checks import c15 as H
from vk.core import exc_site
from vk.engine import hyp_search, parallel
from vk.ref import cemi_layout as L
from vk.strategies import cemi as S

PROPERTY = "C16"
LEVEL = "fault_enumeration"
TECHNIQUE = "exhaustive single-bit fault enumeration per generated frame (Hypothesis-generated frames), bits classified by an independent layout reference"
RULE = (
    "generated secured group frames (both algorithms, T_Data_Group / T_Data_Tag_Group, random key / addresses / sequence number / "
    "flags, plain APDU 2..122 octets in the quick tier, 2..240 in thorough; 4 of 10 frames carry a payload ending in 1..3 octets 0x00 "
    "or all zero, biased to authentication only, plus a deterministic set of such frames); per frame: all 8*len single-bit flips, "
    "all len-1 plain truncations, all truncations with corrected length octet, the secured APDU shortened by every k trailing octets "
    "and extended by 1..16 octets 0x00 / a few non-zero tails (sequence number and MAC kept, length octet corrected), 16+ wrong keys (each single-bit key flip of one octet, random, all-zero). "
    "Every variant differs from the genuine frame, so every evaluation is non-trivial; distinct by construction per frame."
)
ASSUMPTIONS = [
    "bit classes from vk/ref/cemi_layout.py: protected = src, dst, AT, EFF, TPCI, APCI (A_Sec), SCF, sequence number, secured APDU, MAC; "
    "named unprotected = priority, repeat, hop count, frame type; other = message code, additional-info length, NPDU length, "
    "Ctrl1 reserved / system-broadcast / ack / confirm bits",
    "4-octet MAC: a tampered frame passing by chance has probability 2^-32 per variant (not observed; would show up as a violation)",
    "bits outside the protected fields and outside the four named ones (message code, additional-info length, NPDU length, Ctrl1 r/SB/A/C): "
    "no exception; a delivered telegram must equal the original unless the octets now read as an unrelated plain frame (not marked "
    "data_secure, not addressed to the secured group) - such a frame can be injected directly and is outside this property",
    "delivery observed at xknx.telegrams and xknx.management.process (recorder); receiver's last valid sequence number is 0 so that "
    "a flipped sequence number is judged by the MAC and not by freshness",
]
LEVEL_TEXT = "for every generated frame, no single-bit fault in a protected field, truncation or wrong key leads to a delivered telegram; unprotected bits do not affect acceptance"
LEVEL_NOTE = "exhaustive over single-bit faults per frame; frames themselves are sampled; multi-bit faults other than truncation / wrong key are not enumerated"

PROTECTED = frozenset(("src", "dst", "at", "eff", "tpci", "apci", "scf", "seq", "sapdu", "mac"))
UNPROTECTED_NAMED = frozenset(("priority", "repeat", "hop", "ft"))


def receive(spec, raw: bytes, key: bytes | None = None):
    """Fresh receiver; returns (delivered telegrams, exception or None, xknx)."""
    xknx, rec = H.make_receiver(spec, key=key, last_valid=0)
    try:
        xknx.cemi_handler.handle_raw_cemi(raw)
    except Exception as e:  # noqa: BLE001
        return [], e, xknx
    return H.delivered(xknx, rec), None, xknx


def same_telegram(tg, plain) -> bool:
    return (
        tg.payload == plain.payload
        and type(tg.payload) is type(plain.payload)
        and tg.data_secure is True
        and tg.destination_address == plain.dst_addr
        and tg.source_address == plain.src_addr
        and type(tg.tpci) is type(plain.tpci)
    )


def oracle(ctx, spec) -> None:
    spec = H.norm(spec)
    try:
        raw, plain, _apdu = H.secure_frame(spec)
        labels = L.classify_secure_bits(raw)
    except Exception as e:  # noqa: BLE001 - C15's business
        ctx.case(None, nontrivial=False, cls=f"sender-failed(C15):{type(e).__name__}")
        return
    got, exc, _ = receive(spec, raw)
    if exc is not None or len(got) != 1 or not same_telegram(got[0], plain):
        ctx.case(None, nontrivial=False, cls="baseline-not-delivered(C15)")
        return
    ctx.case(repr(sorted(spec.items())), nontrivial=True, cls=("frame", f"alg:{spec['alg']}", f"tpci:{spec['tpci']}", f"frame-len:{len(raw) // 32 * 32}+"))
    ctx.sample({"raw": raw.hex()[:80], "len": len(raw), "alg": spec["alg"], "tpci": spec["tpci"]})

    def inp(kind, arg):
        return {"spec": spec, "variant": [kind, arg]}

    # --- single-bit flips -------------------------------------------------
    for i, lab in enumerate(labels):
        t = L.flip_bit(raw, i)
        got, exc, _ = receive(spec, t)
        if exc is not None:
            ctx.fail(f"C16:exception:{lab}:{exc_site(exc)}", inp("flip", i), f"handle_raw_cemi raised {type(exc).__name__}: {exc} for bit {i} ({lab}) of {raw.hex()}")
            continue
        if lab in PROTECTED:
            if got:
                ctx.fail(f"C16:tampered-delivered:{lab}", inp("flip", i), f"flip of bit {i} ({lab}, octet {i // 8}) delivered {got[0]}; genuine frame {raw.hex()}")
        elif lab in UNPROTECTED_NAMED:
            if len(got) != 1 or not same_telegram(got[0], plain):
                ctx.fail(f"C16:unprotected-bit-affects-acceptance:{lab}", inp("flip", i), f"flip of bit {i} ({lab}) -> {len(got)} delivered {got[:1]}; genuine frame {raw.hex()}")
        elif got and (len(got) != 1 or not same_telegram(got[0], plain)):
            # A flipped additional-info-length / NPDU-length / message-code bit can make the octets read as a
            # DIFFERENT, plain frame (e.g. ciphertext octets read as a point-to-point frame). Anybody can inject
            # such a plain frame directly, so that is no Data Secure failure - unless the delivered telegram is
            # marked data_secure or addressed to the secured group (which accepts no plain data).
            bad = [t for t in got if t.data_secure is not False or t.destination_address == plain.dst_addr]
            if bad:
                ctx.fail(f"C16:other-bit-alters-telegram:{lab}", inp("flip", i), f"flip of bit {i} ({lab}) delivered {bad}; genuine frame {raw.hex()}")
            else:
                ctx.classes[f"reinterpreted-as-unrelated-plain-frame:{lab}"] += 1
    ctx.bulk(len(labels), len(labels), "bit-flip")
    for lab in set(labels):
        ctx.classes["bits:" + lab] += labels.count(lab)
    # --- truncations ------------------------------------------------------
    b = 2 + raw[1]
    n_tr = 0
    for k in range(len(raw)):
        variants = [("trunc", k, raw[:k])]
        if k >= b + 8:
            variants.append(("trunc-fixlen", k, raw[: b + 6] + bytes([k - (b + 8)]) + raw[b + 7 : k]))
        for kind, arg, t in variants:
            n_tr += 1
            got, exc, _ = receive(spec, t)
            if exc is not None:
                known_c12 = len(t) < 2  # b"" and lone message code: C12 findings, guarded - cannot raise here
                ctx.fail(f"C16:exception:{kind}:{exc_site(exc)}", inp(kind, arg), f"handle_raw_cemi raised {type(exc).__name__}: {exc} (C12-known: {known_c12})")
            elif got:
                ctx.fail(f"C16:tampered-delivered:{kind}", inp(kind, arg), f"{kind} to {k} octets delivered {got[0]}; genuine frame {raw.hex()}")
    ctx.bulk(n_tr, n_tr, "truncation")
    # --- secured APDU shortened / extended, sequence number and MAC kept, length octet corrected -----
    # (a MAC that zero-pads without binding the APDU length cannot tell these from the genuine frame)
    head, sapdu, mac = raw[: b + 16], raw[b + 16 : -4], raw[-4:]

    def rebuild(new_sapdu: bytes) -> bytes | None:
        npdu = 1 + 1 + 6 + len(new_sapdu) + 4
        if npdu > 254:
            return None
        return head[: b + 6] + bytes([npdu]) + head[b + 7 :] + new_sapdu + mac

    resized = [("sapdu-drop", k, rebuild(sapdu[: len(sapdu) - k])) for k in range(1, len(sapdu) + 1)]
    resized += [("sapdu-append-zeros", k, rebuild(sapdu + bytes(k))) for k in range(1, 17)]
    fill = bytes([(spec["seq"] & 0xFF) | 1])
    resized += [("sapdu-append-nonzero", k, rebuild(sapdu + bytes(k - 1) + fill)) for k in (1, 2, 3, 16)]
    resized += [("sapdu-append-nonzero", 100 + k, rebuild(sapdu + fill * k)) for k in (1, 2)]
    n_rs = 0
    for kind, arg, t in resized:
        if t is None:
            continue
        n_rs += 1
        got, exc, _ = receive(spec, t)
        if exc is not None:
            ctx.fail(f"C16:exception:{kind}:{exc_site(exc)}", inp(kind, arg), f"handle_raw_cemi raised {type(exc).__name__}: {exc} for {t.hex()}")
        elif got:
            ctx.fail(
                f"C16:tampered-delivered:{kind}:{spec['alg']}",
                inp(kind, arg),
                f"secured APDU {kind} by {arg % 100} octet(s) (sequence number and MAC kept, length octet corrected) delivered {got[0]}; "
                f"tampered {t.hex()} genuine {raw.hex()}",
            )
    ctx.bulk(n_rs, n_rs, "sapdu-resized")
    if sapdu.endswith(b"\x00"):
        ctx.classes["frame:secured-apdu-ends-in-00" if spec["alg"] == "auth" else "frame:plain-apdu-ends-in-00(enc)"] += 1
    # --- wrong keys -------------------------------------------------------
    key = bytes(spec["key"])
    pos = spec["seq"] % 16
    keys = [key[:pos] + bytes([key[pos] ^ (1 << bit)]) + key[pos + 1 :] for bit in range(8)]
    keys += [key[:j] + bytes([key[j] ^ 0x01]) + key[j + 1 :] for j in (0, 15)]
    keys += [bytes(16), bytes([0xFF]) * 16, key[::-1] if key[::-1] != key else bytes(range(16)), bytes((x + 1) & 0xFF for x in key), key[1:] + key[:1] if key[1:] + key[:1] != key else bytes(range(1, 17))]
    keys = [k for k in keys if k != key]
    for j, wk in enumerate(keys):
        got, exc, x = receive(spec, raw, key=wk)
        if exc is not None:
            ctx.fail(f"C16:exception:wrong-key:{exc_site(exc)}", inp("key", wk), f"handle_raw_cemi raised {type(exc).__name__}: {exc}")
        elif got:
            ctx.fail("C16:tampered-delivered:wrong-key", inp("key", wk), f"receiver with key {wk.hex()} delivered {got[0]} (frame key {key.hex()})")
        elif x.connection_manager.undecoded_data_secure != 1:
            ctx.fail("C16:wrong-key-not-counted", inp("key", wk), f"undecoded_data_secure = {x.connection_manager.undecoded_data_secure}")
    ctx.bulk(len(keys), len(keys), "wrong-key")


def replay_variant(ctx, spec, variant) -> None:
    """Re-run a single saved variant (the whole frame is re-enumerated: cheap and keeps one code path)."""
    oracle(ctx, spec)


def specs(max_plain_data: int):
    from hypothesis import strategies as st

    ns = len(S.service_instances())
    return S.secure_specs(n_services=ns, max_plain_data=max_plain_data, zero_tail_share=4).map(lambda s: {**s, "gap": 1})


def _shard(ctx, n: int, max_plain: int) -> None:
    hyp_search(ctx, specs(max_plain), oracle, n, shrink_cap_s=30.0)


def fixed_frames(ctx) -> None:
    """Deterministic frames: shortest / extended-boundary / both algorithms / both TPCIs."""
    for alg in ("enc", "auth"):
        for tp in S.GROUP_TPCI:
            for n in (0, 3, 4):  # secured NPDU 14 / 17: standard and extended frames
                oracle(ctx, {"key": bytes(range(16, 32)), "src": 0x1101, "dst": 0x0400, "tpci": tp, "seq": 0x0000FFFFFFFF, "alg": alg,
                             "payload": ("gvw", bytes(range(n))), "priority": 3, "repeat": False, "ack": False, "hop": 6, "code": 0x29, "gap": 1})  # fmt: skip


def zero_tail_frames(ctx) -> None:
    """Deterministic frames whose plain APDU ends in 0x00 octets / is all zero, both algorithms and TPCIs,
    with the APDU ending inside and exactly at a CBC block boundary (block 0 | 2 length octets | SCF | APDU)."""
    datas = [b"\x05\x00", b"\x07\x00\x00\x00", b"\x00", b"\x00\x00\x00", bytes(10), b"\x01" + bytes(10), bytes(range(1, 9)) + bytes(3), b"\x09" * 11 + bytes(2), bytes(27)]
    for alg in ("auth", "enc"):
        for tp in S.GROUP_TPCI:
            for i, data in enumerate(datas):
                oracle(ctx, {"key": bytes(range(32, 48)), "src": 0x1203, "dst": 0x0900 + i, "tpci": tp, "seq": 0x000100000000 + i, "alg": alg,
                             "payload": ("gvw" if i % 2 else "gvr", data), "priority": 3, "repeat": False, "ack": False, "hop": 6, "code": 0x29, "gap": 1})  # fmt: skip


def selftest(ctx) -> None:
    H.selftest(ctx)  # reference self-tests only
    lab = L.classify_secure_bits(bytes.fromhex("29003ce0400904001103f110002446cfef4ac085e7092ab062b44d"))
    assert set(lab) >= PROTECTED | UNPROTECTED_NAMED, set(lab)


def run(ctx) -> None:
    fixed_frames(ctx)
    zero_tail_frames(ctx)
    parallel(ctx, _shard, [(ctx.n(25, 150), ctx.n(120, 238))] * ctx.n(8, 16))


def replay(ctx, case) -> None:
    oracle(ctx, case["spec"] if "spec" in case else case)
