"""C27 - routing honours busy flow control and the 20 ms indication spacing.

The real `Routing` (xknx/io/routing.py) runs on the virtual-time loop with a stubbed
multicast socket. A history is plain data: RoutingBusy frames (wait time, arrival
offset) interleaved with groups of `send_cemi` calls (several concurrently via tasks, or
one task awaiting several in a row). `random.random` inside xknx.io.routing is replaced
by generated values. Every op gets its own sub-millisecond offset (op index / 64 ms) so
that no two events of different origin ever coincide in virtual time - the oracle never
depends on how the loop breaks ties. The one deliberate exception is the "race" op: a
busy frame delivered (by a loop tick hook) in the loop iteration right after the pause
timer fired, i.e. after the flow control became ready and before the held senders run.

Reference model (written from the property statement, the constants and the docstrings
of routing.py citing KNX 03.08.05 §2.3.5):
  * a RoutingBusy sets the *current pause* unless a pause is running whose remaining
    announced wait time is >= the frame's wait time;
  * N = number of busy frames in the moving window: +1 for a busy frame received while
    pausing more than 10 ms after the previous busy frame; after the pause ended and
    N_at_set x 100 ms passed, -1 every 5 ms;
  * extension = random x N x 50 ms; pause = [t_busy, t_busy + wait + extension).
Oracle on the observed wire log / callback log:
  (1) no RoutingIndication while the current pause runs (separate buckets for the
      announced wait time and for the extension part);
  (2) a pending send leaves as soon as no pause runs and the last indication is 20 ms old;
  (3) consecutive RoutingIndications >= 20 ms apart;
  (4) each send_cemi puts exactly one RoutingIndication (L_Data.ind) on the wire and
      hands exactly one L_Data.con to cemi_received_callback.
"""

from __future__ import annotations

import asyncio
from unittest.mock import patch

from hypothesis import strategies as st

from vk.core import exc_site
from vk.engine import hyp_search, parallel
from vk.vloop import BudgetExceeded, Deadlock, run_case

PROPERTY = "C27"
LEVEL = "exploration"
TECHNIQUE = "Hypothesis-generated histories (busy frames x sequential/concurrent sends) + small exhaustive grid, real Routing on a virtual-time loop vs reference pause model; wire-log oracle"
RULE = (
    "history = up to 12 ops: RoutingBusy(wait 0..3000 ms), a group of 1..4 send_cemi calls (concurrent tasks or one sequential task), or a RoutingBusy racing the end of the running pause (delivered one loop iteration after the pause timer fired), "
    "each after a generated gap (0..400 ms, biased to 0..40 ms so that bursts fall inside and outside the 10 ms cooldown and the 20 ms spacing), random.random drawn per case; "
    "non-trivial = at least one send_cemi was called while a pause was running or less than 20 ms after another indication (i.e. the throttle had to hold a frame back); distinct by history"
)
LEVEL_TEXT = "Generated busy/send histories are executed against the real Routing object in virtual time and the send times of every RoutingIndication and every local L_Data.con are compared with a reference model of the current pause and the 20 ms spacing. Sampled, not exhaustive (a small grid of two-busy-frame schedules is enumerated completely)."
LEVEL_NOTE = "Single-threaded asyncio on a virtual clock; fake multicast transport; events never tie in virtual time by construction; the count N of busy frames in the moving window follows the rule documented in routing.py."
ASSUMPTIONS = [
    "virtual time, fake multicast UDP transport (UDPTransport.create_multicast_sock stubbed); events of different origin never coincide in virtual time (per-op offset of k/64 ms), the only generated tie is the explicit 'race' op (busy frame handled in the loop iteration after the pause timer fired, before the held senders run; scheduled by watching the internal Event, verdict from the wire log only)",
    "random.random in xknx.io.routing replaced by generated values (k-th value for the k-th pause)",
    "the busy-frame count N that scales the random extension is modelled from the constants/docstrings of routing.py (first frame of a pause not counted, +1 per frame >10 ms after the previous while pausing, decay 5 ms steps after N x 100 ms); violations inside the extension part get their own bucket",
    "a busy frame arriving inside the random extension of a pause (announced wait over, extension not) makes the 'remaining time' ambiguous; such histories are only judged for spacing and confirmations",
    "RoutingBusy / RoutingIndication frames are built and parsed by hand from the KNXnet/IP layout (no xknx codec in the oracle); cEMI payloads built with xknx (codec judged by C13)",
]

BASE_T = 1.0  # first op not before 1 s (the throttle's initial 'last sent' is loop time 0)
SPACING = 0.02
COOLDOWN = 0.01
EPS = 1e-9
OFF = 1.0 / 64000.0  # per-op offset: (index+1)/64 ms
PEER = ("10.0.0.9", 3671)


# ---------------------------------------------------------------------------
# frames (by hand)


def busy_frame(wait_ms: int) -> bytes:
    return bytes.fromhex("06100532000c") + bytes((6, 0)) + wait_ms.to_bytes(2, "big") + b"\x00\x00"


def parse_indication(raw: bytes):
    """raw cEMI of a RoutingIndication frame or None."""
    if len(raw) >= 6 and raw[:4] == bytes.fromhex("06100530") and int.from_bytes(raw[4:6], "big") == len(raw):
        return raw[6:]
    return None


def make_cemi(i: int):
    from xknx.cemi import CEMIFrame, CEMILData, CEMIMessageCode
    from xknx.dpt import DPTArray
    from xknx.telegram import GroupAddress, IndividualAddress, Telegram
    from xknx.telegram.apci import GroupValueWrite

    tg = Telegram(destination_address=GroupAddress(0x0900 + i), payload=GroupValueWrite(DPTArray((0xA0, i & 0xFF))))
    return CEMIFrame(code=CEMIMessageCode.L_DATA_REQ, data=CEMILData.init_from_telegram(tg, src_addr=IndividualAddress("1.1.7")))


# ---------------------------------------------------------------------------
# history -> absolute schedule


def schedule(case):
    """[(t, kind, args)] with absolute virtual times; kind busy|conc|seq."""
    out = []
    t_ms = 0
    for i, op in enumerate(case["ops"]):
        kind, dt = op[0], int(op[1])
        t_ms += dt
        out.append((BASE_T + t_ms / 1000.0 + (i + 1) * OFF, kind, int(op[2])))
    return out


def horizon(case, sched) -> float:
    waits = sum(a for _, k, a in sched if k in ("busy", "race"))
    nb = sum(1 for _, k, _ in sched if k in ("busy", "race"))
    ns = sum(a for _, k, a in sched if k not in ("busy", "race"))
    last = sched[-1][0] if sched else BASE_T
    return last + waits / 1000.0 + nb * (nb * 0.05 + 0.2) + ns * SPACING + 1.0


# ---------------------------------------------------------------------------
# reference model


class PauseModel:
    """Current pause + busy-frame counter N, driven by busy arrivals in time order."""

    def __init__(self, rs: list[float]) -> None:
        self.rs = rs
        self.k = 0  # pauses set so far
        self.N = 0
        self.last_busy = None
        self.start = None  # current/last pause
        self.wait_ms = 0
        self.end = None  # start + wait + extension
        self.decay0 = None  # time from which N decays (end + slowduration), None = no decay running
        self.decayed = 0
        self.pauses: list[dict] = []  # one per pause-setting frame
        self.ambiguous = False

    def _advance(self, t: float) -> None:
        if self.decay0 is None:
            return
        while self.N > 0 and self.decay0 + 0.005 * (self.decayed + 1) < t:
            self.N -= 1
            self.decayed += 1

    def busy(self, t: float, wait_ms: int, seq: int) -> None:
        self._advance(t)
        prev, self.last_busy = self.last_busy, t
        if self.end is not None and t < self.end - EPS:  # pausing
            if prev is not None and t - prev > COOLDOWN:
                self.N += 1
            if t >= self.start + self.wait_ms / 1000.0:
                self.ambiguous = True  # inside the random extension
            remaining_ms = self.wait_ms - (t - self.start) * 1000.0
            if remaining_ms >= wait_ms:
                self.pauses[-1]["discarded"] += 1
                return
        r = self.rs[self.k % len(self.rs)] if self.rs else 0.0
        self.k += 1
        ext = r * self.N * 0.05
        self.start, self.wait_ms = t, wait_ms
        self.end = t + wait_ms / 1000.0 + ext
        self.decay0 = self.end + self.N * 0.1
        self.decayed = 0
        self.pauses.append({"t": t, "seq": seq, "wait_ms": wait_ms, "N": self.N, "ext": ext, "base_end": t + wait_ms / 1000.0, "end": self.end, "discarded": 0})


def current_pause(pauses, t: float, seq: int | None = None):
    """The pause set by the latest pause-setting frame at or before (t, seq)."""
    cur = None
    for p in pauses:
        if p["t"] < t - EPS or (abs(p["t"] - t) <= EPS and (seq is None or p["seq"] < seq)):
            cur = p
        elif p["t"] > t + EPS:
            break
    return cur


# ---------------------------------------------------------------------------
# execution


def execute(case):
    from xknx import XKNX
    from xknx.io import routing as routing_mod
    from xknx.io.transport.udp_transport import UDPTransport

    sched = schedule(case)
    rs = [float(x) for x in case.get("r", [0.5])]
    events: list[tuple] = []  # (seq implicit by index) (t, kind, ...)
    sends: dict[int, dict] = {}
    rcalls = [0]

    class _Rand:
        @staticmethod
        def random() -> float:
            v = rs[rcalls[0] % len(rs)] if rs else 0.0
            rcalls[0] += 1
            return v

    class Net:
        def on_datagram(self, tr, data, addr) -> None:
            events.append((tr.loop.time(), "tx", data))

    async def scenario(loop):
        loop.net = Net()
        xknx = XKNX()
        routing = routing_mod.Routing(xknx, None, lambda raw: events.append((loop.time(), "cb", bytes(raw))), local_ip="10.0.0.2")
        await routing.connect()
        listener = loop.fake_transports[0]
        counter = [0]

        async def one_send() -> None:
            i = counter[0]
            counter[0] += 1
            cemi = make_cemi(i)
            body = cemi.to_knx()[1:]
            rec = sends[i] = {"call": loop.time(), "call_seq": len(events), "body": body, "done": None, "exc": None}
            events.append((loop.time(), "call", i))
            try:
                await routing.send_cemi(cemi)
                rec["done"] = loop.time()
            except asyncio.CancelledError:
                raise
            except Exception as e:  # noqa: BLE001
                rec["exc"] = (exc_site(e), repr(e))

        async def seq_sends(n: int) -> None:
            for _ in range(n):
                await one_send()

        tasks: list[asyncio.Task] = []

        def act(kind: str, arg: int) -> None:
            if kind == "busy":
                events.append((loop.time(), "busy", arg))
                try:
                    listener.protocol.datagram_received(busy_frame(arg), PEER)
                except Exception as e:  # noqa: BLE001
                    events.append((loop.time(), "rxexc", exc_site(e), repr(e)))
            elif kind == "race":
                armed.append(arg)
            elif kind == "conc":
                for _ in range(arg):
                    tasks.append(loop.create_task(one_send()))
            else:
                tasks.append(loop.create_task(seq_sends(arg)))

        # "race": a busy frame that arrives in the loop iteration right after the pause timer fired -
        # after `_ready` was set, before the held senders run (a datagram becoming readable while the
        # loop processes the timer). The internal Event is read for *scheduling* only, never for the verdict.
        armed: list[int] = []
        fc_ready = getattr(getattr(routing, "_flow_control", None), "_ready", None)
        was_set = [True]

        def hook(_tick: int) -> None:
            if fc_ready is None:
                return
            now_set = fc_ready.is_set()
            if armed and now_set and not was_set[0]:
                act("busy", armed.pop(0))
                now_set = fc_ready.is_set()
            was_set[0] = now_set

        loop.tick_hooks.append(hook)
        for t, kind, arg in sched:
            loop.call_at(t, act, kind, arg)
        await asyncio.sleep(horizon(case, sched) - loop.time())
        loop.tick_hooks.remove(hook)
        pending = [i for i, r in sends.items() if r["done"] is None and r["exc"] is None]
        await routing.disconnect()
        xknx.started.clear()
        return pending

    with patch.object(routing_mod, "random", _Rand), patch.object(UDPTransport, "create_multicast_sock", staticmethod(lambda own_ip, remote_addr: object())):
        pending, loop = run_case(scenario, max_iters=400_000)
    return sched, events, sends, loop.escaped, rs


# ---------------------------------------------------------------------------
# oracle


def judge(ctx, case, sched, events, sends, escaped, rs) -> dict:
    inp = case
    info = {"held": False, "ambiguous": False, "pauses": 0}
    for e in escaped:
        ctx.fail(f"C27:escaped:{type(e['exception']).__name__}", inp, e["repr"] + " " + e["message"])
    for i, r in sends.items():
        if r["exc"]:
            ctx.fail(f"C27:send-raised:{r['exc'][0]}", inp, f"send {i}: {r['exc'][1]}")
    model = PauseModel(rs)
    inds: list[dict] = []  # indications on the wire
    cons: dict[int, list[float]] = {i: [] for i in sends}
    by_body = {r["body"]: i for i, r in sends.items()}
    for seq, ev in enumerate(events):
        t, kind = ev[0], ev[1]
        if kind == "busy":
            model.busy(t, ev[2], seq)
        elif kind == "rxexc":
            ctx.fail(f"C27:receive-raised:{ev[2]}", inp, ev[3])
        elif kind == "tx":
            cemi = parse_indication(ev[2])
            if cemi is None:
                ctx.fail("C27:wire:not-a-routing-indication", inp, f"sent {ev[2].hex()} at {t}")
                continue
            who = by_body.get(cemi[1:]) if cemi[:1] == b"\x29" else None
            if who is None:
                ctx.fail("C27:wire:indication-content", inp, f"indication at {t} does not carry the L_Data.ind of any send_cemi call: {cemi.hex()}")
            inds.append({"t": t, "seq": seq, "who": who})
        elif kind == "cb":
            raw = ev[2]
            who = by_body.get(raw[1:]) if raw[:1] == b"\x2e" else None
            if who is None:
                ctx.fail("C27:confirmation:content", inp, f"callback got {raw.hex()} at {t}: not the L_Data.con of any send")
            else:
                cons[who].append(t)
    pauses = model.pauses
    info["pauses"] = len(pauses)
    info["ambiguous"] = model.ambiguous
    info["N_max"] = max((p["N"] for p in pauses), default=0)
    info["discarded"] = sum(p["discarded"] for p in pauses)

    # (4) one indication, one confirmation per send
    sent_at: dict[int, dict] = {}
    for i, r in sends.items():
        mine = [x for x in inds if x["who"] == i]
        if len(mine) > 1:
            ctx.fail("C27:wire:send-transmitted-twice", inp, f"send {i} on the wire {len(mine)} times at {[x['t'] for x in mine]}")
        if mine:
            sent_at[i] = mine[0]
        n = len(cons[i])
        if mine and n != 1:
            ctx.fail("C27:confirmation:missing" if n == 0 else "C27:confirmation:duplicate", inp, f"send {i} (indication at {mine[0]['t']}): {n} local L_Data.con")
        if not mine and n:
            ctx.fail("C27:confirmation:without-indication", inp, f"send {i}: L_Data.con at {cons[i]} but no RoutingIndication on the wire")
        if mine and n and cons[i][0] < mine[0]["t"] - EPS:
            ctx.fail("C27:confirmation:before-indication", inp, f"send {i}: L_Data.con at {cons[i][0]} before its indication at {mine[0]['t']}")

    # (3) spacing
    for a, b in zip(inds, inds[1:]):
        if b["t"] - a["t"] < SPACING - EPS:
            ra, rb = sends.get(a["who"]), sends.get(b["who"])
            concurrent = ra is not None and rb is not None and rb["call"] < a["t"] + EPS and rb["call_seq"] < a["seq"]
            kind = "concurrent-senders" if concurrent else "sequential"
            ctx.fail(f"C27:spacing:{kind}", inp, f"indications of send {a['who']} at {a['t']:.6f} and send {b['who']} at {b['t']:.6f} are {1000 * (b['t'] - a['t']):.3f} ms apart (<20 ms); calls at {ra and ra['call']:.6f} / {rb and rb['call']:.6f}")
            break

    # was the throttle exercised?
    for i, r in sends.items():
        p = current_pause(pauses, r["call"])
        if p is not None and r["call"] < p["end"]:
            info["held"] = True
        for x in inds:
            if x["seq"] < r["call_seq"] and r["call"] - x["t"] < SPACING:
                info["held"] = True
    n_conc = 0
    for i, r in sends.items():
        s = sent_at.get(i)
        for j, q in sends.items():
            if j < i and q["call"] <= r["call"] and (sent_at.get(j) is None or sent_at[j]["seq"] > r["call_seq"]):
                n_conc += 1
                break
    info["overlapping_sends"] = n_conc
    if model.ambiguous:
        return info

    # (1) nothing during the current pause
    for x in inds:
        p = current_pause(pauses, x["t"], x["seq"])
        if p is None:
            continue
        if x["t"] < p["base_end"] - EPS:
            # sent in the very instant the busy frame arrived (after it): a sender woken by the end of the previous pause
            same_instant = abs(x["t"] - p["t"]) <= EPS
            ctx.fail("C27:sent-during-pause:woken-sender-does-not-recheck" if same_instant else "C27:sent-during-pause", inp, f"indication of send {x['who']} at {x['t']:.6f}; RoutingBusy(wait={p['wait_ms']} ms) received at {p['t']:.6f} set the current pause until {p['base_end']:.6f}")
            break
        if x["t"] < p["end"] - EPS:
            ctx.fail("C27:sent-during-extension", inp, f"indication of send {x['who']} at {x['t']:.6f}; pause set at {p['t']:.6f} wait={p['wait_ms']} ms + extension {p['ext'] * 1000:.3f} ms (N={p['N']}) ends {p['end']:.6f}")
            break

    # (2) sending resumes
    end_t = events[-1][0] if events else 0.0
    for i, r in sends.items():
        tau = r["call"]
        me = sent_at.get(i)
        my_seq = me["seq"] if me else len(events) + 1
        for _ in range(10_000):
            p = current_pause(pauses, tau)
            if p is not None and tau < p["end"] - EPS:
                tau = p["end"]
                continue
            prev = [x["t"] for x in inds if x["seq"] < my_seq and x["t"] <= tau + EPS and x["t"] + SPACING > tau + EPS]
            if prev:
                tau = max(prev) + SPACING
                continue
            break
        t_sent = me["t"] if me else None
        if t_sent is None:
            ctx.fail("C27:not-resumed:never-sent", inp, f"send {i} called at {r['call']:.6f} could go out at {tau:.6f} but was never sent (history ran to {horizon(case, sched):.3f})")
            break
        if t_sent > tau + 1e-6:
            ctx.fail("C27:not-resumed:late", inp, f"send {i} called at {r['call']:.6f} could go out at {tau:.6f} (no pause running, last indication 20 ms old) but left at {t_sent:.6f}")
            break
    return info


def check_case(ctx, case) -> dict | None:
    try:
        sched, events, sends, escaped, rs = execute(case)
    except (BudgetExceeded, Deadlock):
        ctx.notes["inconclusive"] = ctx.notes.get("inconclusive", 0) + 1
        return None
    except Exception as e:  # noqa: BLE001
        ctx.fail(f"C27:scenario-exc:{exc_site(e)}", case, repr(e))
        return None
    return judge(ctx, case, sched, events, sends, escaped, rs)


# ---------------------------------------------------------------------------
# generators

_gap = st.one_of(
    st.integers(0, 12),
    st.integers(0, 40),
    st.sampled_from([9, 10, 11, 19, 20, 21, 50, 100, 101, 105, 110, 150, 200, 400]),
)
_wait = st.one_of(st.integers(0, 60), st.sampled_from([0, 1, 5, 10, 20, 30, 50, 100, 100, 200, 500, 3000]), st.integers(0, 3000))
_busy = st.tuples(st.just("busy"), _gap, _wait)
_send = st.tuples(st.sampled_from(["conc", "seq"]), _gap, st.integers(1, 4))
_race = st.tuples(st.just("race"), st.integers(0, 5), st.sampled_from([1, 10, 30, 100]))
_r = st.sampled_from([0.0, 0.02, 0.1, 0.2, 0.5, 0.5, 0.9, 0.98])


@st.composite
def histories(draw):
    ops = draw(st.lists(st.one_of(_busy, _busy, _busy, _send, _send, _race), min_size=1, max_size=12))
    if not any(o[0] in ("conc", "seq") for o in ops):
        ops.append(draw(_send))
    return {"r": draw(st.lists(_r, min_size=1, max_size=3)), "ops": [list(o) for o in ops]}


def _label(case, info) -> list[str]:
    ops = case["ops"]
    cl = []
    nb = sum(1 for o in ops if o[0] == "busy")
    if any(o[0] == "race" for o in ops):
        cl.append("busy-racing-the-end-of-a-pause")
    cl.append("busy=0" if nb == 0 else ("busy=1" if nb == 1 else "busy>=2"))
    if any(o[0] == "conc" and o[2] > 1 for o in ops):
        cl.append("concurrent-sends")
    if any(o[0] == "seq" and o[2] > 1 for o in ops):
        cl.append("sequential-sends")
    if info:
        if info.get("N_max", 0) > 0:
            cl.append("N>0 (random extension)")
        if info.get("discarded"):
            cl.append("busy-discarded(shorter than remaining)")
        if info.get("ambiguous"):
            cl.append("ambiguous(busy inside extension)")
        if info.get("held"):
            cl.append("throttle-held-a-frame")
    burst = any(a[0] == "busy" and b[0] == "busy" and b[1] <= 10 for a, b in zip(ops, ops[1:]))
    if burst:
        cl.append("busy-burst<=10ms")
    return cl


def _hyp_oracle(ctx, case) -> None:
    info = check_case(ctx, case)
    ctx.case(
        repr(case),
        nontrivial=bool(info and info.get("held")),
        cls=_label(case, info),
        sample={"r": case["r"], "ops": case["ops"]} if len(case["ops"]) > 3 else None,
    )


def _hyp_shard(ctx, n: int) -> None:
    hyp_search(ctx, histories(), _hyp_oracle, n)


# small exhaustive grid: busy(w1) .. gap .. busy(w2) around a group of sends
_GRID_W = [0, 20, 100]
_GRID_GAP = [0, 5, 11, 30, 120]
_GRID_SENDS = [("conc", 1), ("conc", 3), ("seq", 2)]


def _grid_shard(ctx, w1: int, w2: int) -> None:
    n = nt = 0
    if True:
        for g1 in _GRID_GAP:
            for g2 in _GRID_GAP:
                for mode, k in _GRID_SENDS:
                    for order in range(3):
                        b1, b2, s = ["busy", 0, w1], ["busy", g1, w2], [mode, g2, k]
                        if order == 0:
                            ops = [s[:1] + [0] + s[2:], ["busy", g2, w1], b2]
                        elif order == 1:
                            ops = [b1, s, b2]
                        else:
                            ops = [b1, b2, s]
                        for r in (0.0, 0.5):
                            case = {"r": [r], "ops": ops}
                            info = check_case(ctx, case)
                            n += 1
                            if info and info.get("held"):
                                nt += 1
    ctx.bulk(n, nt, "grid:2-busy-1-send-group")
    ctx.sample({"grid": {"w1": w1, "w2": w2, "ops_example": [["busy", 0, w1], ["busy", 11, w2], ["conc", 30, 3]]}})


def run(ctx) -> None:
    parallel(ctx, _grid_shard, [(w1, w2) for w1 in _GRID_W for w2 in _GRID_W])
    parallel(ctx, _hyp_shard, [(ctx.n(120, 2000),)] * 16)
    ctx.exhaustive = False


def replay(ctx, case) -> None:
    case = {"r": [float(x) for x in case.get("r", [0.5])], "ops": [list(o) for o in case["ops"]]}
    check_case(ctx, case)
