"""C44 - address programming never creates an address conflict.

The real procedures (nm_individual_address_write / _read, serial-number read / write,
dmp_authorize2_r_co) run inside a real XKNX on the virtual-time loop against `vk.simbus`:
every population of 0..3 devices x individual address in {target, a, b} x programming mode
on/off x connection behaviour {answers, refuses with T_Disconnect, silent, answers data with T_NAK,
with a T_ACK of the wrong number, with T_ACK + another service} is enumerated
(serial-number procedures: serial in {asked, other} x address x {honest, answers every serial
read}; authorization: every pair of free / client-key access levels 0..15).

The oracle reads the simulated bus: the frames the client broadcast / sent point-to-point,
the frames the devices answered, and the devices' addresses before and after.
"""

from __future__ import annotations

import itertools
from types import SimpleNamespace
from unittest import mock

from vk.core import HarnessError, exc_site
from vk.engine import parallel
from vk.vloop import BudgetExceeded, Deadlock, run_case

PROPERTY = "C44"
LEVEL = "fault_enumeration"
TECHNIQUE = "exhaustive enumeration of small simulated bus populations (device model with transport layer, programming mode, refusals, timeouts) against the real management procedures on a virtual-time loop; bus-log oracle"
RULE = (
    "every device has its own reply latency {c: handled in the loop iteration of the L_Data.con, i: a few iterations later, m: 20 ms later} (one value for devices that never send anything in the procedure); "
    "address write: every multiset of 0..3 (thorough: 0..4) devices over address {target,a,b} x programming mode x connection behaviour {answers, refuses with T_Disconnect, silent, T_NAK to every data frame, T_ACK with the wrong number, T_ACK + response of another service} x latency "
    "(the three faulty behaviours at 20 ms only; devices neither in programming mode nor at the target are never addressed - one code each; 48 device codes, 20825 / 270725 populations); "
    "address read: 0..3 devices over {target,a} x programming mode x {answers,silent} x latency x raise_if_multiple (969 x 2); "
    "serial read/write: every multiset of 0..3 devices over serial {asked,other} x address {target,a} x {honest, answers any serial read} x latency (1771 populations x 2 procedures); "
    "authorize2: all 256 (free level, client-key level) pairs + unknown key + refusing/silent device; "
    "non-trivial = at least one device reacts to the procedure (a device in programming mode or at the target address / a device answering the serial read / a device answering the authorization); distinct by construction"
)
LEVEL_TEXT = "All bus populations within the stated bounds are executed against the real procedures in virtual time; what was broadcast, who was restarted, what the procedures returned and the final device addresses are judged from the simulated bus log."
LEVEL_NOTE = "The bus is the model in vk/simbus.py (KNX transport layer automaton per device, per-device reply latency: in the L_Data.con's loop iteration / a few iterations later / 20 ms, no frame loss); larger populations, lost frames and slow devices are outside the enumeration."
ASSUMPTIONS = [
    "simulated devices follow 03_03_04 (T_Connect/T_Disconnect/numbered data + T_ACK) and answer the broadcast services of 03_05_02; each device replies, per its own latency attribute, in the very loop iteration that processes the L_Data.con of the request, a few iterations later at the same virtual instant, or 20 ms (+2 ms per further frame) later; mixed populations are enumerated; nothing is lost",
    "faulty occupants: 'naks' answers every numbered data frame with T_NAK, 'wrongack' acknowledges with the following number and then serves the request, 'otherservice' acknowledges and answers with a response of a different service; all three hold their address and count as 'already uses the address'",
    "a 'silent' device ignores point-to-point frames but takes part in broadcasts; NM_IndividualAddress_Check cannot see it, so it does not count as 'already uses the address' nor in the collision clause",
    "interface stub confirms every frame; time.time() read by xknx.management.management is the virtual clock",
    "exceptions out of the receive path while the procedures run are C43's subject (counted in notes, not judged here)",
]

TARGET, ADDR_A, ADDR_B = "1.1.10", "1.1.20", "1.1.30"
ADDRS = {"t": TARGET, "a": ADDR_A, "b": ADDR_B}
CONNS = {"A": "answers", "R": "refuses", "S": "silent", "N": "naks", "W": "wrongack", "X": "otherservice"}
SER_ASKED = bytes.fromhex("00fa11223344")
SER_OTHER = bytes.fromhex("00fa55667788")
CLIENT_KEY = 0x11223344
OTHER_KEY = 0x55667788


def _serial(i: int) -> bytes:
    return bytes([0, 0xFA, 0, 0, 0, i + 1])


LATENCIES = {"20ms": (0.02, 0.002), "same-iteration": (0.0, 0.0)}  # bus-wide default (devices without a latency of their own; saved inputs)
_LAT = ["20ms"]  # bus-wide default of the current case
_EARLY = [False]  # the current case has a device whose replies are handled in the loop iteration of the L_Data.con
DEV_LAT = {"c": "con", "i": "iter", "m": "20ms"}  # 4th character of a device code: per-device reply latency


def _set_case(pop, default: str = "20ms") -> None:
    _LAT[0] = default
    _EARLY[0] = default == "same-iteration" or any(len(c) > 3 and c[3] == "c" for c in pop)


def _b(bucket: str) -> str:
    """Buckets of cases in which some device replies in the loop iteration that handles the L_Data.con carry a suffix:
    frames arriving before the awaiting task resumed expose other root causes than the schedules without them."""
    return bucket + ":replies-in-confirmation-iteration" if _EARLY[0] else bucket


def _lat(code: str):
    return DEV_LAT[code[3]] if len(code) > 3 else None


def run_scenario(devices_spec, proc):
    """devices_spec: list of dicts for SimDevice; proc(xknx, bus) -> coroutine. Returns observation."""
    import xknx.management.management as mm
    from xknx.exceptions import ManagementConnectionError

    from vk.simbus import SimBus, SimDevice
    from vk.xharness import XH

    obs = {}

    async def scenario(loop):
        h = await XH.create(loop)
        h.connect()
        devs = [SimDevice(**d) for d in devices_spec]
        bus = SimBus(h, devs, *LATENCIES[_LAT[0]])
        obs["initial"] = [d.state() for d in devs]
        clock = SimpleNamespace(time=lambda: 1000.0 + loop.time())
        with mock.patch.object(mm, "time", clock):
            try:
                obs["result"] = ("ok", await proc(h.xknx, bus))
            except ManagementConnectionError as e:
                obs["result"] = ("mce", f"{type(e).__name__}: {e}")
            except Exception as e:  # noqa: BLE001
                obs["result"] = ("exc", e)
            obs["t_result"] = loop.time()
            obs["n_log_at_result"] = len(bus.log)
            await h.settle(1.0)
        obs["bus"] = bus
        obs["final"] = [d.state() for d in devs]
        obs["devices"] = devs
        await h.close()

    _, loop = run_case(scenario, max_iters=400_000)
    bus = obs["bus"]
    if bus.errors:
        raise HarnessError("simbus error: " + bus.errors[0])
    obs["escaped"] = loop.escaped
    return obs


def _undeclared(ctx, tag, inp, obs) -> bool:
    from xknx.exceptions import ManagementConnectionError

    bus = obs["bus"]
    if bus.rx_exceptions:
        ctx.notes["receive_path_exceptions_seen(C43)"] = ctx.notes.get("receive_path_exceptions_seen(C43)", 0) + len(bus.rx_exceptions)
    for e in obs["escaped"]:
        exc = e["exception"]
        if isinstance(exc, ManagementConnectionError) and "never retrieved" in e["message"]:
            continue
        ctx.fail(_b(f"C44:{tag}:escaped:{type(exc).__name__}"), inp, e["repr"] + " " + e["message"])
    if obs["result"][0] == "exc":
        e = obs["result"][1]
        ctx.fail(_b(f"C44:{tag}:raised-undeclared:{exc_site(e)}"), inp, repr(e))
        return True
    return False


# ---------------------------------------------------------------------------
# address write / read


def pop_devices(pop):
    """pop: list of 'tPA' / 'tPAc' style codes: address key, programming mode (P/-), connection (A/R/S),
    optional reply latency (c: in the loop iteration of the L_Data.con, i: a few iterations later, m: 20 ms later)."""
    out = []
    for i, code in enumerate(pop):
        out.append({"address": ADDRS[code[0]], "prog": code[1] == "P", "conn": CONNS[code[2]], "serial": _serial(i), "name": f"d{i}:{code}", "latency": _lat(code)})
    return out


def check_write(ctx, pop, default_latency: str = "20ms") -> str:
    from xknx.management.procedures import network
    from xknx.telegram import apci

    _set_case(pop, default_latency)
    inp = {"proc": "address_write", "pop": list(pop), "target": TARGET, "latency": _LAT[0]}

    async def proc(xknx, bus):
        await network.nm_individual_address_write(xknx, TARGET)
        return None

    try:
        obs = run_scenario(pop_devices(pop), proc)
    except (BudgetExceeded, Deadlock):
        ctx.notes["inconclusive"] = ctx.notes.get("inconclusive", 0) + 1
        return "inconclusive"
    _undeclared(ctx, "address-write", inp, obs)
    bus = obs["bus"]
    init = obs["initial"]
    prog = [d for d in init if d["prog"]]
    writes = bus.sent(apci.IndividualAddressWrite)
    detail = f"population {init}; result {obs['result'][:2]}"
    label = "no-write"
    if writes:
        label = "wrote"
        for w in writes:
            if str(w["telegram"].payload.address) != TARGET:
                ctx.fail(_b("C44:write:wrong-address"), inp, f"IndividualAddressWrite({w['telegram'].payload.address}) while asked for {TARGET}; {detail}")
        if len(prog) > 1:
            ctx.fail(_b("C44:write:multiple-in-programming-mode"), inp, f"IndividualAddressWrite broadcast with {len(prog)} devices in programming mode; {detail}")
        elif not prog:
            ctx.fail(_b("C44:write:none-in-programming-mode"), inp, f"IndividualAddressWrite broadcast with no device in programming mode; {detail}")
        else:
            holders = [d for d in init if d["address"] == TARGET and d["conn"] != "silent" and d["name"] != prog[0]["name"]]
            if holders:
                ctx.fail(_b("C44:write:address-in-use"), inp, f"IndividualAddressWrite broadcast although {[d['name'] for d in holders]} already use(s) {TARGET}; {detail}")
    # no new collision among devices that can be seen point-to-point
    def coll(states):
        by = {}
        for d in states:
            if d["conn"] != "silent":
                by.setdefault(d["address"], set()).add(d["name"])  # every non-silent behaviour reacts point-to-point
        return {(a, frozenset(n)) for a, n in by.items() if len(n) > 1}

    before = coll(init)
    for a, names in coll(obs["final"]):
        old = {n for aa, ns in before if aa == a for n in ns}
        if not names <= old:
            ctx.fail(_b("C44:collision-created"), inp, f"after the procedure {sorted(names)} share {a}; {detail}")
    # Restart only to the target address, and only after programming (written, or the device already had the address)
    restarts = bus.sent(apci.Restart)
    for r in restarts:
        if str(r["telegram"].destination_address) != TARGET:
            ctx.fail(_b("C44:restart:wrong-destination"), inp, f"Restart sent to {r['telegram'].destination_address}; {detail}")
    if restarts:
        label += "+restart"
        ok = bool(writes) or (len(prog) == 1 and prog[0]["address"] == TARGET)
        if not ok:
            ctx.fail(_b("C44:restart:without-programming"), inp, f"Restart sent although nothing was programmed; {detail}")
    for ev in bus.log:
        if ev["dir"] == "event" and ev["event"] == "restart" and ev["address"] != TARGET:
            ctx.fail(_b("C44:restart:other-device-restarted"), inp, f"{ev['device']} at {ev['address']} restarted; {detail}")
    return label + ":" + obs["result"][0]


def check_read(ctx, pop, raise_if_multiple: bool) -> None:
    from xknx.management.procedures import network

    _set_case(pop)
    inp = {"proc": "address_read", "pop": list(pop), "raise_if_multiple": raise_if_multiple}

    async def proc(xknx, bus):
        return await network.nm_individual_address_read(xknx, raise_if_multiple=raise_if_multiple)

    try:
        obs = run_scenario(pop_devices(pop), proc)
    except (BudgetExceeded, Deadlock):
        ctx.notes["inconclusive"] = ctx.notes.get("inconclusive", 0) + 1
        return
    if _undeclared(ctx, "address-read", inp, obs):
        return
    prog = sorted(d["address"] for d in obs["initial"] if d["prog"])
    kind, val = obs["result"]
    if raise_if_multiple and len(prog) > 1:
        if kind != "mce":
            ctx.fail(_b("C44:address-read:multiple-not-reported"), inp, f"{len(prog)} devices in programming mode, raise_if_multiple=True, returned {val}")
    elif kind != "ok" or sorted(str(a) for a in val) != prog:
        ctx.fail(_b("C44:address-read:wrong-result"), inp, f"devices in programming mode at {prog}, procedure gave {kind} {val}")


# ---------------------------------------------------------------------------
# serial number procedures


def ser_devices(pop):
    """codes: serial (s=asked / o=other), address key, fault (-/*: answers any serial read), optional reply latency (c/i/m)."""
    out = []
    for i, code in enumerate(pop):
        out.append({"address": ADDRS[code[1]], "serial": SER_ASKED if code[0] == "s" else SER_OTHER, "serial_fault": "answers-any" if code[2] == "*" else None, "name": f"d{i}:{code}", "latency": _lat(code)})
    return out


def check_serial(ctx, pop, write: bool) -> None:
    from xknx.management.procedures import network
    from xknx.telegram import apci

    _set_case(pop)
    inp = {"proc": "serial_write" if write else "serial_read", "pop": list(pop)}

    async def proc(xknx, bus):
        if write:
            return await network.nm_individual_address_serial_number_write(xknx, SER_ASKED, TARGET)
        return await network.nm_individual_address_serial_number_read(xknx, SER_ASKED)

    try:
        obs = run_scenario(ser_devices(pop), proc)
    except (BudgetExceeded, Deadlock):
        ctx.notes["inconclusive"] = ctx.notes.get("inconclusive", 0) + 1
        return
    if _undeclared(ctx, inp["proc"], inp, obs):
        return
    bus = obs["bus"]
    answers = [r for r in bus.log[: obs["n_log_at_result"]] if r["dir"] == "b2c" and isinstance(r["telegram"].payload, apci.IndividualAddressSerialResponse)]
    good = {r["src"] for r in answers if r["telegram"].payload.serial == SER_ASKED}
    kind, val = obs["result"]
    detail = f"responses (source, serial) {[(r['src'], r['telegram'].payload.serial.hex()) for r in answers]}; result {kind} {val}"
    if not write:
        if kind == "ok" and val is not None and str(val) not in good:
            ctx.fail(_b("C44:serial-read:result-from-other-serial"), inp, f"asked for {SER_ASKED.hex()}, returned {val}; {detail}")
    else:
        for w in bus.sent(apci.IndividualAddressSerialWrite):
            p = w["telegram"].payload
            if p.serial != SER_ASKED or str(p.address) != TARGET:
                ctx.fail(_b("C44:serial-write:wrong-broadcast"), inp, f"IndividualAddressSerialWrite({p.serial.hex()}, {p.address})")
        if kind == "ok" and TARGET not in good:
            ctx.fail(_b("C44:serial-write:confirmed-by-other-serial"), inp, f"write of {TARGET} to {SER_ASKED.hex()} reported success without a response carrying that serial from {TARGET}; {detail}")


# ---------------------------------------------------------------------------
# authorization


def check_authorize(ctx, free: int, client: int | None, conn_behaviour: str = "answers") -> None:
    from xknx.management.procedures import device as devproc
    from xknx.telegram import IndividualAddress, apci

    from vk.simbus import FREE_KEY

    levels = {FREE_KEY: free}
    if client is not None:
        levels[CLIENT_KEY] = client
    levels[OTHER_KEY] = 0
    _set_case(())
    inp = {"proc": "authorize2", "free_level": free, "client_key_level": client, "conn": conn_behaviour}
    spec = [{"address": TARGET, "levels": levels, "conn": conn_behaviour, "name": "dev"}]

    async def proc(xknx, bus):
        async with xknx.management.connection(IndividualAddress(TARGET)) as conn:
            return await devproc.dmp_authorize2_r_co(conn, CLIENT_KEY)

    try:
        obs = run_scenario(spec, proc)
    except (BudgetExceeded, Deadlock):
        ctx.notes["inconclusive"] = ctx.notes.get("inconclusive", 0) + 1
        return
    if _undeclared(ctx, "authorize2", inp, obs):
        return
    bus = obs["bus"]
    got = [r["telegram"].payload.level for r in bus.log if r["dir"] == "b2c" and isinstance(r["telegram"].payload, apci.AuthorizeResponse)]
    kind, val = obs["result"]
    if kind == "ok":
        if not got:
            ctx.fail(_b("C44:authorize2:level-without-response"), inp, f"returned {val} without any A_Authorize_Response")
        else:
            best = min(got[:2])  # level 0 = most access
            if val != best:
                ctx.fail(_b("C44:authorize2:not-the-better-level"), inp, f"levels obtained {got}, returned {val}, better of the two is {best}")
    elif conn_behaviour == "answers":
        ctx.fail(_b("C44:authorize2:failed-on-answering-device"), inp, f"{val}; levels obtained {got}")


# ---------------------------------------------------------------------------
# enumeration

def _replies(code: str) -> bool:
    """Address procedures: a device sends something only if it is in programming mode (broadcast answer, and it moves to the
    target) or sits at the target address and reacts to point-to-point frames. For the others the latency is immaterial."""
    return code[1] == "P" or (code[0] == "t" and code[2] != "S")


def with_latencies(codes, replies):
    out = []
    for c in codes:
        # the faulty point-to-point behaviours N/W/X are crossed with the 20 ms latency only
        out.extend([c + l for l in "cim"] if replies(c) and c[2] in "ARS*-" else [c + "m"])
    return out


def _write_codes():
    """Device codes of the address-write populations. Pruned by symmetry: a device that is neither in programming mode nor
    at the target address is never addressed by the procedure, so its connection behaviour is immaterial (one code each)."""
    base = []
    for a in "tab":
        for p in "P-":
            for c in "ARSNWX":
                if p == "-" and a != "t" and c != "A":
                    continue
                base.append(a + p + c)
    return with_latencies(base, _replies)


DEV_CODES = _write_codes()
READ_CODES = with_latencies([a + p + c for a in "ta" for p in "P-" for c in "AS"], lambda c: c[1] == "P")
SER_CODES = with_latencies([s + a + f for s in "so" for a in "ta" for f in "-*"], lambda c: c[0] == "s" or c[2] == "*")


def populations(codes, max_n):
    for n in range(0, max_n + 1):
        yield from itertools.combinations_with_replacement(codes, n)


def _latclass(pop) -> str:
    ls = {c[3] for c in pop if len(c) > 3 and (c[1] == "P" or c[0] in "ts" or c[2] == "*")}
    return "latency:" + ("".join(sorted(ls)) or "-")


def _write_shard(ctx, pops) -> None:
    n = nt = 0
    for pop in pops:
        label = check_write(ctx, pop)
        ctx.classes[label] += 1
        ctx.classes[_latclass(pop)] += 1
        n += 1
        if any(c[1] == "P" or c[0] == "t" for c in pop):
            nt += 1
        if n % 331 == 1:
            ctx.sample({"address_write": list(pop), "outcome": label})
    ctx.bulk(n, nt, "address-write-populations")


def _read_shard(ctx, pops) -> None:
    n = nt = 0
    for pop in pops:
        for rim in (False, True):
            check_read(ctx, pop, rim)
            n += 1
            nt += 1 if any(c[1] == "P" for c in pop) else 0
        if n % 200 == 2:
            ctx.sample({"address_read": list(pop)})
    ctx.bulk(n, nt, "address-read-populations")


def _serial_shard(ctx, pops) -> None:
    n = nt = 0
    for pop in pops:
        for write in (False, True):
            check_serial(ctx, pop, write)
            n += 1
            nt += 1 if any(c[0] == "s" or c[2] == "*" for c in pop) else 0
        if n % 400 == 2:
            ctx.sample({"serial": list(pop)})
    ctx.bulk(n, nt, "serial-populations")


def _auth_shard(ctx, frees) -> None:
    n = nt = 0
    for f in frees:
        for c in list(range(16)) + [None]:
            check_authorize(ctx, f, c)
            n += 1
            nt += 1
        for b in ("refuses", "silent"):
            check_authorize(ctx, f, 3, b)
            n += 1
    ctx.bulk(n, nt, "authorize2-level-pairs")
    ctx.sample({"authorize2": {"free": frees[0], "client": "0..15, unknown key"}})


def _chunks(seq, k):
    seq = list(seq)
    size = max(1, (len(seq) + k - 1) // k)
    return [seq[i : i + size] for i in range(0, len(seq), size)]


def run(ctx) -> None:
    # import the code under test before forking, so that the workers do not each import it again
    import xknx.management.procedures.device  # noqa: F401
    import xknx.management.procedures.network  # noqa: F401

    import vk.simbus  # noqa: F401
    import vk.xharness  # noqa: F401

    procs = 4 if ctx.quick else 8  # cases cost < 1 ms; more workers only add fork/scheduling overhead on a shared box
    max_n = 3
    pops = list(populations(DEV_CODES, ctx.n(3, 4)))  # thorough: up to 4 devices for the address write
    k = ctx.n(32, 128)
    parallel(ctx, _write_shard, [(pops[i::k],) for i in range(k) if pops[i::k]], procs=procs)  # interleaved: shards of similar cost
    rpops = list(populations(READ_CODES, max_n))
    parallel(ctx, _read_shard, [(rpops[i::16],) for i in range(16)], procs=procs)
    spops = list(populations(SER_CODES, max_n))
    parallel(ctx, _serial_shard, [(spops[i::16],) for i in range(16)], procs=procs)
    parallel(ctx, _auth_shard, [([f],) for f in range(16)], procs=procs)
    ctx.exhaustive = True
    ctx.notes["max_devices_address_write"] = ctx.n(3, 4)
    ctx.notes["device_codes"] = {"address_write": len(DEV_CODES), "address_read": len(READ_CODES), "serial": len(SER_CODES)}
    ctx.notes["populations"] = {"address_write": len(pops), "address_read": 2 * len(rpops), "serial": 2 * len(spops), "authorize2": 16 * 19}


def replay(ctx, case) -> None:
    p = case.get("proc")
    if p == "address_write":
        check_write(ctx, tuple(case["pop"]), case.get("latency", "20ms"))
    elif p == "address_read":
        check_read(ctx, tuple(case["pop"]), bool(case.get("raise_if_multiple")))
    elif p in ("serial_read", "serial_write"):
        check_serial(ctx, tuple(case["pop"]), p == "serial_write")
    elif p == "authorize2":
        check_authorize(ctx, int(case["free_level"]), case.get("client_key_level"), case.get("conn", "answers"))
    else:
        raise HarnessError(f"unknown replay case {case!r}")
