"""C25 - connection lifecycle stays consistent under any failure schedule.

Real `UDPTunnel`, `TCPTunnel` and `SecureTunnel` (the simulated gateway performs the IP
Secure session handshake with the independent reference crypto of vk/ref/ipsecure.py) run
a bounded session (connect, two sends, idle across a heartbeat period, one more send) on
the virtual-time loop. First the fault-free session is run to learn its number of loop
iterations N; then, for every event kind and every iteration k in 1..N, the session is
re-run with that event injected by a tick hook exactly at iteration k; pairs of events
(and a slow / lost DisconnectResponse) are sampled with Hypothesis, pairs at most 2 (thorough: 6)
iterations apart are enumerated, loss/loss pairs up to 12 (16) apart. After the session the loop runs 300 more virtual seconds.

Oracle (wire log + wrapped `_reconnect` + connection-manager callbacks in one total order):
(a) `_reconnect` is never active twice at once; (b) after the user CALLED disconnect() no
ConnectRequest / ConnectionStateRequest / TunnellingRequest / SessionRequest and at most one
DisconnectRequest is written, and the state ends DISCONNECTED; (c) consecutive reported
states differ, both registered callbacks see the same sequence, CONNECTED is only reported
after a Connect handshake delivered since the previous report, the final state is CONNECTED
only with a live channel on both sides and is CONNECTED when nothing happened after the last
handshake. Plus a model-based test of `ConnectionManager` alone.
"""

from __future__ import annotations

import asyncio
import functools
import itertools
from unittest import mock

from hypothesis import strategies as st

from vk.core import HarnessError, exc_site
from vk.engine import hyp_search, parallel
from vk.ref import ipsecure as ref
from vk.simgw import GW_ADDR, NET_DELAY, SimGateway
from vk.vloop import BudgetExceeded, Deadlock, run_case

PROPERTY = "C25"
LEVEL = "fault_enumeration"
TECHNIQUE = "fault injection at every event-loop iteration of a simulated tunnel session (single events enumerated, pairs sampled / adjacent pairs enumerated), real UDP/TCP/secure tunnel on a virtual-time loop vs simulated gateway; wire-log + callback oracle; model-based test of ConnectionManager"
RULE = (
    "case = (transport udp|tcp|secure, auto_reconnect, DisconnectResponse behaviour ok|0.5 s late|lost, [(event kind, loop iteration)]); event kinds: hb_drop, hb_err (next 4 ConnectionStateRequests unanswered / E_CONNECTION_ID), "
    "srv_disc_own / srv_disc_foreign (server DisconnectRequest), send_fail (a send started at that iteration, its ACKs dropped on UDP), transport_loss (TCP/secure), user_disc (user calls disconnect()), user_disc_hs (the user's disconnect() runs first in the loop iteration after the next ConnectResponse arrived, before connect() is resumed), "
    "connect_drop / connect_err / open_refuse (next connect attempts fail); every kind at every iteration 1..N of the fault-free session (N learned by running it) for all 6 variants, "
    "pairs of events sampled by Hypothesis (biased to adjacent iterations), all pairs of the instantaneous kinds <= 2 iterations apart enumerated (quick; thorough: all kinds, <= 6 apart, x 3 DisconnectResponse behaviours), plus loss x loss/user_disc pairs up to 12 (16) apart with auto_reconnect; triples on the auto-reconnect variants: loss #1 at every iteration, loss #2 in / next to the iteration in which the reconnect started by #1 finishes (learned by running #1 alone), loss #3 1..5 (8) iterations later, optionally user_disc 6 iterations after that, plus Hypothesis-sampled triples; the same session with a main loop registered on the ConnectionManager (register_loop(): reports applied one iteration later): every single event and every pair of instantaneous kinds at most 1 iteration apart, auto_reconnect on; interface level (xknx/io/knxip_interface.py): KNXIPInterface.start() as a task for UDP / TCP / secure tunnelling configs (auto_reconnect on/off) against a gateway whose ConnectResponse is prompt / 0.3 s late / missing, stop() at every loop iteration of that run (before, while and after the connect is answered, during the session and the heartbeat); ConnectionManager (with and without register_loop()): op sequences report / burst of 2-4 reports issued back-to-back without yielding to the loop (AA, ABA, ABB, ... and random) / register / unregister / self-unregistering callback vs a dedup model over the reports in issue order, every burst of 1..4 reports from every state enumerated; "
    "non-trivial = the injected event changed the wire log relative to the fault-free session (a fault really happened); distinct by case"
)
LEVEL_TEXT = "Each fault kind is injected at every loop iteration of a bounded tunnel session (UDP, TCP, IP Secure; auto-reconnect on/off) in virtual time, pairs of faults are sampled; reconnect concurrency, frames after a user disconnect and the reported connection state are decided from one totally ordered log of wire frames, callbacks and markers."
LEVEL_NOTE = "Schedules are those expressible by the harness: one client, virtual time, events at loop-iteration granularity, a fixed session script; more than three overlapping faults are not explored, triples only around the reconnect-completion window and sampled; routing connections are not driven (the state clauses are checked on tunnels and on ConnectionManager alone)."
ASSUMPTIONS = [
    "single-threaded asyncio on a virtual clock; network delay 5 ms; gateway behaviour limited to the scripted plans of vk/simgw.py",
    "IP Secure: the simulator performs the real session handshake and wraps/unwraps every frame with vk/ref/ipsecure.py (pure-Python X25519, hand-built CCM); PBKDF2 results are memoised by the harness",
    "the user does not call send_cemi after having called disconnect() (sends already in progress are judged); a disconnect() called while the user's own initial connect() is still pending is a race between two user calls and exempt from clause (b); a TunnellingRequest of a send queued before the call may still be written until disconnect() returns",
    "the server sends DisconnectRequests only over a usable transport (after authentication in a secure session; for its own channel only while it holds one); over TCP they never overtake frames in flight",
    "'connected exactly while established' is judged at handshake time and 300 virtual seconds after the last event (a client cannot notice a silent loss earlier than its heartbeat)",
    "interface level: after KNXIPInterface.stop() has RETURNED nothing may be written and CONNECTED may neither be reported nor read; what is written between the call and the return of stop() is the disconnect itself and not judged; start()'s own outcome (ok / CommunicationError) is not judged",
    "KNXIPInterfaceThreaded / routing connections are not driven",
]

from xknx.io import const as _const

HB = float(_const.HEARTBEAT_RATE)
VARIANTS = [(t, ar) for t in ("udp", "tcp", "secure") for ar in (True, False)]
KINDS_ALL = ["hb_drop", "hb_err", "srv_disc_own", "srv_disc_foreign", "send_fail", "transport_loss", "user_disc", "user_disc_hs", "connect_drop", "connect_err", "open_refuse"]
INSTANT = ["srv_disc_own", "srv_disc_foreign", "send_fail", "transport_loss", "user_disc"]
TAIL = 300.0
USER_ID, USER_PW, DEV_PW = 2, "user-secret", "device-secret"


def kinds_for(transport: str) -> list[str]:
    if transport == "udp":
        return [k for k in KINDS_ALL if k not in ("transport_loss", "open_refuse")]
    return list(KINDS_ALL)


@functools.lru_cache(maxsize=None)
def _ref_user_key(pw: str) -> bytes:
    return ref.derive_user_password(pw)


@functools.lru_cache(maxsize=None)
def _ref_dev_key(pw: str) -> bytes:
    return ref.derive_device_authentication_code(pw)


_SERVER_PRIV = bytes(range(1, 33))
_SERVER_PUB: list[bytes] = []


def _server_pub() -> bytes:
    if not _SERVER_PUB:
        _SERVER_PUB.append(ref.x25519_public(_SERVER_PRIV))
    return _SERVER_PUB[0]


class _SecProxy:
    """Server-side end of one secure session: frames for the client are wrapped at delivery time."""

    kind = "tcp"

    def __init__(self, gw, real) -> None:
        self.gw = gw
        self.real = real
        self.protocol = self
        self.key: bytes | None = None
        self.sid = 0
        self.seq = 0
        self.client_pub = b""
        self.authenticated = False

    @property
    def closed(self) -> bool:
        return self.real.closed

    def data_received(self, raw: bytes) -> None:  # called by SimGateway delivery code with the PLAIN frame
        if self.key is None:
            return
        wrapped = ref.wrap(self.key, self.sid, self.seq.to_bytes(6, "big"), bytes.fromhex("00fa00000001"), b"\x00\x00", raw)
        self.seq += 1
        self.real.protocol.data_received(wrapped)

    def lose(self, exc=None, delay: float = 0.0) -> None:
        self.real.lose(exc, delay)


class Gateway(SimGateway):
    """SimGateway + fault-effect markers + (for secure=True) the IP Secure session layer."""

    def __init__(self, secure: bool = False) -> None:
        super().__init__()
        self.secure = secure
        self._proxies: dict[int, _SecProxy] = {}
        self._next_sid = 0

    def mark(self, kind: str, direction: str = "ev", **extra) -> None:
        self.log.append({"t": round(self.loop.time(), 6), "tick": self.loop.tick, "dir": direction, "kind": kind, "epoch": self.epoch, **extra})

    def _take(self, plan, default):
        o = super()._take(plan, default)
        if o not in ("ok", "ack"):
            self.mark("fault-effect", outcome=o if isinstance(o, str) else list(map(str, o)))
        return o

    def on_stream_open(self, tr):
        delay = super().on_stream_open(tr)  # may raise (refuse); a marker was logged by _take
        self.mark("stream_open", "c2s")
        if self.secure:
            p = _SecProxy(self, tr)
            self._proxies[id(tr)] = p
            self.tr = p
        return delay

    def on_stream_data(self, tr, data: bytes) -> None:
        if not self.secure:
            super().on_stream_data(tr, data)
            return
        p = self._proxies[id(tr)]
        self.tr = p
        self._tcp_buf += data
        while len(self._tcp_buf) >= 6:
            total = int.from_bytes(self._tcp_buf[4:6], "big")
            if total < 6 or len(self._tcp_buf) < total:
                break
            raw, self._tcp_buf = self._tcp_buf[:total], self._tcp_buf[total:]
            try:
                self._secure_frame(p, raw)
            except Exception as e:  # noqa: BLE001
                import traceback

                self.errors.append(f"{type(e).__name__}: {e}\n{traceback.format_exc()}")

    def _secure_frame(self, p: _SecProxy, raw: bytes) -> None:
        from xknx.knxip import KNXIPFrame

        svc = int.from_bytes(raw[2:4], "big")
        if svc == 0x0951:  # SESSION_REQUEST: header, HPAI (8), client public key (32)
            self.mark("SessionRequest", "c2s")
            p.client_pub = raw[14:46]
            self._next_sid += 1
            p.sid = self._next_sid
            p.key = ref.session_key(_SERVER_PRIV, p.client_pub)
            mac = ref.session_response_mac(_ref_dev_key(DEV_PW), p.sid, p.client_pub, _server_pub())
            resp = ref.header(ref.SESSION_RESPONSE_SERVICE, 0x38) + p.sid.to_bytes(2, "big") + _server_pub() + mac
            real = p.real

            def _deliver() -> None:
                if not real.closed:
                    self.mark("SessionResponse", "s2c")
                    real.protocol.data_received(resp)

            self.loop.call_later(NET_DELAY, _deliver)
            return
        if svc != ref.WRAPPER_SERVICE or p.key is None:
            self.mark("plain-frame-in-secure-session", "c2s", raw=raw)
            return
        try:
            plain = ref.unwrap(p.key, raw, p.sid)
        except ref.RefError as e:
            self.mark("undecryptable-wrapper", "c2s", why=str(e))
            return
        isvc = int.from_bytes(plain[2:4], "big")
        if isvc == ref.SESSION_AUTHENTICATE_SERVICE:
            self.mark("SessionAuthenticate", "c2s")
            good = plain[7] == USER_ID and plain[8:24] == ref.session_authenticate_mac(_ref_user_key(USER_PW), plain[7], p.client_pub, _server_pub())
            p.authenticated = good
            status = ref.header(0x0954, 8) + bytes([0 if good else 1, 0])
            real = p.real

            def _deliver_status() -> None:
                if not real.closed:
                    self.mark("SessionStatus", "s2c", status=0 if good else 1)
                    p.data_received(status)

            self.loop.call_later(NET_DELAY, _deliver_status)
            return
        if isvc == 0x0954:
            self.mark("SessionStatus", "c2s", status=plain[6])
            return
        if not p.authenticated:
            self.mark("frame-before-authentication", "c2s", raw=plain)
            return
        try:
            frame, _ = KNXIPFrame.from_knx(plain)
        except Exception:  # noqa: BLE001
            self._log("c2s", None, plain)
            return
        self._safe_dispatch(p, frame, plain)


def make_cemi(i: int):
    from xknx.cemi import CEMIFrame, CEMILData, CEMIMessageCode
    from xknx.dpt import DPTArray
    from xknx.telegram import GroupAddress, IndividualAddress, Telegram
    from xknx.telegram.apci import GroupValueWrite

    tg = Telegram(destination_address=GroupAddress(0x0900 + i), payload=GroupValueWrite(DPTArray((0xA0, i & 0xFF))))
    return CEMIFrame(code=CEMIMessageCode.L_DATA_REQ, data=CEMILData.init_from_telegram(tg, src_addr=IndividualAddress("1.1.7")))


_PATCHED_KDF: dict[str, object] = {}


def _kdf_patches():
    """Memoise the two PBKDF2 derivations of SecureSession.__init__ (40 ms each) - harness cost only."""
    import xknx.io.ip_secure as ips

    if not _PATCHED_KDF:
        _PATCHED_KDF["user"] = functools.lru_cache(maxsize=None)(ips.derive_user_password)
        _PATCHED_KDF["dev"] = functools.lru_cache(maxsize=None)(ips.derive_device_authentication_password)
    return (
        mock.patch.object(ips, "derive_user_password", _PATCHED_KDF["user"]),
        mock.patch.object(ips, "derive_device_authentication_password", _PATCHED_KDF["dev"]),
    )


def execute(case):
    """Run one session. Returns an observation dict."""
    from xknx import XKNX
    from xknx.exceptions import CommunicationError
    from xknx.io.tunnel import SecureTunnel, TCPTunnel, UDPTunnel
    from xknx.knxip import ErrorCode

    transport = case["transport"]
    gw = Gateway(secure=transport == "secure")
    dr = case.get("disc_resp", "ok")
    gw.disc_default = tuple(dr) if isinstance(dr, list) else dr
    events = sorted(((int(k), i, kind) for i, (kind, k) in enumerate(case.get("events", []))))
    rec = {"active": 0, "max": 0, "entries": 0}
    obs = {"results": {}, "user_disc": None, "user_disc_exc": None, "session_ticks": None, "initial_connect": None}
    user_gone = [False]

    async def scenario(loop):
        gw.attach(loop)
        xknx = XKNX()
        cm = xknx.connection_manager
        if case.get("cm_loop"):
            await cm.register_loop()  # as XKNX.start() does: reports are queued with call_soon_threadsafe and applied later
        for i in (0, 1):
            cm.register_connection_state_changed_cb(lambda state, i=i: gw.mark("state", "cb", cb=i, state=state.name))
        base = {"udp": UDPTunnel, "tcp": TCPTunnel, "secure": SecureTunnel}[transport]

        class Wrapped(base):  # no __slots__: per-instance observation of _reconnect
            async def _reconnect(self):
                rec["active"] += 1
                rec["entries"] += 1
                rec["max"] = max(rec["max"], rec["active"])
                gw.mark("reconnect-enter", "mark", active=rec["active"])
                try:
                    await super()._reconnect()
                finally:
                    rec["active"] -= 1
                    gw.mark("reconnect-exit", "mark", active=rec["active"])

        common = dict(gateway_ip=GW_ADDR[0], gateway_port=GW_ADDR[1], auto_reconnect=case["auto_reconnect"], auto_reconnect_wait=3)
        if transport == "udp":
            tunnel = Wrapped(xknx, lambda raw: None, local_ip="10.0.0.2", **common)
        elif transport == "tcp":
            tunnel = Wrapped(xknx, lambda raw: None, **common)
        else:
            tunnel = Wrapped(xknx, lambda raw: None, user_id=USER_ID, user_password=USER_PW, device_authentication_password=DEV_PW, **common)
        send_no = itertools.count()

        async def send(tag: str) -> None:
            if user_gone[0]:
                return
            i = next(send_no)
            gw.mark("send-start", "mark", send=i, tag=tag)
            try:
                await tunnel.send_cemi(make_cemi(i))
                obs["results"][i] = "ok"
            except CommunicationError:
                obs["results"][i] = "comm"
            except asyncio.CancelledError:
                obs["results"][i] = "cancelled"
                raise
            except Exception as e:  # noqa: BLE001
                obs["results"][i] = "exc:" + exc_site(e)
            gw.mark("send-done", "mark", send=i, result=obs["results"][i])

        async def user_disconnect() -> None:
            user_gone[0] = True
            gw.mark("user_disconnect_called")
            if obs["user_disc"] is None:
                obs["user_disc"] = "called"
            try:
                await tunnel.disconnect()
                obs["user_disc"] = "returned"
            except asyncio.CancelledError:
                raise
            except Exception as e:  # noqa: BLE001
                obs["user_disc_exc"] = (exc_site(e), repr(e))
            gw.mark("user_disconnect_returned", "mark")

        spawned: list = []

        def fire(kind: str) -> None:
            gw.mark("inject:" + kind)
            if kind == "hb_drop":
                gw.hb_plan = ["drop"] * 4
            elif kind == "hb_err":
                gw.hb_plan = ["err"] * 4
            elif kind in ("srv_disc_own", "srv_disc_foreign"):
                # a server can only disconnect a channel it holds; inside a secure session it can only talk after authentication;
                # UDP datagrams may overtake frames in flight (delay 0), a TCP stream stays first-in-first-out
                usable = gw.tr is not None and not gw.tr.closed and (transport != "secure" or gw.tr.authenticated)
                if not usable or (kind == "srv_disc_own" and gw.channel is None):
                    gw.mark("noop:" + kind, "mark")
                elif kind == "srv_disc_own":
                    gw.server_disconnect(delay=0.0 if transport == "udp" else NET_DELAY + 1e-6)
                else:
                    gw.server_disconnect(channel=((gw.channel or 0) % 200) + 20, delay=0.0 if transport == "udp" else NET_DELAY + 1e-6)
            elif kind == "send_fail":
                if transport == "udp":
                    gw.ack_plan = ["drop", "drop"]
                spawned.append(loop.create_task(send("injected")))
            elif kind == "transport_loss":
                gw.mark("transport-lost-by-server")
                gw.lose_transport()
            elif kind == "user_disc":
                if user_gone[0]:
                    gw.mark("noop:user_disc", "mark")  # two concurrent disconnect() calls would be a race between user calls
                else:
                    user_gone[0] = True
                    spawned.append(loop.create_task(user_disconnect()))
            elif kind == "user_disc_hs":
                # the user's disconnect() runs FIRST in the loop iteration after the next ConnectResponse arrived, i.e. after
                # the response was received and before the connect() coroutine is resumed (the user's task was woken up
                # earlier in the same iteration than the response datagram was read)
                if user_gone[0] or gw.before_handshake is not None:
                    gw.mark("noop:user_disc_hs", "mark")
                else:
                    go = loop.create_future()

                    async def _user() -> None:
                        await go
                        if not user_gone[0]:
                            await user_disconnect()

                    spawned.append(loop.create_task(_user()))
                    gw.before_handshake = lambda _gw: (None if go.done() else go.set_result(None))
            elif kind == "connect_drop":
                gw.connect_plan = ["drop"]
            elif kind == "connect_err":
                gw.connect_plan = [("err", ErrorCode.E_NO_MORE_CONNECTIONS), ("err", ErrorCode.E_NO_MORE_CONNECTIONS)]
            elif kind == "open_refuse":
                gw.open_plan = ["refuse"]
            else:
                raise HarnessError("unknown event " + kind)

        pending = list(events)

        last_fire = [float("-inf")]

        def hook(tick: int) -> None:
            while pending and pending[0][0] <= tick:
                _, _, kind = pending.pop(0)
                last_fire[0] = loop.time()
                fire(kind)

        loop.tick_hooks.append(hook)
        # ---- the session ---------------------------------------------------
        try:
            await tunnel.connect()
            obs["initial_connect"] = "ok"
        except CommunicationError:
            obs["initial_connect"] = "failed"
        gw.mark("initial_connect_returned", "mark", result=obs["initial_connect"])
        if obs["initial_connect"] == "ok":
            await asyncio.sleep(0.2)
            await send("s0")
            await asyncio.sleep(0.3)
            await send("s1")
            await asyncio.sleep(HB + 5.0)
            await send("s2")
            await asyncio.sleep(1.0)
        obs["session_ticks"] = loop.tick
        gw.mark("session_end", "mark")
        await asyncio.sleep(TAIL)
        # every event is followed by TAIL quiet seconds; events scheduled beyond the end of this run fire now
        while True:
            if pending:
                hook(10**9)
            rest = last_fire[0] + TAIL - loop.time()
            if rest <= 0 and not pending:
                break
            await asyncio.sleep(max(rest, 0.0) + 0.001)
        obs["final"] = {
            "state": cm.state.name,
            "connected_event": cm.connected.is_set(),
            "client_channel": tunnel.communication_channel,
            "server_channel": gw.channel,
            "transport_open": tunnel.transport.transport is not None,
            "reconnect_task": tunnel._reconnect_task is not None,
            "t": loop.time(),
        }
        xknx.started.clear()
        return None

    patches = _kdf_patches() if transport == "secure" else ()
    for p in patches:
        p.start()
    try:
        _, loop = run_case(scenario, net=None, max_iters=400_000)
    finally:
        for p in patches:
            p.stop()
    if gw.errors:
        raise HarnessError("simulator error: " + gw.errors[0])
    obs["log"] = gw.log
    obs["reconnect"] = rec
    obs["escaped"] = loop.escaped
    return obs


FORBIDDEN_AFTER_DISCONNECT = ("ConnectRequest", "ConnectionStateRequest", "TunnellingRequest", "SessionRequest")


def judge(ctx, case, obs) -> None:
    log = obs["log"]
    final = obs["final"]
    for e in obs["escaped"]:
        ctx.fail(f"C25:escaped:{type(e['exception']).__name__}", case, e["repr"] + " " + e["message"])
    for i, r in obs["results"].items():
        if r.startswith("exc:"):
            ctx.fail(f"C25:send-raised-undeclared:{r[4:]}", case, f"send {i}")
    if obs["user_disc_exc"]:
        ctx.fail(f"C25:user-disconnect-raised:{obs['user_disc_exc'][0]}", case, obs["user_disc_exc"][1])
    # (a) one reconnect at a time
    if obs["reconnect"]["max"] > 1:
        ctx.fail("C25:reconnect-concurrent", case, f"_reconnect active {obs['reconnect']['max']} times at once ({obs['reconnect']['entries']} entries)")
    # (b) nothing after the user called disconnect()
    called = next((i for i, e in enumerate(log) if e["kind"] == "user_disconnect_called"), None)
    own_connect_done = next((i for i, e in enumerate(log) if e["kind"] == "initial_connect_returned"), len(log))
    # disconnect() called while the user's own connect() call is still pending: the user races two of his own calls, not judged
    racing_own_connect = called is not None and called < own_connect_done
    if called is not None and not racing_own_connect:
        after = [e for e in log[called + 1 :] if e["dir"] == "c2s"]
        # only the FIRST forbidden frame names the bucket: what follows a reconnect attempt is its consequence
        # a TunnellingRequest of a user send that was already queued may still leave while the Disconnect exchange is pending
        # (two user calls racing); once disconnect() has returned nothing at all may be sent
        returned = next((i for i, e in enumerate(log) if e["kind"] == "user_disconnect_returned"), len(log))
        pending_window = {id(e) for e in log[called + 1 : returned]}
        first = next((e for e in after if e["kind"] in FORBIDDEN_AFTER_DISCONNECT and not (e["kind"] == "TunnellingRequest" and id(e) in pending_window)), None)
        if first is not None:
            ctx.fail(f"C25:frame-after-user-disconnect:{first['kind']}", case, f"disconnect() called at t={log[called]['t']}, {first['kind']} written at t={first['t']}; later: {sorted({e['kind'] for e in after if e['kind'] in FORBIDDEN_AFTER_DISCONNECT})}")
        n_disc = sum(1 for e in after if e["kind"] == "DisconnectRequest")
        if n_disc > 1 and first is None:
            ctx.fail("C25:frame-after-user-disconnect:second-DisconnectRequest", case, f"{n_disc} DisconnectRequests written after disconnect() was called at t={log[called]['t']}")
        srv_disc_after = sum(1 for e in log[called + 1 :] if e["dir"] == "s2c" and e["kind"] == "DisconnectRequest")
        n_resp = sum(1 for e in after if e["kind"] == "DisconnectResponse")
        if n_resp > srv_disc_after:
            ctx.fail("C25:frame-after-user-disconnect:unsolicited-DisconnectResponse", case, f"{n_resp} DisconnectResponses for {srv_disc_after} server requests")
        if final["state"] != "DISCONNECTED":
            ctx.fail(f"C25:state-{final['state'].lower()}-after-user-disconnect", case, f"state reads {final['state']} {TAIL} s after the session; final={final}")
        if obs["user_disc"] != "returned" and not obs["user_disc_exc"]:
            ctx.fail("C25:user-disconnect-never-returned", case, f"disconnect() still pending {TAIL} s later")
    # (c) callbacks
    seqs = {0: [], 1: []}
    for idx, e in enumerate(log):
        if e["dir"] == "cb":
            seqs[e["cb"]].append((idx, e["state"]))
    s0 = [s for _, s in seqs[0]]
    s1 = [s for _, s in seqs[1]]
    if s0 != s1:
        ctx.fail("C25:callbacks-disagree", case, f"callback 0 saw {s0}, callback 1 saw {s1}")
    for a, b in zip(s0, s0[1:]):
        if a == b:
            ctx.fail("C25:callback-same-state-twice", case, f"reported states {s0}")
            break
    prev_idx = -1
    for idx, s in seqs[0]:
        if s == "CONNECTED":
            ok = any(e["dir"] == "s2c" and e["kind"] == "ConnectResponse" and e.get("handshake") for e in log[prev_idx + 1 : idx])
            if not ok:
                ctx.fail("C25:connected-reported-without-handshake", case, f"CONNECTED reported at t={log[idx]['t']} with no Connect handshake delivered since the previous CONNECTED report; reports {s0}")
                break
            # every CONNECTED report is backed by a handshake of its own; a DISCONNECTED reported between the arrival of the
            # ConnectResponse and the resumption of connect() (user disconnect in that very iteration) does not use it up
            prev_idx = idx
    if final["connected_event"] != (final["state"] == "CONNECTED"):
        ctx.fail("C25:connected-event-inconsistent", case, f"final={final}")
    if (s0[-1] if s0 else "DISCONNECTED") != final["state"]:
        ctx.fail("C25:last-reported-state-differs-from-state", case, f"reports {s0}, final={final}")
    if called is None or racing_own_connect:
        live = final["server_channel"] is not None and final["client_channel"] == final["server_channel"] and final["transport_open"]
        if final["state"] == "CONNECTED" and not live:
            # root-cause hint: was a loss signalled in the very loop iteration in which a reconnect task finished?
            exits = {e["tick"] for e in log if e["kind"] == "reconnect-exit"}
            lost_then = any(e["tick"] in exits for e in log if (e["dir"] == "s2c" and e["kind"] == "DisconnectRequest") or e["kind"] == "transport-lost-by-server")
            why = "loss-in-iteration-reconnect-finished" if lost_then else "other"
            ctx.fail(f"C25:state-connected-without-connection:{why}", case, f"final={final}")
        hs = [i for i, e in enumerate(log) if e["dir"] == "s2c" and e["kind"] == "ConnectResponse" and e.get("handshake")]
        if hs:
            later = [e for e in log[hs[-1] + 1 :] if e["dir"] == "ev" or e["kind"] in ("DisconnectRequest", "transport_closed")]
            if not later and final["state"] != "CONNECTED":
                ctx.fail("C25:state-not-connected-after-undisturbed-handshake", case, f"final={final}; reports {s0}")
            if not later and not live:
                ctx.fail("C25:no-connection-after-undisturbed-handshake", case, f"final={final}")


def _digest(log) -> tuple:
    """Shape of the wire traffic (kinds only) - to tell whether an injected event changed anything."""
    return tuple((e["dir"], e["kind"]) for e in log if e["dir"] in ("c2s", "s2c"))


def check_case(ctx, case, baseline=None):
    """Returns (session_ticks, changed) or None when inconclusive."""
    try:
        obs = execute(case)
    except (BudgetExceeded, Deadlock):
        ctx.notes["inconclusive"] = ctx.notes.get("inconclusive", 0) + 1
        return None
    except HarnessError:
        raise
    except Exception as e:  # noqa: BLE001
        ctx.fail(f"C25:scenario-exc:{exc_site(e)}", case, repr(e))
        return None
    judge(ctx, case, obs)
    changed = baseline is None or _digest(obs["log"]) != baseline
    return obs["session_ticks"], changed, _digest(obs["log"])


_BASE: dict[tuple, tuple] = {}


def baseline(transport: str, ar: bool, ctx=None, cm_loop: bool = False) -> tuple:
    """(N, digest) of the fault-free session. A property violation in the fault-free session itself is
    recorded on `ctx` like any other (never a harness error); only an inconclusive run is."""
    key = (transport, ar, cm_loop)
    if key not in _BASE:
        from vk.core import Ctx

        c = ctx if ctx is not None else Ctx("C25", "quick", 0)
        r = check_case(c, {"transport": transport, "auto_reconnect": ar, "events": [], **({"cm_loop": True} if cm_loop else {})})
        if r is None or r[0] is None:
            raise HarnessError(f"fault-free session did not complete for {key}")
        _BASE[key] = (r[0], r[2])
    return _BASE[key]


def _single_shard(ctx, transport: str, ar: bool, kind: str, lo: int, hi: int) -> None:
    N, dig = baseline(transport, ar)
    n = nt = 0
    for k in range(max(lo, 2), min(hi, N) + 1):  # the session's first step runs in iteration 1: 2 is the first injection point
        case = {"transport": transport, "auto_reconnect": ar, "events": [[kind, k]]}
        r = check_case(ctx, case, dig)
        n += 1
        if r is not None and r[1]:
            nt += 1
    ctx.bulk(n, nt, f"single:{kind}")
    ctx.classes[f"{transport}{'+ar' if ar else ''}"] += n
    if lo == 1 and kind == "user_disc" and ar:
        ctx.sample({"transport": transport, "auto_reconnect": ar, "kind": kind, "ticks": f"1..{N}"})


def _loop_shard(ctx, transport: str, ka: str, kb) -> None:
    """The same session with a main loop registered on the ConnectionManager (state reports applied one iteration later):
    every single event (kb None) or every pair at most 1 iteration apart, auto_reconnect on."""
    N, dig = baseline(transport, True, None, True)
    n = nt = 0
    for k in range(2, N + 1):
        for d in ((0,) if kb is None else (0, 1)):
            if ka == kb and d == 0:
                continue
            ev = [[ka, k]] + ([[kb, k + d]] if kb is not None else [])
            r = check_case(ctx, {"transport": transport, "auto_reconnect": True, "cm_loop": True, "events": ev}, dig)
            n += 1
            if r is not None and r[1]:
                nt += 1
    ctx.bulk(n, nt, "registered-loop:" + ("single" if kb is None else "pair"))


def _adjacent_shard(ctx, transport: str, ar: bool, ka: str, kb: str, dmax: int, dr, dmin: int = 0) -> None:
    N, dig = baseline(transport, ar)
    n = nt = 0
    for k in range(2, N + 1):
        for d in range(dmin, dmax + 1):
            if ka == kb and d == 0:
                continue
            case = {"transport": transport, "auto_reconnect": ar, "disc_resp": dr, "events": [[ka, k], [kb, k + d]]}
            r = check_case(ctx, case, dig)
            n += 1
            if r is not None and r[1]:
                nt += 1
    ctx.bulk(n, nt, "adjacent-pairs")


def _first_reconnect_exit(transport: str, kind: str, k1: int):
    """Loop iteration in which the reconnect started by a single loss at k1 finishes (None: no reconnect)."""
    try:
        obs = execute({"transport": transport, "auto_reconnect": True, "events": [[kind, k1]]})
    except (BudgetExceeded, Deadlock):
        return None
    return next((e["tick"] for e in obs["log"] if e["kind"] == "reconnect-exit" and e["tick"] > k1), None)


def _triple_shard(ctx, transport: str, kind1: str, lo: int, hi: int, d3max: int) -> None:
    """Three losses on an auto-reconnecting tunnel: #1 at every iteration, #2 in (and next to) the iteration in which the
    reconnect started by #1 finishes - learned by running #1 alone -, #3 one to d3max iterations later while the second
    reconnect runs; optionally the user disconnects a little later."""
    N, dig = baseline(transport, True)
    second = ["srv_disc_own"] if transport == "udp" else ["transport_loss"]  # what can land inside that very iteration
    third = ["srv_disc_own", "srv_disc_foreign"] if transport == "udp" else ["transport_loss", "srv_disc_own", "srv_disc_foreign"]
    n = nt = 0
    for k1 in range(max(lo, 2), min(hi, N) + 1):
        t_exit = _first_reconnect_exit(transport, kind1, k1)
        if t_exit is None:
            continue
        for k2 in (t_exit - 1, t_exit, t_exit + 1):
            for kind2 in second:
                for d3 in range(1, d3max + 1):
                    for kind3 in third:
                        tails = [[]] + ([[["user_disc", k2 + d3 + 6]]] if d3 == 2 else [])
                        for tail in tails:
                            case = {"transport": transport, "auto_reconnect": True, "disc_resp": "ok", "events": [[kind1, k1], [kind2, k2], [kind3, k2 + d3], *tail]}
                            r = check_case(ctx, case, dig)
                            n += 1
                            if r is not None and r[1]:
                                nt += 1
    ctx.bulk(n, nt, "triples:reconnect-completion-window")
    if lo <= 2 and kind1 == "srv_disc_own":
        ctx.sample({"triples": transport, "first": kind1, "second": second, "third": third, "third_within": d3max})


@st.composite
def triple_cases(draw):
    """Sampled triples (+ optional later user disconnect) beyond the enumerated core."""
    transport = draw(st.sampled_from(["udp", "tcp", "secure"]))
    N, _ = baseline(transport, True)
    losses = [k for k in ("srv_disc_own", "srv_disc_foreign", "transport_loss", "send_fail", "hb_err") if k in kinds_for(transport)]
    k1 = draw(st.integers(2, N))
    k2 = k1 + draw(st.integers(0, 14))
    k3 = k2 + draw(st.integers(0, 8))
    ev = [[draw(st.sampled_from(losses)), k1], [draw(st.sampled_from(losses)), k2], [draw(st.sampled_from(losses)), k3]]
    if draw(st.booleans()):
        ev.append(["user_disc", k3 + draw(st.integers(0, 12))])
    return {"transport": transport, "auto_reconnect": True, "disc_resp": draw(st.sampled_from(["ok", "ok", ["delay", 0.5], "drop"])), "events": ev}


def _triple_oracle(ctx, case) -> None:
    _, dig = baseline(case["transport"], True)
    r = check_case(ctx, case, dig)
    ctx.case(repr(sorted(case.items())), nontrivial=bool(r and r[1]), cls=["triple", f"{case['transport']}+ar"], sample={"events": case["events"], "transport": case["transport"]} if len(ctx.samples) < 1 else None)


def _triple_hyp_shard(ctx, n: int) -> None:
    hyp_search(ctx, triple_cases(), _triple_oracle, n, seed_salt=7)


@st.composite
def pair_cases(draw):
    transport, ar = draw(st.sampled_from(VARIANTS))
    N, _ = baseline(transport, ar)
    kinds = kinds_for(transport)
    ka = draw(st.sampled_from(kinds))
    kb = draw(st.sampled_from(kinds))
    k1 = draw(st.integers(1, N))
    if draw(st.booleans()):
        k2 = k1 + draw(st.integers(0, 4))
    else:
        k2 = k1 + draw(st.integers(0, 60))
    dr = draw(st.sampled_from(["ok", "ok", ["delay", 0.5], "drop"]))
    return {"transport": transport, "auto_reconnect": ar, "disc_resp": dr, "events": [[ka, k1], [kb, k2]]}


def _pair_oracle(ctx, case) -> None:
    _, dig = baseline(case["transport"], case["auto_reconnect"])
    r = check_case(ctx, case, dig)
    kinds = sorted(e[0] for e in case["events"])
    ctx.case(
        repr(sorted(case.items())),
        nontrivial=bool(r and r[1]),
        cls=["pair", f"{case['transport']}{'+ar' if case['auto_reconnect'] else ''}", "disc_resp:" + (case["disc_resp"] if isinstance(case["disc_resp"], str) else "late")],
        sample={"pair": kinds, "ticks": [e[1] for e in case["events"]], "transport": case["transport"], "disc_resp": case["disc_resp"]} if len(ctx.samples) < 2 else None,
    )


def _pair_shard(ctx, n: int) -> None:
    hyp_search(ctx, pair_cases(), _pair_oracle, n)


# ---------------------------------------------------------------------------
# ConnectionManager alone vs a dedup model


def cm_execute(case):
    """ops: [op, a, b] with op in reg / reg1 (self-unregistering) / unreg (a = callback id), report (a = state, b = type index)
    and burst (a = [[state, type], ...] issued back-to-back without yielding to the loop). With case['loop'] the manager has a
    registered main loop (reports are queued with call_soon_threadsafe and applied later); the loop runs after every op.
    Model: dedup over the reports in issue order."""
    from xknx.core import XknxConnectionState, XknxConnectionType
    from xknx.core.connection_manager import ConnectionManager

    states = list(XknxConnectionState)
    types = list(XknxConnectionType)
    problems: list[tuple[str, str]] = []

    async def scenario(loop):
        cm = ConnectionManager()
        if case["loop"]:
            await cm.register_loop()
        calls: list[tuple[int, str]] = []
        registered: dict[int, object] = {}  # model: id -> callable, insertion ordered
        oneshot: set[int] = set()
        model_state = XknxConnectionState.DISCONNECTED
        model_type = XknxConnectionType.NOT_CONNECTED
        any_oneshot = any(o[0] == "reg1" for o in case["ops"])

        def make(i: int, one: bool):
            def cb(state):
                calls.append((i, state.name))
                if one:
                    cm.unregister_connection_state_changed_cb(cb)

            return cb

        for step, (op, a, b) in enumerate(case["ops"]):
            calls.clear()
            expect: dict[int, list[str]] = {}
            before = model_state
            if op == "reg" or op == "reg1":
                if a not in registered:
                    registered[a] = make(a, op == "reg1")
                    if op == "reg1":
                        oneshot.add(a)
                    cm.register_connection_state_changed_cb(registered[a])
            elif op == "unreg":
                f = registered.pop(a, None)
                oneshot.discard(a)
                cm.unregister_connection_state_changed_cb(f if f is not None else make(99, False))
            elif op in ("report", "burst"):
                reports = [(a, b)] if op == "report" else [tuple(r) for r in a]
                for sa, tb in reports:  # issued back-to-back, the loop does not run in between
                    st_, ty = states[sa % len(states)], types[tb % len(types)]
                    cm.connection_state_changed(st_, ty)
                    if st_ != model_state:
                        model_state, model_type = st_, ty
                        for i in list(registered):
                            expect.setdefault(i, []).append(st_.name)
                            if i in oneshot:
                                del registered[i]
                                oneshot.discard(i)
            if case["loop"]:
                for _ in range(3):
                    await asyncio.sleep(0)
            got: dict[int, list[str]] = {}
            for i, name in calls:
                got.setdefault(i, []).append(name)
            where = f"step {step} {op}({a},{b})"
            if got != expect:
                def dup(seq, first):
                    prev = first
                    for x in seq:
                        if x == prev:
                            return True
                        prev = x
                    return False

                if any(dup(seq, before.name) for seq in got.values()):
                    key = "callback-same-state-twice"
                elif any(len(got.get(i, [])) < len(e) for i, e in expect.items()):
                    key = "callback-skipped-when-another-unregisters" if any_oneshot and op == "report" else "callback-missing"
                else:
                    key = "callback-unexpected"
                problems.append((key, f"{where}: calls {got}, expected {expect}"))
            if cm.state != model_state:
                problems.append(("state", f"{where}: state {cm.state} model {model_state}"))
            if cm.connected.is_set() != (model_state == XknxConnectionState.CONNECTED):
                problems.append(("connected-event", f"{where}: connected={cm.connected.is_set()} model {model_state}"))
            if cm.connection_type != model_type:
                problems.append(("connection-type", f"{where}: {cm.connection_type} model {model_type}"))
            if (cm.connected_since is not None) != (model_state == XknxConnectionState.CONNECTED):
                problems.append(("connected-since", f"{where}: connected_since={cm.connected_since} model {model_state}"))
            if problems:
                break  # lock-step: the model is out of sync from here on
        return None

    _, loop = run_case(scenario, max_iters=100_000)
    for e in loop.escaped:
        problems.append((f"escaped:{type(e['exception']).__name__}", e["repr"]))
    return problems


def cm_check(ctx, case) -> None:
    try:
        problems = cm_execute(case)
    except (BudgetExceeded, Deadlock):
        ctx.notes["inconclusive"] = ctx.notes.get("inconclusive", 0) + 1
        return
    if problems:
        # lock-step model: after the first divergence the model is out of sync, only the first problem is a verdict
        key, detail = problems[0]
        ctx.fail(f"C25:cm:{key}", case, detail)


_cm_report = st.tuples(st.integers(0, 2), st.integers(0, 5))
_cm_burst = st.one_of(
    st.lists(_cm_report, min_size=2, max_size=4),
    # shapes that matter with a registered loop: same state twice, A-B-A, A-B-B, A-A-B
    st.tuples(st.integers(0, 2), st.integers(1, 2), st.sampled_from(["AA", "ABA", "ABB", "AAB", "ABAB", "ABBA"])).map(
        lambda t: [[(t[0] + (t[1] if c == "B" else 0)) % 3, 1 + i] for i, c in enumerate(t[2])]
    ),
).map(lambda l: [list(r) for r in l])
_cm_op = st.one_of(
    st.tuples(st.just("burst"), _cm_burst, st.just(0)),
    st.tuples(st.just("burst"), _cm_burst, st.just(0)),
    st.tuples(st.just("report"), st.integers(0, 2), st.integers(0, 5)),
    st.tuples(st.just("report"), st.integers(0, 2), st.integers(0, 5)),
    st.tuples(st.just("reg"), st.integers(0, 3), st.just(0)),
    st.tuples(st.just("reg1"), st.integers(0, 3), st.just(0)),
    st.tuples(st.just("unreg"), st.integers(0, 3), st.just(0)),
)
cm_cases = st.fixed_dictionaries({"cm": st.just(True), "loop": st.booleans(), "ops": st.lists(_cm_op, min_size=1, max_size=14).map(lambda l: [list(o) for o in l])})


def _cm_oracle(ctx, case) -> None:
    cm_check(ctx, case)
    ops = [o[0] for o in case["ops"]]
    ctx.case(repr(case), nontrivial=ops.count("report") + 2 * ops.count("burst") >= 2 and ("reg" in ops or "reg1" in ops), cls=["cm", "cm:loop-registered" if case["loop"] else "cm:direct", *(["cm:burst"] if "burst" in ops else [])], sample=case if len(ops) > 8 and ctx.shard == 0 and len(ctx.samples) < 3 else None)


def _cm_enum_shard(ctx, loop_registered: bool) -> None:
    """Every burst of 1..4 reports over the three states, from every applied state, two callbacks registered."""
    n = nt = 0
    for init in range(3):
        for length in range(1, 5):
            for burst in itertools.product(range(3), repeat=length):
                case = {"cm": True, "loop": loop_registered, "ops": [["reg", 0, 0], ["reg", 1, 0], ["report", init, 1], ["burst", [[sx, 2 + i] for i, sx in enumerate(burst)], 0], ["report", (burst[-1] + 1) % 3, 1]]}
                cm_check(ctx, case)
                n += 1
                nt += length >= 2
    ctx.bulk(n, nt, "cm:enum-bursts" + (":loop-registered" if loop_registered else ":direct"))


def _cm_shard(ctx, n: int) -> None:
    hyp_search(ctx, cm_cases, _cm_oracle, n)


# ---------------------------------------------------------------------------


# ---------------------------------------------------------------------------
# interface level: KNXIPInterface.start() / stop() (xknx/io/knxip_interface.py)

IFACE_CONNECT = ["ok", ["delay", 0.3], "drop"]
IFACE_CONFIGS = [(t, ar, c) for t in ("udp", "tcp", "secure") for ar in (True, False) for c in range(len(IFACE_CONNECT))]


def iface_execute(case):
    """start() as a task against a gateway whose ConnectResponse is prompt / 0.3 s late / missing; stop() at a generated
    loop iteration (None: never). If the start succeeds the session sends once and idles across a heartbeat."""
    from xknx import XKNX
    from xknx.exceptions import XKNXException
    from xknx.io import ConnectionConfig, ConnectionType, SecureConfig

    transport = case["transport"]
    gw = Gateway(secure=transport == "secure")
    o = case.get("connect", "ok")
    gw.connect_plan = [tuple(o) if isinstance(o, list) else o]
    obs = {"start": None, "stop": None, "session_ticks": None}

    async def scenario(loop):
        gw.attach(loop)
        kw = dict(gateway_ip=GW_ADDR[0], gateway_port=GW_ADDR[1], auto_reconnect=case["auto_reconnect"], auto_reconnect_wait=3)
        if transport == "udp":
            cfg = ConnectionConfig(connection_type=ConnectionType.TUNNELING, local_ip="10.0.0.2", **kw)
        elif transport == "tcp":
            cfg = ConnectionConfig(connection_type=ConnectionType.TUNNELING_TCP, **kw)
        else:
            cfg = ConnectionConfig(connection_type=ConnectionType.TUNNELING_TCP_SECURE, secure_config=SecureConfig(user_id=USER_ID, user_password=USER_PW, device_authentication_password=DEV_PW), **kw)
        xknx = XKNX(connection_config=cfg)
        cm = xknx.connection_manager
        iface = xknx.knxip_interface
        for i in (0, 1):
            cm.register_connection_state_changed_cb(lambda state, i=i: gw.mark("state", "cb", cb=i, state=state.name))
        stopped = [False]

        async def start() -> None:
            gw.mark("user_start_called", "mark")
            try:
                await iface.start()
                obs["start"] = "ok"
            except asyncio.CancelledError:
                raise
            except XKNXException as e:
                obs["start"] = "failed:" + type(e).__name__
            except Exception as e:  # noqa: BLE001
                obs["start"] = "exc:" + exc_site(e)
            gw.mark("user_start_returned", "mark", result=obs["start"])

        async def stop() -> None:
            stopped[0] = True
            gw.mark("user_stop_called")
            try:
                await iface.stop()
                obs["stop"] = "returned"
            except asyncio.CancelledError:
                raise
            except Exception as e:  # noqa: BLE001
                obs["stop"] = "exc:" + exc_site(e)
            gw.mark("user_stop_returned", "mark", result=obs["stop"])

        k = case.get("stop_tick")
        fired = [False]
        tasks = []

        def hook(tick: int) -> None:
            if k is not None and not fired[0] and tick >= k:
                fired[0] = True
                tasks.append(loop.create_task(stop()))

        loop.tick_hooks.append(hook)
        start_task = loop.create_task(start())
        await asyncio.wait([start_task])
        if obs["start"] == "ok" and not stopped[0]:
            await asyncio.sleep(0.2)
            if not stopped[0]:
                try:
                    await iface.send_cemi(make_cemi(0))
                except XKNXException:
                    pass
            await asyncio.sleep(HB + 5.0)
        obs["session_ticks"] = loop.tick
        gw.mark("session_end", "mark")
        await asyncio.sleep(TAIL)
        if k is not None and not fired[0]:
            hook(10**9)
            await asyncio.sleep(TAIL)
        obs["final"] = {"state": cm.state.name, "connected_event": cm.connected.is_set(), "interface": type(iface._interface).__name__, "server_channel": gw.channel, "t": loop.time()}
        xknx.started.clear()
        return None

    patches = _kdf_patches() if transport == "secure" else ()
    for p in patches:
        p.start()
    try:
        _, loop = run_case(scenario, net=None, max_iters=400_000)
    finally:
        for p in patches:
            p.stop()
    if gw.errors:
        raise HarnessError("simulator error: " + gw.errors[0])
    obs["log"] = gw.log
    obs["escaped"] = loop.escaped
    return obs


_WIRE_MARKERS = ("transport_closed", "stream_open")


def iface_judge(ctx, case, obs) -> None:
    log, final = obs["log"], obs["final"]
    for e in obs["escaped"]:
        ctx.fail(f"C25:iface:escaped:{type(e['exception']).__name__}", case, e["repr"] + " " + e["message"])
    for what in ("start", "stop"):
        if (obs[what] or "").startswith("exc:"):
            ctx.fail(f"C25:iface:{what}-raised-undeclared:{obs[what][4:]}", case, obs[what])
    called = next((i for i, e in enumerate(log) if e["kind"] == "user_stop_called"), None)
    states = [e["state"] for e in log if e["dir"] == "cb" and e["cb"] == 0]
    for a, b in zip(states, states[1:]):
        if a == b:
            ctx.fail("C25:iface:callback-same-state-twice", case, f"reported states {states}")
            break
    if called is None:
        if obs["start"] == "ok" and final["state"] != "CONNECTED":
            ctx.fail("C25:iface:state-not-connected-after-start", case, f"final={final}")
        if obs["start"] != "ok" and final["state"] == "CONNECTED":
            ctx.fail("C25:iface:state-connected-after-failed-start", case, f"final={final}")
        return
    if obs["stop"] != "returned":
        if obs["stop"] is None:
            ctx.fail("C25:iface:stop-never-returned", case, f"stop() still pending {TAIL} s later")
        return
    returned = next(i for i, e in enumerate(log) if e["kind"] == "user_stop_returned")
    # where was start() when stop() was called? (root-cause key: what stop() can reach differs per phase)
    before = log[:called]
    if any(e["dir"] == "s2c" and e["kind"] == "ConnectResponse" and e.get("handshake") for e in before):
        phase = "established"
    elif any(e["dir"] == "c2s" and e["kind"] not in _WIRE_MARKERS for e in before):
        phase = "handshake-pending"
    else:
        phase = "transport-opening"
    # once stop() has returned the user has disconnected: nothing is written any more, nothing is (re)established
    late = [e for e in log[returned + 1 :] if e["dir"] == "c2s" and e["kind"] not in _WIRE_MARKERS]
    if late:
        ctx.fail(f"C25:iface:frame-after-stop-returned:{phase}:{late[0]['kind']}", case, f"stop() returned at t={log[returned]['t']}; written afterwards: {[(e['t'], e['kind']) for e in late[:6]]}")
    conn_after = [e for e in log[returned + 1 :] if e["dir"] == "cb" and e["cb"] == 0 and e["state"] == "CONNECTED"]
    if conn_after:
        ctx.fail(f"C25:iface:connected-reported-after-stop-returned:{phase}", case, f"stop() returned at t={log[returned]['t']}, CONNECTED reported at t={conn_after[0]['t']}")
    if final["state"] == "CONNECTED":
        ctx.fail(f"C25:iface:state-connected-after-stop:{phase}", case, f"final={final}")
    if final["connected_event"] != (final["state"] == "CONNECTED"):
        ctx.fail("C25:iface:connected-event-inconsistent", case, f"final={final}")


def iface_check(ctx, case):
    try:
        obs = iface_execute(case)
    except (BudgetExceeded, Deadlock):
        ctx.notes["inconclusive"] = ctx.notes.get("inconclusive", 0) + 1
        return None
    except HarnessError:
        raise
    except Exception as e:  # noqa: BLE001
        ctx.fail(f"C25:iface:scenario-exc:{exc_site(e)}", case, repr(e))
        return None
    iface_judge(ctx, case, obs)
    return obs


def _iface_shard(ctx, transport: str, ar: bool, ci: int) -> None:
    """stop() at every loop iteration of the start()/session run of one configuration (its length is learned first)."""
    base = {"iface": True, "transport": transport, "auto_reconnect": ar, "connect": IFACE_CONNECT[ci]}
    obs = iface_check(ctx, {**base, "stop_tick": None})
    if obs is None:
        raise HarnessError(f"interface session without stop() did not complete: {base}")
    N = obs["session_ticks"]
    n = 1
    for k in range(2, N + 2):
        iface_check(ctx, {**base, "stop_tick": k})
        n += 1
    ctx.bulk(n, n - 1, "iface:stop-at-every-iteration")
    ctx.classes[f"iface:{transport}:connect-{IFACE_CONNECT[ci] if isinstance(IFACE_CONNECT[ci], str) else 'late'}"] += n
    if ci == 1 and ar and transport == "udp":
        ctx.sample({"iface": base, "stop_ticks": f"2..{N + 1}"})


def selftest(ctx) -> None:
    ref.selftest()


def _job(ctx, what: str, *args) -> None:
    """One fork pool for everything (forking is the expensive part on a busy box)."""
    {"single": _single_shard, "adjacent": _adjacent_shard, "pairs": _pair_shard, "cm": _cm_shard, "cm-enum": _cm_enum_shard, "loop": _loop_shard, "iface": _iface_shard, "triples": _triple_shard, "triples-hyp": _triple_hyp_shard}[what](ctx, *args)


def run(ctx) -> None:
    jobs: list[tuple] = [("cm", ctx.n(300, 5000))] * 4 + [("cm-enum", True), ("cm-enum", False)]
    ns = {}
    for transport, ar in VARIANTS:
        N, _ = baseline(transport, ar, ctx)  # cached here, inherited by the forked shards
        ctx.case(("fault-free", transport, ar), False, "fault-free")
        ns[f"{transport}{'+ar' if ar else ''}"] = N
        for kind in kinds_for(transport):
            jobs.append(("single", transport, ar, kind, 1, N))
    ctx.notes["fault_free_session_iterations"] = ns
    jobs += [("pairs", ctx.n(120, 2500))] * 16
    near = INSTANT if ctx.quick else KINDS_ALL
    jobs += [
        ("adjacent", t, ar, ka, kb, ctx.n(2, 6), dr)
        for t, ar in VARIANTS
        for ka in near
        for kb in near
        for dr in (["ok"] if ctx.quick else ["ok", ["delay", 0.5], "drop"])
        if ka in kinds_for(t) and kb in kinds_for(t)
    ]
    # second event inside / at the end of the reconnect started by the first one (a reconnect takes 4..12 iterations)
    losses = ["srv_disc_own", "transport_loss"] if ctx.quick else ["srv_disc_own", "srv_disc_foreign", "transport_loss"]
    jobs += [("adjacent", t, True, ka, kb, ctx.n(12, 16), "ok", ctx.n(3, 7)) for t in ("udp", "tcp", "secure") for ka in losses for kb in [*losses, "user_disc"] if ka in kinds_for(t) and kb in kinds_for(t)]
    # user_disc_hs armed first (any earlier iteration), then a loss: the disconnect lands right behind the ConnectResponse of the reconnect
    jobs += [("adjacent", t, True, "user_disc_hs", kb, ctx.n(12, 16), "ok", 0) for t in ("udp", "tcp", "secure") for kb in losses if kb in kinds_for(t)]
    # three losses: #2 inside the loop iteration in which the reconnect started by #1 finishes, #3 while the next one runs
    for t in ("udp", "tcp", "secure"):
        N, _ = baseline(t, True)
        firsts = ["srv_disc_own", "send_fail"] if t == "udp" else ["srv_disc_own", "transport_loss"]
        jobs += [("triples", t, k1kind, lo, lo + 5, ctx.n(5, 8)) for k1kind in firsts for lo in range(2, N + 1, 6)]
    jobs += [("triples-hyp", ctx.n(40, 1500))] * 16
    jobs += [("iface", t, ar, ci) for t, ar, ci in IFACE_CONFIGS]
    # ConnectionManager with a registered main loop under the tunnel session
    for t in ("udp", "tcp", "secure"):
        baseline(t, True, ctx, True)
        ctx.case(("fault-free", t, True, "loop"), False, "fault-free")
        jobs += [("loop", t, ka, None) for ka in kinds_for(t)]
        if t != "secure" or not ctx.quick:
            jobs += [("loop", t, ka, kb) for ka in INSTANT for kb in INSTANT if ka in kinds_for(t) and kb in kinds_for(t)]
    parallel(ctx, _job, jobs)
    ctx.notes["adjacent_pairs_enumerated"] = {"kinds": near, "max_iterations_apart": ctx.n(2, 6), "also": "loss x loss/user_disc pairs up to %d iterations apart with auto_reconnect" % ctx.n(12, 16)}
    ctx.exhaustive = False
    ctx.notes["single_events_every_iteration"] = True


def replay(ctx, case) -> None:
    if case.get("iface"):
        iface_check(ctx, case)
    elif case.get("cm"):
        cm_check(ctx, case)
    else:
        check_case(ctx, case)
