"""C31 - keyrings load exactly what they contain and reject tampering.

Random ETS projects are written by the independent writer vk/ref/keyring_writer.py (validated in
selftest by regenerating the Signature and every ciphertext of the six real ETS exports byte for
byte) and loaded with xknx.secure.keyring.sync_load_keyring:

 load      every loaded field and accessor equals the generated project;
 unsigned  single unsigned changes (attribute order, white space, line ends, BOM, quoting style,
           empty-element style, comments, missing XML declaration) load identically;
 mutation  every single change of signed content (attribute value / name / presence, element
           name / presence / order / nesting, the Signature itself) raises InvalidSecureConfiguration;
 weak-sig  a Signature attribute that is missing, empty, truncated to 1..15 octets of the right value
           or extended by extra octets (zero, arbitrary, the rest of the SHA-256) - alone, with a wrong
           password and combined with content mutations - raises InvalidSecureConfiguration;
 password  near-miss passwords raise InvalidSecureConfiguration;
 real      the same four on the six real exports (expected content via the writer's own reader).
 long      the same oracle for keyrings with signed strings around / beyond 255 UTF-8 octets (Senders
           lists of 30..80 senders with exact lengths 254..600, project names with multi-byte characters):
           the length octet of the signature walk is the low octet of the length (ETS; writer wrap=True).
"""

from __future__ import annotations

import asyncio
import base64
import functools
import gc
import hashlib
import os
import shutil
import tempfile
import traceback

from hypothesis import strategies as st

from vk.core import HarnessError, exc_site
from vk.engine import hyp_search, parallel
from vk.ref import keyring_writer as kw
from xknx.exceptions.exception import InvalidSecureConfiguration
from xknx.secure import keyring as xk
from xknx.telegram import GroupAddress, IndividualAddress

PROPERTY = "C31"
LEVEL = "exploration"
TECHNIQUE = "property-based testing (Hypothesis) with an independent file writer + enumeration of single mutations per file"
RULE = (
    "Hypothesis-generated ETS projects (0-4 interfaces of the types Tunneling/Backbone/USB with or without "
    "host, user id, password, authentication and 0-5 assigned groups with 0-4 senders; 0-8 group keys; 0-5 "
    "devices with optional tool key / passwords / sequence number; optional backbone; project names and "
    "passwords with XML-special and non-ASCII characters) written by the independent writer; per project: "
    "1 load compared field by field, every single-aspect unsigned variant, 10-24 generated single mutations "
    "of signed content plus one mutation of every kind on a fixed target, all 20 weakened Signature forms (removed, "
    "empty, truncated to 1..15 octets, 3 extensions) alone, 6 of them with a wrong password and one per content "
    "mutation (real exports: every weakening x every mutation kind), 4 near-miss passwords; plus the six "
    "real ETS exports with every mutation kind applied to every attribute / element once (plus random ones). Non-trivial = a project with >= 1 interface and >= 1 "
    "group key, or any mutation / wrong-password / unsigned-variant case (keyed by the file bytes)."
)
ASSUMPTIONS = [
    "the ETS keyring scheme is the one reproduced by the writer; its canonicalisation, key/password encryption and rendering regenerate the stored Signature, all 85 ciphertexts and the exact bytes of the six real ETS exports (self-test)",
    "strings longer than 255 UTF-8 octets contribute the low octet of their length to the signature walk (ETS / byte-stream writers; xknx since e3d29f7); passwords <= 23 octets (ETS: 20 characters) in the 32-octet ETS layout",
    "mutated files stay well-formed XML; the Signature attribute is only replaced by valid base64 (other octets, fewer or more octets, empty) or removed; a keyring without a valid 16-octet signature must be refused with InvalidSecureConfiguration",
    "get_data_secure_senders() is modelled as documented: senders of all interface groups default to 0, devices contribute their SequenceNumber (0 if absent)",
    "PBKDF2 results are memoised around xknx's real hash_keyring_password (pure function) to afford the case count",
]
LEVEL_TEXT = (
    "Generated search against an independent writer validated on real ETS exports; single-mutation "
    "enumeration per file. No violation means none in the explored files, not a proof."
)
LEVEL_NOTE = "Trusted: AES block primitive, SHA-256, PBKDF2 (hashlib), the writer (validated on 6 real exports), Hypothesis, expat."

RESOURCES = os.path.join(os.environ.get("VERIF_REPO", "/repo"), "test", "secure_tests", "resources")
CREATED_BY = ["ETS 5.7.7 (Build 1428)", "ETS 5.7.2 (Build 743)", "ETS 6.1.1 (Build 6127)", "ETS 6.2.2 (Build 7572)"]
TYPES = ["Tunneling", "Backbone", "USB"]
B64 = "ABCDEFGHIJKLMNOPQRSTUVWXYZabcdefghijklmnopqrstuvwxyz0123456789+/"

kw_hash = functools.lru_cache(maxsize=None)(kw.password_hash)

# ---------------------------------------------------------------------------
# strategies


def _xml_char_ok(c: str) -> bool:
    o = ord(c)
    return (0x20 <= o <= 0x7E or 0xA0 <= o <= 0xD7FF or 0xE000 <= o <= 0xFFFD or 0x10000 <= o <= 0x10FFFF) and (o & 0xFFFE) != 0xFFFE


chars = st.one_of(
    st.sampled_from(list("abcdefghijklmnopqrstuvwxyzABCXYZ0123456789 _-.:;!?()|{}[]@#$%*+=~^/\\")),
    st.sampled_from(list("&<>\"'")),
    st.sampled_from(list("äöüÄÖÜßáâéèêñçøåλЖ中日€“”…  ")),
    st.characters(min_codepoint=0x20, max_codepoint=0x10FFFF, exclude_categories=("Cs", "Cc")).filter(_xml_char_ok),
)


def text(min_size: int, max_size: int, max_octets: int):
    return st.text(chars, min_size=min_size, max_size=max_size).filter(lambda s: len(s.encode("utf-8")) <= max_octets)


st_secret = st.one_of(st.none(), text(0, 20, 23))
u16 = st.integers(0, 65535)
st_ia = st.one_of(u16, st.sampled_from([0x1100, 0x1101, 0x1001, 0xFFFF, 0x0001, 0x10FF]))
st_ga = st.one_of(st.integers(1, 65535), st.sampled_from([1, 2, 3, 0x0901, 0x0400, 65535]))
b16 = st.binary(min_size=16, max_size=16)

st_group_assign = st.tuples(st.integers(0, 11), st.one_of(st.lists(st_ia, min_size=0, max_size=4, unique=True), st.none()))
st_interface = st.fixed_dictionaries(
    {
        "type": st.sampled_from(TYPES),
        "ia": st_ia,
        "host": st.one_of(st.none(), st_ia),
        "user_id": st.one_of(st.none(), st.integers(0, 127)),
        "password": st_secret,
        "auth": st_secret,
        "assign": st.lists(st_group_assign, min_size=0, max_size=5, unique_by=lambda t: t[0]),
        "rand": b16,
    }
)
st_device = st.fixed_dictionaries(
    {
        "ia": st_ia,
        "tool_key": st.one_of(st.none(), b16),
        "mgmt": st_secret,
        "auth": st_secret,
        "seq": st.one_of(st.none(), st.integers(0, 2**48 - 1), st.integers(0, 300)),
        "rand": b16,
    }
)
st_backbone = st.one_of(
    st.none(),
    st.fixed_dictionaries(
        {
            "multicast": st.one_of(st.sampled_from(["224.0.23.12", "224.0.23.13", "239.255.255.250"]), st.none()),
            "latency": st.one_of(st.none(), st.integers(0, 8000), st.sampled_from([0, 1000, 2000])),
            "key": st.one_of(b16, st.none()),
        }
    ),
)
st_created = st.tuples(st.integers(2018, 2030), st.integers(1, 12), st.integers(1, 28), st.integers(0, 23), st.integers(0, 59), st.integers(0, 59)).map(
    lambda t: f"{t[0]:04d}-{t[1]:02d}-{t[2]:02d}T{t[3]:02d}:{t[4]:02d}:{t[5]:02d}"
)
st_mutation = st.tuples(st.integers(0, 13), st.integers(0, 10**6), st.integers(0, 10**6), st.integers(0, 10**6))
st_project = st.fixed_dictionaries(
    {
        "project": text(0, 40, 200),
        "created_by": st.sampled_from(CREATED_BY),
        "created": st_created,
        "password": text(1, 24, 64),
        "backbone": st_backbone,
        "interfaces": st.lists(st_interface, min_size=0, max_size=4, unique_by=lambda i: i["ia"]),
        "group_pool": st.lists(st.tuples(st_ga, b16), min_size=0, max_size=8, unique_by=lambda g: g[0]),
        "extra_gas": st.lists(st_ga, min_size=4, max_size=4, unique=True),
        "devices": st.lists(st_device, min_size=0, max_size=5, unique_by=lambda d: d["ia"]),
    }
)
st_case = st.fixed_dictionaries(
    {
        "project": st_project,
        "perm": st.integers(1, 2**30),
        "mutations": st.lists(st_mutation, min_size=10, max_size=24),
    }
)


LONG_TARGETS = [254, 255, 256, 257, 258, 300, 400, 510, 511, 512, 513, 600]
st_long_len = st.one_of(st.just(0), st.sampled_from(LONG_TARGETS), st.integers(200, 620))
st_long = st.fixed_dictionaries(
    {
        "long": st.just(True),
        "project": st_project,
        "perm": st.integers(1, 2**30),
        "mutations": st.lists(st_mutation, min_size=6, max_size=12),
        "senders_len": st_long_len,  # exact UTF-8 length of one Senders attribute
        "senders_n": st.one_of(st.just(0), st.integers(30, 80)),  # or: that many arbitrary senders
        "name_len": st_long_len,  # exact UTF-8 length of the project name (multi-byte characters inside)
        "seed": st.integers(0, 10**6),
    }
).filter(lambda c: c["senders_len"] or c["senders_n"] or c["name_len"])


def senders_for_length(target: int, seed: int) -> list[int]:
    """Unique individual addresses whose space separated text form is exactly `target` octets long."""
    def ia_of_len(n: int, k: int) -> int:
        # text lengths: a.l.d with a, l in 0..15 and d in 0..255 -> 5..9 characters
        area, line, dev = {5: (1, 1, 1), 6: (1, 1, 10), 7: (1, 1, 100), 8: (10, 1, 100), 9: (10, 10, 100)}[n]
        if n in (5, 6, 7):
            area, line = 1 + k % 9, 1 + (k // 9) % 9
            dev = dev + (k // 81) % (9 if n == 5 else 90 if n == 6 else 150)
        elif n == 8:
            area, line, dev = 10 + k % 6, 1 + (k // 6) % 9, 100 + (k // 54) % 150
        else:
            area, line, dev = 10 + k % 6, 10 + (k // 6) % 6, 100 + (k // 36) % 150
        return area << 12 | line << 8 | dev

    out: list[int] = []
    used: set[int] = set()
    remaining = target + 1  # every sender costs its length + one separator (the first one none)
    k = seed

    def add(n: int) -> None:
        nonlocal k, remaining
        while True:
            k += 1
            ia = ia_of_len(n, k)
            if ia not in used and len(kw.ia_str(ia)) == n:
                break
        used.add(ia)
        out.append(ia)
        remaining -= n + 1

    if remaining < 6:
        raise HarnessError("target too short")
    while remaining > 20:
        n = 5 + (k + len(out)) % 5
        if remaining - (n + 1) == 11:
            n = 5 if n != 5 else 6
        add(n)
    if remaining > 10:  # 12..20 (11 is avoided above): split into two admissible lengths
        first = max(6, remaining - 10)
        add(first - 1)
    add(remaining - 1)
    if remaining != 0 or len(" ".join(kw.ia_str(i) for i in out)) != target:
        raise HarnessError(f"senders_for_length({target}) produced {len(' '.join(kw.ia_str(i) for i in out))}")
    return out


def name_of_length(base: str, octets: int) -> str:
    """Project name of exactly `octets` UTF-8 octets containing multi-byte characters."""
    out, n = [], 0
    fill = ["ä", "x", "€", " ", "中", "y", "😀", "-"]
    for c in list(base) + [fill[i % len(fill)] for i in range(octets)]:
        w = len(c.encode("utf-8"))
        if n + w > octets:
            continue
        out.append(c)
        n += w
        if n == octets:
            break
    return "".join(out)


def resolve(p: dict) -> dict:
    """Strategy output -> writer project (interface groups point into the group pool)."""
    pool = [g[0] for g in p["group_pool"]]
    extra = [g for g in p["extra_gas"] if g not in pool]
    out = {k: p[k] for k in ("project", "created_by", "created", "password", "backbone", "devices")}
    out["groups"] = [[g[0], g[1]] for g in p["group_pool"]]
    itfs = []
    for itf in p["interfaces"]:
        groups, seen = [], set()
        for idx, senders in itf["assign"]:
            # indices 0..7 -> secured groups of the project, 8..11 -> a group without key in this file
            ga = pool[idx % len(pool)] if pool and idx < 8 else (extra[idx % len(extra)] if extra else None)
            if ga is None or ga in seen:
                continue
            seen.add(ga)
            groups.append([ga, None if senders is None else list(senders)])
        itfs.append({**{k: itf[k] for k in ("type", "ia", "host", "user_id", "password", "auth", "rand")}, "groups": groups})
    out["interfaces"] = itfs
    return out


# ---------------------------------------------------------------------------
# expected / observed content in one comparable shape


def expected_from_project(p: dict) -> dict:
    bb = p.get("backbone")
    return {
        "project": p["project"],
        "created_by": p["created_by"],
        "created": p["created"],
        "xmlns": kw.NS,
        "backbone": None if bb is None else {"multicast": bb.get("multicast"), "latency": bb.get("latency"), "key": bb.get("key")},
        "interfaces": [
            {
                "type": i["type"], "ia": i["ia"], "host": i.get("host"), "user_id": i.get("user_id"),
                "password": i.get("password"), "auth": i.get("auth"),
                "groups": {ga: list(s or []) for ga, s in i.get("groups", [])},
            }
            for i in p.get("interfaces", [])
        ],
        "groups": [(ga, key) for ga, key in p.get("groups", [])],
        "devices": [
            {"ia": d["ia"], "tool_key": d.get("tool_key"), "mgmt": d.get("mgmt"), "auth": d.get("auth"), "seq": d.get("seq") or 0}
            for d in p.get("devices", [])
        ],
    }


def _ia_raw(s: str | None):
    if s is None:
        return None
    a, l, d = (int(x) for x in s.split("."))
    return a << 12 | l << 8 | d


def expected_from_tree(root: kw.El, password: str) -> dict:
    """Expected content of a (real) file through the writer's own reader and decryption."""
    h, iv = kw_hash(password), kw.created_iv(root.get("Created"))

    def pw(e: kw.El, k: str):
        v = e.get(k)
        return None if v is None else kw.dec_password(v, h, iv)[1]

    def key(e: kw.El, k: str):
        v = e.get(k)
        return None if v is None else kw.dec_key(v, h, iv)

    out = {"project": root.get("Project"), "created_by": root.get("CreatedBy"), "created": root.get("Created"), "xmlns": root.get("xmlns"),
           "backbone": None, "interfaces": [], "groups": [], "devices": []}
    for c in root.children:
        if c.name == "Backbone":
            lat = c.get("Latency")
            out["backbone"] = {"multicast": c.get("MulticastAddress"), "latency": None if lat is None else int(lat), "key": key(c, "Key")}
        elif c.name == "Interface":
            uid = c.get("UserID")
            out["interfaces"].append(
                {
                    "type": c.get("Type"), "ia": _ia_raw(c.get("IndividualAddress")), "host": _ia_raw(c.get("Host")),
                    "user_id": None if uid is None else int(uid), "password": pw(c, "Password"), "auth": pw(c, "Authentication"),
                    "groups": {int(g.get("Address")): [_ia_raw(s) for s in (g.get("Senders") or "").split()] for g in c.children if g.name == "Group"},
                }
            )
        elif c.name == "GroupAddresses":
            out["groups"] = [(int(g.get("Address")), key(g, "Key")) for g in c.children if g.name == "Group"]
        elif c.name == "Devices":
            for d in c.children:
                seq = d.get("SequenceNumber")
                out["devices"].append({"ia": _ia_raw(d.get("IndividualAddress")), "tool_key": key(d, "ToolKey"), "mgmt": pw(d, "ManagementPassword"),
                                       "auth": pw(d, "Authentication"), "seq": int(seq) if seq else 0})
    return out


def _raw(a):
    return None if a is None else a.raw


def observed(k: xk.Keyring) -> dict:
    bb = k.backbone
    return {
        "project": k.project_name, "created_by": k.created_by, "created": k.created, "xmlns": k.xmlns,
        "backbone": None if bb is None else {"multicast": bb.multicast_address, "latency": bb.latency, "key": bb.decrypted_key},
        "interfaces": [
            {
                "type": i.type.value, "ia": _raw(i.individual_address), "host": _raw(i.host), "user_id": i.user_id,
                "password": i.decrypted_password, "auth": i.decrypted_authentication,
                "groups": {ga.raw: [s.raw for s in senders] for ga, senders in i.group_addresses.items()},
            }
            for i in k.interfaces
        ],
        "groups": [(g.address.raw, g.decrypted_key) for g in k.group_addresses],
        "devices": [
            {"ia": _raw(d.individual_address), "tool_key": d.decrypted_tool_key, "mgmt": d.decrypted_management_password,
             "auth": d.decrypted_authentication, "seq": d.sequence_number}
            for d in k.devices
        ],
    }


def compare(ctx, inp, exp: dict, k: xk.Keyring, what: str) -> None:
    """Field-by-field comparison; one bucket per field."""
    try:
        obs = observed(k)
    except Exception as e:  # noqa: BLE001
        ctx.fail(f"C31:{what}:observe-exc:{exc_site(e)}", inp, repr(e))
        return
    for f in ("project", "created_by", "created", "xmlns"):
        if obs[f] != exp[f]:
            ctx.fail(f"C31:{what}:neq:{f}", inp, f"{obs[f]!r} != {exp[f]!r}")
    if (obs["backbone"] is None) != (exp["backbone"] is None):
        ctx.fail(f"C31:{what}:neq:backbone-presence", inp, f"{obs['backbone']!r} != {exp['backbone']!r}")
    elif exp["backbone"] is not None:
        for f in ("multicast", "latency", "key"):
            if obs["backbone"][f] != exp["backbone"][f]:
                ctx.fail(f"C31:{what}:neq:backbone.{f}", inp, f"{obs['backbone'][f]!r} != {exp['backbone'][f]!r}")
    for coll, fields in (("interfaces", ("type", "ia", "host", "user_id", "password", "auth", "groups")), ("devices", ("ia", "tool_key", "mgmt", "auth", "seq"))):
        if len(obs[coll]) != len(exp[coll]):
            ctx.fail(f"C31:{what}:neq:{coll}-count", inp, f"{len(obs[coll])} != {len(exp[coll])}")
            continue
        for o, e in zip(obs[coll], exp[coll]):
            for f in fields:
                if o[f] != e[f]:
                    ctx.fail(f"C31:{what}:neq:{coll}.{f}", inp, f"{o[f]!r} != {e[f]!r} ({coll[:-1]} {kw.ia_str(e['ia'])})")
    if obs["groups"] != exp["groups"]:
        ctx.fail(f"C31:{what}:neq:group-keys", inp, f"{obs['groups']!r} != {exp['groups']!r}")
    # accessors
    try:
        keys = {ga: key for ga, key in exp["groups"] if key is not None}
        got = {ga.raw: key for ga, key in k.get_data_secure_group_keys().items()}
        if got != keys:
            ctx.fail(f"C31:{what}:neq:get_data_secure_group_keys", inp, f"{got!r} != {keys!r}")
        seen_ia = set()
        for itf in exp["interfaces"]:
            if itf["ia"] in seen_ia:
                continue
            seen_ia.add(itf["ia"])
            want = {ga: key for ga, key in keys.items() if ga in itf["groups"]}
            got = {ga.raw: key for ga, key in k.get_data_secure_group_keys(receiver=IndividualAddress(itf["ia"])).items()}
            if got != want:
                ctx.fail(f"C31:{what}:neq:get_data_secure_group_keys(receiver)", inp, f"receiver {kw.ia_str(itf['ia'])}: {got!r} != {want!r}")
            found = k.get_interface_by_individual_address(IndividualAddress(itf["ia"]))
            if found is None or found.individual_address.raw != itf["ia"] or found.type.value != itf["type"]:
                ctx.fail(f"C31:{what}:neq:get_interface_by_individual_address", inp, f"{kw.ia_str(itf['ia'])} -> {found!r}")
            tun = k.get_tunnel_interface_by_individual_address(IndividualAddress(itf["ia"]))
            first_tun = next((i for i in exp["interfaces"] if i["ia"] == itf["ia"] and i["type"] == "Tunneling"), None)
            if (tun is None) != (first_tun is None) or (tun is not None and (tun.user_id != first_tun["user_id"] or tun.decrypted_password != first_tun["password"])):
                ctx.fail(f"C31:{what}:neq:get_tunnel_interface_by_individual_address", inp, f"{kw.ia_str(itf['ia'])} -> {tun!r}")
            if itf["host"] is not None:
                want_t = [i["ia"] for i in exp["interfaces"] if i["type"] == "Tunneling" and i["host"] == itf["host"]]
                got_t = [i.individual_address.raw for i in k.get_tunnel_interfaces_by_host(IndividualAddress(itf["host"]))]
                if got_t != want_t:
                    ctx.fail(f"C31:{what}:neq:get_tunnel_interfaces_by_host", inp, f"host {kw.ia_str(itf['host'])}: {got_t} != {want_t}")
        stranger = next(a for a in (0x1234, 0x1235, 0x1236, 0x1237, 0x1238) if a not in seen_ia)
        if k.get_data_secure_group_keys(receiver=IndividualAddress(stranger)) != {}:
            ctx.fail(f"C31:{what}:neq:get_data_secure_group_keys(stranger)", inp, "keys returned for an address that is no interface of the keyring")
        senders = {s: 0 for itf in exp["interfaces"] for lst in itf["groups"].values() for s in lst}
        for d in exp["devices"]:
            senders[d["ia"]] = d["seq"]
        got_s = {ia.raw: seq for ia, seq in k.get_data_secure_senders().items()}
        if got_s != senders:
            ctx.fail(f"C31:{what}:neq:get_data_secure_senders", inp, f"{got_s!r} != {senders!r}")
    except Exception as e:  # noqa: BLE001
        ctx.fail(f"C31:{what}:accessor-exc:{exc_site(e)}", inp, "".join(traceback.format_exception_only(type(e), e)))


# ---------------------------------------------------------------------------
# unsigned variants and mutations

VARIANTS = {
    "attr-order": lambda perm: {"perm": perm},
    "attr-order-2": lambda perm: {"perm": perm * 7 + 3},
    "no-bom": lambda perm: {"bom": False},
    "lf": lambda perm: {"crlf": False},
    "one-line": lambda perm: {"indent": None},
    "tab-indent": lambda perm: {"indent": "\t\t"},
    "selfclose-tight": lambda perm: {"selfclose": "/>"},
    "start-end-tags": lambda perm: {"selfclose": "></>"},
    "single-quotes": lambda perm: {"quote": "'"},
    "no-declaration": lambda perm: {"decl": False, "bom": False},
    "comment": lambda perm: {"comment": True},
    "trailing-newline": lambda perm: {"trailing_newline": True},
    "attr-gap": lambda perm: {"gap": "\r\n      "},
    "combined": lambda perm: {"perm": perm + 1, "bom": False, "crlf": False, "indent": " ", "selfclose": "/>", "quote": "'", "comment": True, "trailing_newline": True},
}
MUTATION_KINDS = [
    "attr-value", "attr-value-b64", "attr-name", "attr-remove", "attr-add", "attr-move", "signature",
    "el-rename", "el-remove", "el-dup", "el-add", "el-swap", "el-move", "el-nest",
]


def _pick(seq, n):
    return seq[n % len(seq)] if seq else None


def _tweak(v: str, n: int) -> str:
    """A different string of about the same size."""
    ops = n % 6
    if ops == 0 or not v:
        return v + "x"
    i = (n // 6) % len(v)
    if ops == 1:
        return v[:i] + v[i + 1 :]
    if ops == 2:
        c = v[i]
        r = c.swapcase() if c.swapcase() != c and len(c.swapcase()) == 1 else ("y" if c != "y" else "z")
        return v[:i] + r + v[i + 1 :]
    if ops == 3:
        return " " + v
    if ops == 4:
        return v + " "
    return v[:i] + v[i] + v[i:]  # duplicate one character


def mutate(root: kw.El, mut, h: bytes):
    """Apply one mutation to a copy. Returns (kind, tree) or None if not applicable / no signed change."""
    kind = MUTATION_KINDS[mut[0] % len(MUTATION_KINDS)]
    a, b, c = mut[1], mut[2], mut[3]
    t = root.copy()
    nodes = list(t.walk())
    if kind in ("attr-value", "attr-value-b64", "attr-name", "attr-remove", "attr-move"):
        cand = [(e, i) for _p, e in nodes for i, (k, v) in enumerate(e.attrs) if k not in kw.UNSIGNED_ATTRS]
        if kind == "attr-value-b64":
            cand = [(e, i) for e, i in cand if e.attrs[i][0] in kw.PASSWORD_ATTRS + kw.KEY_ATTRS]
        if kind == "attr-move":
            cand = [(e, i) for e, i in cand if e is not t]
        pick = _pick(cand, a)
        if pick is None:
            return None
        e, i = pick
        k, v = e.attrs[i]
        if kind == "attr-value":
            e.attrs[i] = (k, _tweak(v, b))
        elif kind == "attr-value-b64":
            j = b % len(v.rstrip("="))
            e.attrs[i] = (k, v[:j] + B64[(B64.index(v[j]) + 1 + c % 63) % 64] + v[j + 1 :])
        elif kind == "attr-name":
            new = [k + "x", k.lower(), k.upper(), k[:-1] or "k", "x" + k][b % 5]
            if new == k or any(kk == new for kk, _ in e.attrs):
                return None
            e.attrs[i] = (new, v)
        elif kind == "attr-remove":
            del e.attrs[i]
        else:  # move the attribute to another element that does not have it
            others = [o for _p, o in nodes if o is not e and o.get(k) is None]
            o = _pick(others, b)
            if o is None:
                return None
            del e.attrs[i]
            o.attrs.append((k, v))
    elif kind == "attr-add":
        e = _pick(nodes, a)[1]
        name = ["Extra", "Key", "Senders", "Host", "Name", "UserID"][b % 6]
        if e.get(name) is not None:
            return None
        e.attrs.append((name, ["", "1", "x", "1.1.1"][c % 4]))
    elif kind == "signature":
        raw = bytearray(base64.b64decode(t.get("Signature")))
        raw[a % len(raw)] ^= 1 << (b % 8)
        t.set("Signature", base64.b64encode(bytes(raw)).decode())
        return kind, t
    else:
        inner = [(p, e) for p, e in nodes if p]
        if kind == "el-rename":
            p, e = _pick(nodes, a)
            new = [e.name + "x", e.name + "s", e.name.lower(), "X"][b % 4]
            if new == e.name:
                return None
            e.name = new
        elif kind == "el-add":
            p, e = _pick(nodes, a)
            e.children.insert(b % (len(e.children) + 1), kw.El(["Extra", "Group", "Interface", "Device"][c % 4]))
        else:
            pick = _pick(inner, a)
            if pick is None:
                return None
            p, e = pick
            parent = t.at(p[:-1])
            idx = p[-1]
            if kind == "el-remove":
                del parent.children[idx]
            elif kind == "el-dup":
                parent.children.insert(idx, e.copy())
            elif kind == "el-swap":
                if len(parent.children) < 2:
                    return None
                j = (idx + 1 + b % (len(parent.children) - 1)) % len(parent.children)
                parent.children[idx], parent.children[j] = parent.children[j], parent.children[idx]
            elif kind == "el-move":
                targets = [o for q, o in nodes if o is not parent and o is not e and q[: len(p)] != p]
                o = _pick(targets, b)
                if o is None:
                    return None
                del parent.children[idx]
                o.children.append(e)
            elif kind == "el-nest":
                if b % 2 and e.children:  # lift the first child one level up
                    ch = e.children.pop(0)
                    parent.children.insert(idx + 1, ch)
                else:  # wrap into a new element
                    parent.children[idx] = kw.El(["Wrapper", parent.name, e.name][c % 3], [], [e])
    try:
        if kw.canonical(t, h, True) == kw.canonical(root, h, True):
            return None
    except ValueError:
        return None
    return kind, t


WEAKENINGS = ["removed", "empty"] + [f"truncated-{k}" for k in range(1, 16)] + ["extended-zero", "extended-octets", "extended-hash"]


def weaken(tree: kw.El, original: kw.El, name: str, h: bytes) -> kw.El:
    """Copy of `tree` whose Signature attribute is no valid full-length signature any more.

    removed / empty / the first k octets of the ORIGINAL file's signature (k = 1..15) / the original
    signature followed by extra octets (one zero octet, 16 arbitrary octets, or the remaining 16
    octets of the SHA-256 the signature is the head of). A keyring without a valid 16-octet signature
    is not the exported keyring, whatever its content."""
    t = tree.copy()
    full = hashlib.sha256(kw.canonical(original, h, True)).digest()
    sig = full[:16]
    if name == "removed":
        t.attrs = [(k, v) for k, v in t.attrs if k != "Signature"]
        return t
    if name == "empty":
        raw = b""
    elif name.startswith("truncated-"):
        raw = sig[: int(name.split("-")[1])]
    elif name == "extended-zero":
        raw = sig + b"\x00"
    elif name == "extended-octets":
        raw = sig + bytes(range(1, 17))
    elif name == "extended-hash":
        raw = full
    else:
        raise HarnessError(f"unknown weakening {name}")
    t.set("Signature", base64.b64encode(raw).decode())
    return t


def weak_class(name: str) -> str:
    return name.split("-")[0]


def wrong_passwords(pw: str) -> list[str]:
    out = [pw + "x", pw[:-1], pw.swapcase(), " " + pw, pw + " ", pw.encode("utf-8").decode("latin-1") if not pw.isascii() else pw * 2]
    res: list[str] = []
    for w in out:
        if w != pw and w not in res:
            res.append(w)
    return res[:4]


# ---------------------------------------------------------------------------
# file handling

_DIR: str | None = None
_N = [0]


def _path() -> str:
    global _DIR
    if _DIR is None or not os.path.isdir(_DIR):
        os.makedirs("/tmp/verif-c31", exist_ok=True)
        _DIR = tempfile.mkdtemp(prefix=f"{os.getpid()}-", dir="/tmp/verif-c31")
    _N[0] += 1
    return os.path.join(_DIR, f"k{_N[0] % 4}.knxkeys")


def cleanup() -> None:
    global _DIR
    if _DIR is not None:
        shutil.rmtree(_DIR, ignore_errors=True)
        _DIR = None
    try:
        os.rmdir("/tmp/verif-c31")
    except OSError:
        pass


def load(data: bytes, password: str):
    """-> ("ok", Keyring) | ("invalid", exc) | ("exc", exc)"""
    path = _path()
    with open(path, "wb") as f:
        f.write(data)
    try:
        return "ok", xk.sync_load_keyring(path, password)
    except InvalidSecureConfiguration as e:
        return "invalid", e
    except Exception as e:  # noqa: BLE001
        return "exc", e


def apply_patches():
    saved = xk.hash_keyring_password
    xk.hash_keyring_password = functools.lru_cache(maxsize=4096)(saved)
    return saved


def restore_patches(saved) -> None:
    xk.hash_keyring_password = saved


# ---------------------------------------------------------------------------
# oracle


def check_file(ctx, inp: dict, root: kw.El, password: str, exp: dict, perm: int, mutations: list, label: str, base_style: dict, nontrivial: bool, exhaustive_weak: bool = False) -> None:
    h = kw_hash(password)
    data = kw.render(root, base_style)
    ctx.case(data, nontrivial=nontrivial, cls=[f"{label}:load"] + ([] if nontrivial else [f"{label}:trivial-project"]),
             sample={"label": label, "interfaces": len(exp["interfaces"]), "groups": len(exp["groups"]), "devices": len(exp["devices"]), "backbone": exp["backbone"] is not None, "bytes": len(data)})
    res, val = load(data, password)
    if res != "ok":
        cause = val.__cause__ if res == "invalid" and val.__cause__ is not None else val
        ctx.fail(f"C31:{label}:valid-file-refused:{exc_site(cause) if res == 'exc' or val.__cause__ is not None else 'signature'}", inp,
                 "".join(traceback.format_exception_only(type(cause), cause)))
    else:
        compare(ctx, inp, exp, val, f"{label}:load")
    # unsigned variants
    for name, mk in VARIANTS.items():
        vdata = kw.render(root, {**base_style, **mk(perm)})
        if vdata == data:
            continue
        ctx.case(vdata, nontrivial=True, cls=f"{label}:unsigned:{name}")
        res, val = load(vdata, password)
        if res != "ok":
            cause = val.__cause__ if getattr(val, "__cause__", None) is not None else val
            ctx.fail(f"C31:{label}:unsigned-change-refused:{name}", {**inp, "variant": name}, "".join(traceback.format_exception_only(type(cause), cause)))
        else:
            compare(ctx, {**inp, "variant": name}, exp, val, f"{label}:unsigned:{name}")
    # single mutations of signed content: the generated ones plus every kind once on a fixed target
    todo = list(mutations) + [(i, perm + i, perm // 3 + i, perm // 7 + i) for i in range(len(MUTATION_KINDS))]
    seen: set[bytes] = set()
    for mut in todo:
        m = mutate(root, mut, h)
        if m is None:
            continue
        kind, tree = m
        mdata = kw.render(tree, base_style)
        if mdata in seen:
            continue
        seen.add(mdata)
        ctx.case(mdata, nontrivial=True, cls=f"{label}:mutation:{kind}")
        res, val = load(mdata, password)
        minp = {**inp, "mutations": [list(mut)]}
        if res == "ok":
            ctx.fail(f"C31:{label}:mutation-accepted:{kind}", minp, f"mutated file loaded; mutation {kind} {mut}")
        elif res == "exc":
            ctx.fail(f"C31:{label}:mutation-exc:{kind}:{exc_site(val)}", minp, "".join(traceback.format_exception_only(type(val), val)))
    # weakened signatures (missing / empty / truncated / extended): alone, with a wrong password and
    # combined with content mutations ("tampered content + weakened signature")
    wrong = wrong_passwords(password)
    fixed = [(i, perm + 2 * i + 1, perm // 11 + i, perm // 13 + i) for i in range(len(MUTATION_KINDS))]
    combos: list[tuple] = [(w, None, password) for w in WEAKENINGS]
    combos += [(w, None, wrong[0]) for w in ("removed", "empty", "truncated-1", "truncated-8", "truncated-15", "extended-hash")] if wrong else []
    if exhaustive_weak:
        combos += [(w, mut, password) for mut in fixed for w in WEAKENINGS]
    else:
        combos += [(WEAKENINGS[(perm + 7 * i) % len(WEAKENINGS)], mut, password) for i, mut in enumerate(fixed)]
    combos += [(WEAKENINGS[(mut[1] + mut[2] + i) % len(WEAKENINGS)], tuple(mut), password) for i, mut in enumerate(mutations[:24])]
    for wname, mut, pw_used in combos:
        tree = root
        if mut is not None:
            if MUTATION_KINDS[mut[0] % len(MUTATION_KINDS)] == "signature":
                continue
            m = mutate(root, mut, h)
            if m is None:
                continue
            tree = m[1]
        wdata = kw.render(weaken(tree, root, wname, h), base_style)
        key = wdata + pw_used.encode("utf-8")
        if key in seen:
            continue
        seen.add(key)
        how = "alone" if mut is None and pw_used == password else "wrong-password" if mut is None else "with-content-mutation"
        ctx.case(key, nontrivial=True, cls=[f"{label}:weak-signature:{weak_class(wname)}", f"{label}:weak-signature:{how}"])
        res, val = load(wdata, pw_used)
        winp = {**inp, "mutations": [list(mut)] if mut is not None else [], "weak": wname}
        if res == "ok":
            ctx.fail(f"C31:{label}:weak-signature-accepted:{weak_class(wname)}:{how}", winp,
                     f"file with Signature {wname} ({how}{'' if mut is None else ' ' + MUTATION_KINDS[mut[0] % len(MUTATION_KINDS)] + ' ' + str(mut)}) loaded")
        elif res == "exc":
            ctx.fail(f"C31:{label}:weak-signature-exc:{weak_class(wname)}:{exc_site(val)}", winp, "".join(traceback.format_exception_only(type(val), val)))
    # wrong passwords
    for w in wrong:
        ctx.case((data, w), nontrivial=True, cls=f"{label}:wrong-password")
        res, val = load(data, w)
        if res == "ok":
            ctx.fail(f"C31:{label}:wrong-password-accepted", {**inp, "wrong": w}, f"loaded with {w!r} instead of {password!r}")
        elif res == "exc":
            ctx.fail(f"C31:{label}:wrong-password-exc:{exc_site(val)}", {**inp, "wrong": w}, "".join(traceback.format_exception_only(type(val), val)))


def oracle(ctx, case: dict) -> None:
    if case.get("long"):
        check_long(ctx, case)
        return
    p = resolve(case["project"]) if "group_pool" in case["project"] else case["project"]
    try:
        root = kw.build_tree(p)
    except ValueError:
        ctx.case(None, nontrivial=False, cls="skipped:beyond-scheme")
        return
    exp = expected_from_project(p)
    nontrivial = bool(p["interfaces"]) and bool(p["groups"])
    check_file(ctx, case, root, p["password"], exp, case["perm"], [tuple(m) for m in case["mutations"]], "generated", {}, nontrivial)


def check_long(ctx, case: dict) -> None:
    """Signed strings around and beyond 255 octets (a group with >= 37 secure senders, a long project name).

    The scheme has one length octet per string; ETS (and every writer that streams the length as an
    octet) emits the low octet of the length, which is what the reference writer does (wrap=True).
    Same oracle as for every other keyring: loads with exactly the written content, unsigned changes
    load identically, tampering / weakened signatures / wrong passwords are refused."""
    p = resolve(case["project"])
    seed = int(case.get("seed", 0))
    lists = []
    if case.get("senders_len"):
        lists.append(senders_for_length(int(case["senders_len"]), seed))
    if case.get("senders_n") or case.get("n_senders"):
        n = int(case.get("senders_n") or case.get("n_senders"))
        lists.append([(0x1200 + seed * 7 + i * (1 + seed % 5)) & 0xFFFF for i in range(n)])
    if lists:
        if not p["interfaces"]:
            p["interfaces"] = [{"type": "Tunneling", "ia": 0x1105, "host": 0x1100, "user_id": 2, "password": "pw", "auth": "auth", "rand": bytes(16), "groups": []}]
        pool = [g[0] for g in p["groups"]] + [g for g in (1, 2, 3) if g not in [x[0] for x in p["groups"]]]
        for i, senders in enumerate(lists):
            itf = p["interfaces"][i % len(p["interfaces"])]
            ga = pool[i]
            itf["groups"] = [[ga, senders]] + [g for g in itf["groups"] if g[0] != ga]
    if case.get("name_len"):
        p["project"] = name_of_length(p["project"], int(case["name_len"]))
    root = kw.build_tree(p, wrap=True)
    exp = expected_from_project(p)
    longest = max(len(v.encode("utf-8")) for _p, e in root.walk() for _k, v in e.attrs)
    cls = ["long-attribute"] + (["long:senders"] if lists else []) + (["long:project-name"] if case.get("name_len") else [])
    cls.append("long:max>255" if longest > 255 else "long:max<=255")
    ctx.case(None, nontrivial=False, cls=cls, sample={"label": "long", "longest_attribute_octets": longest, "senders": [len(x) for x in lists], "name_octets": len(p["project"].encode("utf-8"))})
    check_file(ctx, case, root, p["password"], exp, int(case.get("perm", 1)), [tuple(m) for m in case.get("mutations", [])], "long", {}, True)


def check_real(ctx, name: str, perm: int, mutations: list, systematic: bool = False) -> None:
    password = kw.REAL_FILES[name]
    with open(os.path.join(RESOURCES, name), "rb") as f:
        data = f.read()
    root = kw.parse(data)
    style = {"bom": data[:3] == b"\xef\xbb\xbf", "crlf": b"\r\n" in data, "trailing_newline": data.endswith(b"\n")}
    if kw.render(root, style) != data:
        raise HarnessError(f"{name}: writer does not reproduce the real file")
    exp = expected_from_tree(root, password)
    muts = list(mutations) + (systematic_mutations(root, perm) if systematic else [])
    check_file(ctx, {"real": name, "perm": perm, "mutations": [list(m) for m in mutations]}, root, password, exp, perm, muts, "real", style, True, exhaustive_weak=True)


def systematic_mutations(root: kw.El, perm: int) -> list:
    """Every mutation kind on every target (attribute / element index) once."""
    n_attr = sum(len(e.attrs) for _p, e in root.walk())
    n_el = sum(1 for _ in root.walk())
    out = []
    for kind, name in enumerate(MUTATION_KINDS):
        n = 16 if name == "signature" else n_attr if name.startswith("attr-") and name != "attr-add" else n_el
        for a in range(n):
            out.append((kind, a, perm + 3 * a, perm // 5 + a))
    return out


def real_mutations(seed: int, n: int) -> list:
    x = seed & 0x7FFFFFFF
    out = []
    for _ in range(n):
        vals = []
        for _j in range(4):
            x = (x * 1103515245 + 12345) & 0x7FFFFFFF
            vals.append(x >> 8)
        out.append(tuple(vals))
    return out


# ---------------------------------------------------------------------------


def selftest(ctx) -> None:
    ctx.notes["writer_selftest"] = kw.selftest(RESOURCES)
    # the writer's output for a fixed project is accepted by its own reader and signature
    p = {"project": "T & <t>", "created_by": CREATED_BY[0], "created": "2024-01-02T03:04:05", "password": "pä", "backbone": None,
         "interfaces": [{"type": "USB", "ia": 0x1101, "host": None, "user_id": None, "password": "a'\"", "auth": None, "rand": bytes(16), "groups": [[5, [0x1102]]]}],
         "groups": [[5, bytes(range(16))]], "devices": []}
    root = kw.build_tree(p)
    for style in ({}, {"quote": "'", "indent": None, "selfclose": "></>", "perm": 5}):
        back = kw.parse(kw.render(root, style))
        assert kw.signature(back, kw_hash("pä")) == root.get("Signature")
        assert back.get("Project") == "T & <t>"
    # exact-length builders of the long-attribute domain
    for t in LONG_TARGETS:
        for seed in (0, 5, 999999):
            lst = senders_for_length(t, seed)
            assert len(set(lst)) == len(lst) and len(" ".join(kw.ia_str(i) for i in lst)) == t
            nm = name_of_length("a & ü", t)
            assert len(nm.encode("utf-8")) == t and len(nm) < t
    long_el = kw.El("K", [("A", "x" * 300)])
    assert kw.canonical(long_el, bytes(16), True)[:6] == bytes([1, 1, 0x4B, 1, 0x41, 300 & 0xFF])
    # every mutation kind produces a signed change on a rich tree
    with open(os.path.join(RESOURCES, "keyring.knxkeys"), "rb") as f:
        real = kw.parse(f.read())
    h = kw_hash("pwd")
    kinds = set()
    for i in range(len(MUTATION_KINDS)):
        m = mutate(real, (i, 3, 5, 7), h)
        assert m is not None and kw.canonical(m[1], h) != kw.canonical(real, h) or MUTATION_KINDS[i] == "signature", MUTATION_KINDS[i]
        kinds.add(m[0])
    assert kinds == set(MUTATION_KINDS), kinds


def _shard(ctx, n_cases: int, real_names: list, n_real_mut: int) -> None:
    saved = apply_patches()
    try:
        for name in real_names:
            check_real(ctx, name, 12345 + ctx.shard_seed() % 1000, real_mutations(ctx.shard_seed(), n_real_mut), systematic=True)
        if n_cases:
            hyp_search(ctx, st_case, oracle, n_cases)
            hyp_search(ctx, st_long, oracle, max(3, n_cases // 2), seed_salt=5)
    finally:
        restore_patches(saved)
        cleanup()


def run(ctx) -> None:
    shards = 16 if ctx.quick else 48
    names = list(kw.REAL_FILES)
    jobs = []
    for i in range(shards):
        jobs.append((ctx.n(6, 40), [names[i % len(names)]] if i < (len(names) if ctx.quick else 4 * len(names)) else [], ctx.n(40, 200)))
    gc.collect()
    gc.freeze()
    try:
        parallel(ctx, _shard, jobs)
    finally:
        gc.unfreeze()
    # the async loader is a thin wrapper: one load per real file
    saved = apply_patches()
    try:
        for name, pw in kw.REAL_FILES.items():
            path = os.path.join(RESOURCES, name)
            ctx.case(("async", name), nontrivial=True, cls="real:async-load")
            try:
                k = asyncio.run(xk.load_keyring(path, pw))
            except Exception as e:  # noqa: BLE001
                ctx.fail(f"C31:real:async-load-refused:{type(e).__name__}", {"real": name, "async": True}, repr(e))
                continue
            with open(path, "rb") as f:
                exp = expected_from_tree(kw.parse(f.read()), pw)
            compare(ctx, {"real": name, "async": True}, exp, k, "real:async-load")
    finally:
        restore_patches(saved)
    ctx.notes["real_files"] = len(names)
    ctx.notes["mutation_kinds"] = len(MUTATION_KINDS)
    ctx.notes["signature_weakenings"] = len(WEAKENINGS)
    ctx.notes["unsigned_variants"] = len(VARIANTS)


def replay(ctx, case) -> None:
    if not isinstance(case, dict):
        return
    saved = apply_patches()
    try:
        if "real" in case:
            check_real(ctx, case["real"], int(case.get("perm", 1)), [tuple(m) for m in case.get("mutations", [])])
        elif case.get("long"):
            check_long(ctx, case)
        elif "project" in case:
            oracle(ctx, {"project": case["project"], "perm": int(case.get("perm", 1)), "mutations": case.get("mutations", [])})
    finally:
        restore_patches(saved)
        cleanup()
